(* C12 — dependency satisfaction is decided per Debian semantics.
   Statements only; proofs in proofs/SatP.v and proofs/DebVersionP.v.

   Quantifier: every field (a list of entries, each a list of alternatives; no bound on either;
   all five operators), every lookup value of each of the three forms, every version type V
   with a comparison that is total on a stated domain.  [field] below is the typed view the two
   evaluators look at: (name, optional (operator, version)) per alternative.

   Three layers:
   (A) for any version type: both evaluators = the Policy decision table; they agree; only the
       induced lookup function matters; trees built by the constructors and trees whose
       accessors do not panic have that typed view;
   (B) the Debian ordering (DebVersion.vcmp, the dpkg algorithm) is a total preorder;
   (C) debversion 0.4.4 (the crate the code links) equals (B) when no digit run exceeds
       i32::MAX, so (A) applies to it on that domain; beyond it the crate panics
       (finding c12-debversion-i32-digit-run, witness below). *)
From V.model Require Import Base RelLex RelParse DebVersion Sat.
From V.proofs Require Import DebVersionP SatP.
From Coq Require Import String.
Local Open Scope string_scope.

(* ================================================================== (A) any version type *)

(* Both evaluators return Ok of the decision table:  every entry has an alternative whose
   package is installed and, if versioned, whose installed version stands in the stated
   relation to the required one. *)
Theorem C12_spec :
  forall (V : Type) (vcmp : V -> V -> res comparison) (vparse : str -> option V)
         (cmp : V -> V -> comparison) (Vok : V -> Prop),
  (forall a b, Vok a -> Vok b -> vcmp a b = Ok (cmp a b)) ->
  forall (t : rtree) (f : list (list (rel V))) (pv : lookup V),
  tree_field V vparse t = Ok f -> field_dom V Vok f -> lookup_dom V Vok pv ->
  ll_relations_satisfied_by V vcmp vparse t pv = Ok (satisfied_spec cmp (lookup_version pv) f) /\
  lossy_relations_satisfied_by V vcmp f pv = Ok (satisfied_spec cmp (lookup_version pv) f).
Proof. exact c12_spec. Qed.
Check C12_spec :
  forall (V : Type) (vcmp : V -> V -> res comparison) (vparse : str -> option V)
         (cmp : V -> V -> comparison) (Vok : V -> Prop),
  (forall a b, Vok a -> Vok b -> vcmp a b = Ok (cmp a b)) ->
  forall (t : rtree) (f : list (list (rel V))) (pv : lookup V),
  tree_field V vparse t = Ok f -> field_dom V Vok f -> lookup_dom V Vok pv ->
  ll_relations_satisfied_by V vcmp vparse t pv = Ok (satisfied_spec cmp (lookup_version pv) f) /\
  lossy_relations_satisfied_by V vcmp f pv = Ok (satisfied_spec cmp (lookup_version pv) f).
Print Assumptions C12_spec.

(* the decision table, in the words of the property: << is Lt, <= is Lt or Eq, = is Eq,
   >= is Gt or Eq, >> is Gt *)
Theorem C12_table_in_words :
  forall (V : Type) (cmp : V -> V -> comparison) (installed : str -> option V) (f : list (list (rel V))),
  satisfied_spec cmp installed f = true <->
  Forall (Exists (fun r => exists v, installed (r_name r) = Some v /\
                           match r_ver r with
                           | None => True
                           | Some (OpLt, w) => cmp v w = Lt
                           | Some (OpLe, w) => cmp v w = Lt \/ cmp v w = Eq
                           | Some (OpEq, w) => cmp v w = Eq
                           | Some (OpGe, w) => cmp v w = Gt \/ cmp v w = Eq
                           | Some (OpGt, w) => cmp v w = Gt
                           end)) f.
Proof. exact c12_table_in_words. Qed.
Check C12_table_in_words :
  forall (V : Type) (cmp : V -> V -> comparison) (installed : str -> option V) (f : list (list (rel V))),
  satisfied_spec cmp installed f = true <->
  Forall (Exists (fun r => exists v, installed (r_name r) = Some v /\
                           match r_ver r with
                           | None => True
                           | Some (OpLt, w) => cmp v w = Lt
                           | Some (OpLe, w) => cmp v w = Lt \/ cmp v w = Eq
                           | Some (OpEq, w) => cmp v w = Eq
                           | Some (OpGe, w) => cmp v w = Gt \/ cmp v w = Eq
                           | Some (OpGt, w) => cmp v w = Gt
                           end)) f.
Print Assumptions C12_table_in_words.

(* The lossless and the lossy evaluator return the same outcome — also when the comparison
   panics: same calls in the same order.  No hypothesis on the comparison. *)
Theorem C12_agree :
  forall (V : Type) (vcmp : V -> V -> res comparison) (vparse : str -> option V)
         (t : rtree) (f : list (list (rel V))) (pv : lookup V),
  tree_field V vparse t = Ok f ->
  ll_relations_satisfied_by V vcmp vparse t pv = lossy_relations_satisfied_by V vcmp f pv.
Proof. exact ll_agree_lossy. Qed.
Check C12_agree :
  forall (V : Type) (vcmp : V -> V -> res comparison) (vparse : str -> option V)
         (t : rtree) (f : list (list (rel V))) (pv : lookup V),
  tree_field V vparse t = Ok f ->
  ll_relations_satisfied_by V vcmp vparse t pv = lossy_relations_satisfied_by V vcmp f pv.
Print Assumptions C12_agree.

(* Lookup forms: the evaluators see the installed versions only through the induced function;
   a map filled by inserts induces "last binding wins", a pair induces the one-point function,
   a closure induces itself. *)
Theorem C12_lookup :
  forall (V : Type) (vcmp : V -> V -> res comparison) (vparse : str -> option V),
  (forall (t : rtree) (f : list (list (rel V))) (p q : lookup V),
     (forall n, lookup_version p n = lookup_version q n) ->
     ll_relations_satisfied_by V vcmp vparse t p = ll_relations_satisfied_by V vcmp vparse t q /\
     lossy_relations_satisfied_by V vcmp f p = lossy_relations_satisfied_by V vcmp f q) /\
  (forall (l : list (str * V)) n, lookup_version (LMap (hm_of_list l)) n = find_last l n) /\
  (forall (m : list (str * V)) n, lookup_version (LMap m) n = lookup_version (LFn (hm_get m)) n) /\
  (forall (k : str) (v : V) n,
     lookup_version (LPair k v) n = lookup_version (LFn (fun n' => if str_eqb n' k then Some v else None)) n /\
     lookup_version (LPair k v) n = lookup_version (LMap (hm_of_list [(k, v)])) n).
Proof. exact c12_lookup. Qed.
Check C12_lookup :
  forall (V : Type) (vcmp : V -> V -> res comparison) (vparse : str -> option V),
  (forall (t : rtree) (f : list (list (rel V))) (p q : lookup V),
     (forall n, lookup_version p n = lookup_version q n) ->
     ll_relations_satisfied_by V vcmp vparse t p = ll_relations_satisfied_by V vcmp vparse t q /\
     lossy_relations_satisfied_by V vcmp f p = lossy_relations_satisfied_by V vcmp f q) /\
  (forall (l : list (str * V)) n, lookup_version (LMap (hm_of_list l)) n = find_last l n) /\
  (forall (m : list (str * V)) n, lookup_version (LMap m) n = lookup_version (LFn (hm_get m)) n) /\
  (forall (k : str) (v : V) n,
     lookup_version (LPair k v) n = lookup_version (LFn (fun n' => if str_eqb n' k then Some v else None)) n /\
     lookup_version (LPair k v) n = lookup_version (LMap (hm_of_list [(k, v)])) n).
Print Assumptions C12_lookup.

(* Trees built by Relation::new / Entry::from / Relations::from have the field they were built
   from as their typed view (so C12_spec and C12_agree apply to them), provided the versions
   survive print-then-read. *)
Theorem C12_constructed :
  forall (V : Type) (vparse : str -> option V) (vshow : V -> str),
  vparse [] = None ->                     (* the empty text is no version *)
  forall (f : list (list (rel V))),
  Forall (Forall (fun r => match r_ver r with Some (_, v) => vparse (vshow v) = Some v | None => True end)) f ->
  exists t, build_field V vshow f = Ok t /\ tree_field V vparse t = Ok f.
Proof. exact build_field_view. Qed.
Check C12_constructed :
  forall (V : Type) (vparse : str -> option V) (vshow : V -> str),
  vparse [] = None ->                     (* the empty text is no version *)
  forall (f : list (list (rel V))),
  Forall (Forall (fun r => match r_ver r with Some (_, v) => vparse (vshow v) = Some v | None => True end)) f ->
  exists t, build_field V vshow f = Ok t /\ tree_field V vparse t = Ok f.
Print Assumptions C12_constructed.

(* Relation::set_version(Some((vc, v))) — the code WITH proposed_fixes/C12-set-version-strict-operators.patch —
   on any relation node that has a name: the name is unchanged and version() reads (vc, v) back;
   so fields whose alternatives were given their constraint by set_version have the intended
   typed view and C12_spec / C12_agree apply to them. *)
Theorem C12_set_version :
  forall (V : Type) (vparse : str -> option V) (vshow : V -> str),
  vparse [] = None ->
  (forall (r : rtree) n vc v,
     is_node r = true -> first_ident r = Some n -> vparse (vshow v) = Some v ->
     tree_rel V vparse (set_version_some V vshow (@constraint_tokens) r vc v) = Ok (mk_rel n (Some (vc, v)))) /\
  (forall f : list (list (rel V)),
     Forall (Forall (fun r => match r_ver r with Some (_, v) => vparse (vshow v) = Some v | None => True end)) f ->
     exists t, sv_field V vshow (@constraint_tokens) f = Ok t /\ tree_field V vparse t = Ok f).
Proof.
  intros V vparse vshow He. split.
  - intros r n vc v H1 H2 H3. exact (proj1 (set_version_view V vparse vshow He r n vc v H1 H2 H3)).
  - exact (sv_field_view V vparse vshow He).
Qed.
Check C12_set_version :
  forall (V : Type) (vparse : str -> option V) (vshow : V -> str),
  vparse [] = None ->
  (forall (r : rtree) n vc v,
     is_node r = true -> first_ident r = Some n -> vparse (vshow v) = Some v ->
     tree_rel V vparse (set_version_some V vshow (@constraint_tokens) r vc v) = Ok (mk_rel n (Some (vc, v)))) /\
  (forall f : list (list (rel V)),
     Forall (Forall (fun r => match r_ver r with Some (_, v) => vparse (vshow v) = Some v | None => True end)) f ->
     exists t, sv_field V vshow (@constraint_tokens) f = Ok t /\ tree_field V vparse t = Ok f).
Print Assumptions C12_set_version.

(* ... and the code as it is in /repo today (one character for >> and <<): the relation prints
   as `a (> 1)` and the lossless evaluator panics where Debian semantics say "satisfied".
   Replayed on the real code: corpus/c12/set-version-strict.json. *)
Theorem C12_set_version_before_fix_refuted :
  exists one two t,
    parse_version (s2l "1") = Some one /\ parse_version (s2l "2") = Some two /\
    deb_sv_field_before_fix [[mk_rel (s2l "a") (Some (OpGt, one))]] = Ok t /\
    text t = s2l "a (> 1)" /\
    deb_ll_sat t (LPair (s2l "a") two) = Panic 11%N /\
    deb_spec (lookup_version (LPair (s2l "a") two)) [[mk_rel (s2l "a") (Some (OpGt, one))]] = true.
Proof. exact deb_set_version_before_fix_refuted. Qed.
Check C12_set_version_before_fix_refuted :
  exists one two t,
    parse_version (s2l "1") = Some one /\ parse_version (s2l "2") = Some two /\
    deb_sv_field_before_fix [[mk_rel (s2l "a") (Some (OpGt, one))]] = Ok t /\
    text t = s2l "a (> 1)" /\
    deb_ll_sat t (LPair (s2l "a") two) = Panic 11%N /\
    deb_spec (lookup_version (LPair (s2l "a") two)) [[mk_rel (s2l "a") (Some (OpGt, one))]] = true.
Print Assumptions C12_set_version_before_fix_refuted.

(* Parsed trees: outside the finding class (an operator that is none of the five) every tree
   whose alternatives have a name and a readable version has a typed view. *)
Theorem C12_tree_view_outside_known_class :
  forall (V : Type) (vparse : str -> option V) (t : rtree),
  names_present t -> versions_readable V vparse t -> ~ Known_nonstandard_operator t ->
  exists f, tree_field V vparse t = Ok f.
Proof. exact tree_field_total. Qed.
Check C12_tree_view_outside_known_class :
  forall (V : Type) (vparse : str -> option V) (t : rtree),
  names_present t -> versions_readable V vparse t -> ~ Known_nonstandard_operator t ->
  exists f, tree_field V vparse t = Ok f.
Print Assumptions C12_tree_view_outside_known_class.

(* What "a total preorder" buys: versions the ordering identifies (1.0 and 1.00, 1.0 and 1.0-0)
   are interchangeable as installed versions; lower bounds survive upgrades, upper bounds
   survive downgrades. *)
Theorem C12_order_consequences :
  forall (V : Type) (cmp : V -> V -> comparison), cmp_ok cmp ->
  (forall (I J : str -> option V) (f : list (list (rel V))),
     (forall n, match I n, J n with
                | Some v, Some v' => cmp v v' = Eq
                | None, None => True
                | _, _ => False
                end) ->
     satisfied_spec cmp I f = satisfied_spec cmp J f) /\
  (forall v v' w, cmp v v' <> Gt -> op_holds OpGe (cmp v w) = true -> op_holds OpGe (cmp v' w) = true) /\
  (forall v v' w, cmp v' v <> Gt -> op_holds OpLe (cmp v w) = true -> op_holds OpLe (cmp v' w) = true) /\
  (forall c, op_holds OpGe c = negb (op_holds OpLt c) /\ op_holds OpLe c = negb (op_holds OpGt c) /\
             op_holds OpEq c = op_holds OpLe c && op_holds OpGe c).
Proof. exact c12_order_consequences. Qed.
Check C12_order_consequences :
  forall (V : Type) (cmp : V -> V -> comparison), cmp_ok cmp ->
  (forall (I J : str -> option V) (f : list (list (rel V))),
     (forall n, match I n, J n with
                | Some v, Some v' => cmp v v' = Eq
                | None, None => True
                | _, _ => False
                end) ->
     satisfied_spec cmp I f = satisfied_spec cmp J f) /\
  (forall v v' w, cmp v v' <> Gt -> op_holds OpGe (cmp v w) = true -> op_holds OpGe (cmp v' w) = true) /\
  (forall v v' w, cmp v' v <> Gt -> op_holds OpLe (cmp v w) = true -> op_holds OpLe (cmp v' w) = true) /\
  (forall c, op_holds OpGe c = negb (op_holds OpLt c) /\ op_holds OpLe c = negb (op_holds OpGt c) /\
             op_holds OpEq c = op_holds OpLe c && op_holds OpGe c).
Print Assumptions C12_order_consequences.

(* ================================================================== (B) the Debian ordering *)
Theorem C12_version_order_total_preorder :
  cmp_ok vcmp /\
  (forall x, vcmp x x = Eq) /\
  (forall x y, vcmp y x = CompOpp (vcmp x y)) /\
  (forall x y z, vle x y = true -> vle y z = true -> vle x z = true) /\
  (forall x y, vle x y = true \/ vle y x = true) /\
  (forall x y, veq x y = true <-> vle x y = true /\ vle y x = true) /\
  (forall x y z, veq x y = true -> vcmp x z = vcmp y z /\ vcmp z x = vcmp z y).
Proof. split; [exact vcmp_ok|exact vcmp_total_preorder]. Qed.
Check C12_version_order_total_preorder :
  cmp_ok vcmp /\
  (forall x, vcmp x x = Eq) /\
  (forall x y, vcmp y x = CompOpp (vcmp x y)) /\
  (forall x y z, vle x y = true -> vle y z = true -> vle x z = true) /\
  (forall x y, vle x y = true \/ vle y x = true) /\
  (forall x y, veq x y = true <-> vle x y = true /\ vle y x = true) /\
  (forall x y z, veq x y = true -> vcmp x z = vcmp y z /\ vcmp z x = vcmp z y).
Print Assumptions C12_version_order_total_preorder.

(* Policy: "the absence of a debian_revision is equivalent to a debian_revision of 0" (what
   debversion does); dpkg compares an absent revision as the empty string.  Same ordering. *)
Theorem C12_absent_revision_conventions_agree :
  forall x y,
  let dpkg v := mk_version (epoch v) (upstream v) (Some (match revision v with Some r => r | None => [] end)) in
  vcmp (dpkg x) (dpkg y) = vcmp x y.
Proof. exact vcmp_absent_revision. Qed.
Check C12_absent_revision_conventions_agree :
  forall x y,
  let dpkg v := mk_version (epoch v) (upstream v) (Some (match revision v with Some r => r | None => [] end)) in
  vcmp (dpkg x) (dpkg y) = vcmp x y.
Print Assumptions C12_absent_revision_conventions_agree.

(* ================================================================== (C) debversion 0.4.4 *)
(* the crate's Ord/PartialEq return the reference answer when no digit run exceeds i32::MAX *)
Theorem C12_debversion_is_reference_when_safe :
  forall x y, ver_safe x = true -> ver_safe y = true ->
  ver_cmp x y = Ok (vcmp x y) /\ ver_eq x y = Ok (veq x y).
Proof. exact c12_debversion_safe. Qed.
Check C12_debversion_is_reference_when_safe :
  forall x y, ver_safe x = true -> ver_safe y = true ->
  ver_cmp x y = Ok (vcmp x y) /\ ver_eq x y = Ok (veq x y).
Print Assumptions C12_debversion_is_reference_when_safe.

(* printing a version that was read from text and reading it again gives the same version
   (epochs, ':' and '-' inside upstream, leading zeros in the epoch, ... all included) ... *)
Theorem C12_version_print_read :
  forall text v, parse_version text = Some v -> parse_version (show_version v) = Some v.
Proof. exact parse_show_version. Qed.
Check C12_version_print_read :
  forall text v, parse_version text = Some v -> parse_version (show_version v) = Some v.
Print Assumptions C12_version_print_read.

(* ... so C12_constructed and C12_set_version apply to every field whose versions were read from
   text: this is how versions with an epoch reach the lossless evaluator. *)
Theorem C12_debian_constructed :
  forall f : list (list (rel version)),
  Forall (Forall (fun r => match r_ver r with
                           | Some (_, v) => exists text, parse_version text = Some v
                           | None => True end)) f ->
  (exists t, deb_build_field f = Ok t /\ tree_field version parse_version t = Ok f) /\
  (exists t, deb_sv_field f = Ok t /\ tree_field version parse_version t = Ok f).
Proof. exact deb_constructed. Qed.
Check C12_debian_constructed :
  forall f : list (list (rel version)),
  Forall (Forall (fun r => match r_ver r with
                           | Some (_, v) => exists text, parse_version text = Some v
                           | None => True end)) f ->
  (exists t, deb_build_field f = Ok t /\ tree_field version parse_version t = Ok f) /\
  (exists t, deb_sv_field f = Ok t /\ tree_field version parse_version t = Ok f).
Print Assumptions C12_debian_constructed.

(* hence, for the code as linked: *)
Theorem C12_debian :
  forall (t : rtree) (f : list (list (rel version))) (pv : lookup version),
  tree_field version parse_version t = Ok f ->
  field_dom version (fun v => ver_safe v = true) f ->
  lookup_dom version (fun v => ver_safe v = true) pv ->
  deb_ll_sat t pv = Ok (deb_spec (lookup_version pv) f) /\
  deb_lossy_sat f pv = Ok (deb_spec (lookup_version pv) f).
Proof. exact deb_sat_spec. Qed.
Check C12_debian :
  forall (t : rtree) (f : list (list (rel version))) (pv : lookup version),
  tree_field version parse_version t = Ok f ->
  field_dom version (fun v => ver_safe v = true) f ->
  lookup_dom version (fun v => ver_safe v = true) pv ->
  deb_ll_sat t pv = Ok (deb_spec (lookup_version pv) f) /\
  deb_lossy_sat f pv = Ok (deb_spec (lookup_version pv) f).
Print Assumptions C12_debian.

(* SUMMARY — one field, one assignment of installed versions: the lossless evaluator (on the tree
   built by the constructors and on the tree built through set_version), the lossy evaluator, and
   the closure / map / pair lookup forms all return Ok of the same answer, the decision table
   under the Debian ordering.  This is what one record of the `sat` stream shows (lc, sv, yc, ym, yp). *)
Theorem C12_main :
  forall (f : list (list (rel version))) (asg : list (str * version)),
  Forall (Forall (fun r => match r_ver r with
                           | Some (_, v) => ver_safe v = true /\ exists text, parse_version text = Some v
                           | None => True end)) f ->
  Forall (fun kv => ver_safe (snd kv) = true) asg ->
  let installed := find_last asg in
  let answer := deb_spec installed f in
  exists t_new t_set,
    deb_build_field f = Ok t_new /\ deb_sv_field f = Ok t_set /\
    deb_ll_sat t_new (LFn installed) = Ok answer /\ deb_ll_sat t_new (LMap (hm_of_list asg)) = Ok answer /\
    deb_ll_sat t_set (LFn installed) = Ok answer /\ deb_ll_sat t_set (LMap (hm_of_list asg)) = Ok answer /\
    deb_lossy_sat f (LFn installed) = Ok answer /\ deb_lossy_sat f (LMap (hm_of_list asg)) = Ok answer /\
    (forall n v, asg = [(n, v)] ->
       deb_ll_sat t_new (LPair n v) = Ok answer /\ deb_ll_sat t_set (LPair n v) = Ok answer /\
       deb_lossy_sat f (LPair n v) = Ok answer).
Proof. exact deb_main. Qed.
Check C12_main :
  forall (f : list (list (rel version))) (asg : list (str * version)),
  Forall (Forall (fun r => match r_ver r with
                           | Some (_, v) => ver_safe v = true /\ exists text, parse_version text = Some v
                           | None => True end)) f ->
  Forall (fun kv => ver_safe (snd kv) = true) asg ->
  let installed := find_last asg in
  let answer := deb_spec installed f in
  exists t_new t_set,
    deb_build_field f = Ok t_new /\ deb_sv_field f = Ok t_set /\
    deb_ll_sat t_new (LFn installed) = Ok answer /\ deb_ll_sat t_new (LMap (hm_of_list asg)) = Ok answer /\
    deb_ll_sat t_set (LFn installed) = Ok answer /\ deb_ll_sat t_set (LMap (hm_of_list asg)) = Ok answer /\
    deb_lossy_sat f (LFn installed) = Ok answer /\ deb_lossy_sat f (LMap (hm_of_list asg)) = Ok answer /\
    (forall n v, asg = [(n, v)] ->
       deb_ll_sat t_new (LPair n v) = Ok answer /\ deb_ll_sat t_set (LPair n v) = Ok answer /\
       deb_lossy_sat f (LPair n v) = Ok answer).
Print Assumptions C12_main.

(* The statement without the digit-run guard, kept visible: it is FALSE for the linked crate. *)
Definition C12_full : Prop :=
  forall (t : rtree) (f : list (list (rel version))) (pv : lookup version),
  tree_field version parse_version t = Ok f ->
  deb_ll_sat t pv = Ok (deb_spec (lookup_version pv) f) /\
  deb_lossy_sat f pv = Ok (deb_spec (lookup_version pv) f).

(* finding c12-debversion-i32-digit-run: `a (>= 0~2024)` with a = 0~20240101123456 installed *)
Theorem C12_full_refuted : ~ C12_full.
Proof. exact c12_full_refuted. Qed.
Check C12_full_refuted : ~ C12_full.
Print Assumptions C12_full_refuted.

Theorem C12_i32_class_witness :
  let f := [[mk_rel (s2l "a") (Some (OpGe, mk_version None (s2l "0~2024") None))]] in
  let pv := LPair (s2l "a") big_version in
  ver_safe big_version = false /\
  parse_version (s2l "0~20240101123456") = Some big_version /\
  deb_lossy_sat f pv = Panic 2%N /\
  deb_spec (lookup_version pv) f = true.
Proof. exact deb_i32_witness. Qed.
Check C12_i32_class_witness :
  let f := [[mk_rel (s2l "a") (Some (OpGe, mk_version None (s2l "0~2024") None))]] in
  let pv := LPair (s2l "a") big_version in
  ver_safe big_version = false /\
  parse_version (s2l "0~20240101123456") = Some big_version /\
  deb_lossy_sat f pv = Panic 2%N /\
  deb_spec (lookup_version pv) f = true.
Print Assumptions C12_i32_class_witness.

(* finding c12-nonstandard-operator: the strict reader accepts `a (> 1)`; every alternative has
   a name and a readable version; Relation::version unwraps the operator and panics *)
Theorem C12_nonstandard_operator_class_witness :
  let s := s2l "a (> 1)" in
  exists t, relations_from_str s = Ok t /\
            Known_nonstandard_operator t /\
            names_present t /\ versions_readable version parse_version t /\
            deb_ll_sat t (LFn (fun _ => parse_version (s2l "2"))) = Panic 11%N.
Proof. exact deb_nonstandard_operator_witness. Qed.
Check C12_nonstandard_operator_class_witness :
  let s := s2l "a (> 1)" in
  exists t, relations_from_str s = Ok t /\
            Known_nonstandard_operator t /\
            names_present t /\ versions_readable version parse_version t /\
            deb_ll_sat t (LFn (fun _ => parse_version (s2l "2"))) = Panic 11%N.
Print Assumptions C12_nonstandard_operator_class_witness.

(* ================================================================== non-vacuity *)
Definition pv_of (l : list (string * string)) : option (list (str * version)) :=
  deb_type_assignment (map (fun kv => (s2l (fst kv), s2l (snd kv))) l).

(* a parsed field: three entries, alternatives, four operators, '~' and a revision; its typed
   view exists, is in the safe domain, and both evaluators answer true / false as they should *)
Example C12_ex_parsed :
  let s := s2l "libc6 (>= 2.4~rc1-1), python3 (<< 3.12) | pypy3 (= 7.3.11+dfsg-2), foo, bar (<= 1.0-1) | baz (>> 2)" in
  exists t f a1 a2,
    relations_from_str s = Ok t /\ tree_field version parse_version t = Ok f /\ List.length f = 4 /\
    Forall (Forall (rel_dom version (fun v => ver_safe v = true))) f /\
    pv_of [("libc6", "2.4-1"); ("pypy3", "7.3.11+dfsg-2"); ("foo", "0"); ("baz", "1:0.1")]%string = Some a1 /\
    pv_of [("libc6", "2.4~rc1-1"); ("python3", "3.12"); ("foo", "0"); ("baz", "2")]%string = Some a2 /\
    deb_ll_sat t (LMap (hm_of_list a1)) = Ok true /\ deb_lossy_sat f (LFn (find_last a1)) = Ok true /\
    deb_ll_sat t (LMap (hm_of_list a2)) = Ok false /\ deb_lossy_sat f (LFn (find_last a2)) = Ok false.
Proof.
  cbv zeta. eexists _, _, _, _.
  split; [vm_compute; reflexivity|]. split; [vm_compute; reflexivity|]. split; [reflexivity|].
  split; [repeat constructor|].
  split; [vm_compute; reflexivity|]. split; [vm_compute; reflexivity|].
  repeat split; vm_compute; reflexivity.
Qed.

(* the hypotheses of C12_main hold for a field with epochs, '~', revisions, all five operators *)
Example C12_ex_main_hypotheses :
  exists v1 v2 v3 v4 v5 a1 a2,
    parse_version (s2l "1:2.0~rc1-3") = Some v1 /\ parse_version (s2l "0.19.0+dfsg-2~bpo1") = Some v2 /\
    parse_version (s2l "2147483647") = Some v3 /\ parse_version (s2l "1.0-1") = Some v4 /\
    parse_version (s2l "0:1.00-01") = Some v5 /\
    parse_version (s2l "1:2.0-3") = Some a1 /\ parse_version (s2l "1.0-1+b1") = Some a2 /\
    let f := [[mk_rel (s2l "a") (Some (OpGe, v1)); mk_rel (s2l "b") (Some (OpLt, v2))];
              [mk_rel (s2l "c") (Some (OpLe, v3))]; [mk_rel (s2l "d") (Some (OpEq, v5)); mk_rel (s2l "e") None];
              [mk_rel (s2l "d") (Some (OpGt, v4))]] in
    let asg := [(s2l "a", a1); (s2l "c", v4); (s2l "d", v4); (s2l "d", a2)] in
    Forall (Forall (fun r => match r_ver r with
                             | Some (_, v) => ver_safe v = true /\ exists text, parse_version text = Some v
                             | None => True end)) f /\
    Forall (fun kv => ver_safe (snd kv) = true) asg /\
    deb_spec (find_last asg) f = false /\
    deb_spec (find_last (asg ++ [(s2l "e", v4)])) f = true.
Proof.
  eexists _, _, _, _, _, _, _.
  do 7 (split; [vm_compute; reflexivity|]). cbv zeta.
  split; [|split; [|split]].
  - repeat apply Forall_cons; try apply Forall_nil; cbn [r_ver]; try exact I;
      (split; [vm_compute; reflexivity|]).
    + exists (s2l "1:2.0~rc1-3"). vm_compute. reflexivity.
    + exists (s2l "0.19.0+dfsg-2~bpo1"). vm_compute. reflexivity.
    + exists (s2l "2147483647"). vm_compute. reflexivity.
    + exists (s2l "0:1.00-01"). vm_compute. reflexivity.
    + exists (s2l "1.0-1"). vm_compute. reflexivity.
  - repeat apply Forall_cons; try apply Forall_nil; vm_compute; reflexivity.
  - vm_compute. reflexivity.
  - vm_compute. reflexivity.
Qed.

(* epochs reach the lossless evaluator through the constructors; the versions survive
   print-then-read, so C12_constructed applies *)
Example C12_ex_constructed :
  exists w1 w2 v1 t,
    parse_version (s2l "1:2.0-3") = Some w1 /\ parse_version (s2l "0:1.0~~") = Some w2 /\
    parse_version (s2l "1:2.0-3+b1") = Some v1 /\
    let f := [[mk_rel (s2l "a") (Some (OpGe, w1)); mk_rel (s2l "b") None]; [mk_rel (s2l "c") (Some (OpLt, w2))]] in
    Forall (Forall (fun r => match r_ver r with Some (_, v) => parse_version (show_version v) = Some v | None => True end)) f /\
    build_field version show_version f = Ok t /\
    text t = s2l "a (>= 1:2.0-3) | b, c (<< 0:1.0~~)" /\
    deb_ll_sat t (LPair (s2l "a") v1) = Ok false /\
    deb_ll_sat t (LFn (fun n => if str_eqb n (s2l "c") then parse_version (s2l "1.0~~~") else Some v1)) = Ok true.
Proof.
  eexists _, _, _, _. split; [vm_compute; reflexivity|]. split; [vm_compute; reflexivity|].
  split; [vm_compute; reflexivity|]. cbv zeta.
  split; [repeat constructor|]. split; [vm_compute; reflexivity|].
  repeat split; vm_compute; reflexivity.
Qed.

(* set_version (fixed): both paths (insert after the name, replace an existing constraint) *)
Example C12_ex_set_version :
  exists one two t,
    parse_version (s2l "1") = Some one /\ parse_version (s2l "2~") = Some two /\
    deb_sv_field [[mk_rel (s2l "a") (Some (OpGt, one)); mk_rel (s2l "b") (Some (OpLt, two))]] = Ok t /\
    text t = s2l "a (>> 1) | b (<< 2~)" /\
    deb_ll_sat t (LPair (s2l "a") two) = Ok true /\ deb_ll_sat t (LPair (s2l "b") two) = Ok false.
Proof.
  eexists _, _, _. split; [vm_compute; reflexivity|]. split; [vm_compute; reflexivity|].
  split; [vm_compute; reflexivity|]. repeat split; vm_compute; reflexivity.
Qed.

(* short-circuit order matters: the panicking alternative is not reached when an earlier one
   already satisfies the entry *)
Example C12_ex_short_circuit :
  exists t one,
    relations_from_str (s2l "b | a (> 1)") = Ok t /\ parse_version (s2l "1") = Some one /\
    deb_ll_sat t (LPair (s2l "b") one) = Ok true /\
    deb_ll_sat t (LPair (s2l "a") one) = Panic 11%N.
Proof.
  eexists _, _. split; [vm_compute; reflexivity|]. split; [vm_compute; reflexivity|].
  split; vm_compute; reflexivity.
Qed.

(* the ordering on the textbook cases *)
Example C12_ex_ordering :
  let c a b := match parse_version (s2l a), parse_version (s2l b) with
               | Some x, Some y => Some (vcmp x y, ver_cmp x y)
               | _, _ => None
               end in
  c "1.0~rc1" "1.0" = Some (Lt, Ok Lt) /\ c "1:0.9" "2.0" = Some (Gt, Ok Gt) /\
  c "1.0" "1.0-0" = Some (Eq, Ok Eq) /\ c "1.02" "1.2" = Some (Eq, Ok Eq) /\
  c "1.0a" "1.0+" = Some (Lt, Ok Lt) /\ c "1.0-1" "1.0-1~" = Some (Gt, Ok Gt) /\
  c "a" "1" = Some (Gt, Ok Gt) /\ c "~~" "~" = Some (Lt, Ok Lt) /\
  c "1.2147483648" "1.0" = Some (Gt, Panic 2%N).
Proof. vm_compute. repeat split; reflexivity. Qed.
