(* C12 — dependency satisfaction is decided per Debian semantics.
   Statements only; proofs in proofs/SatP.v, proofs/SatTextP.v and proofs/DebVersionP.v.

   Quantifier: every field (a list of entries, each a list of alternatives; no bound on either;
   all five operators), every lookup value of each of the three forms, every version type V
   with a comparison that is total on a stated domain.  [field] below is the typed view the two
   evaluators look at: (name, optional (operator, version)) per alternative.

   Which lookup form can be passed where (Sat.v says it in its types): the field/entry-level
   evaluators — lossy::Relations::satisfied_by, lossless Relations::satisfied_by and
   Entry::satisfied_by — take `impl VersionLookup + Copy`, which of the three implementations only
   a closure is; they are functions of [g : str -> option V] here.  HashMap<String, Version> and
   (String, Version) can only be given to lossy::Relation::satisfied_by, one alternative at a
   time; [by_relation] is the all/any nesting a caller writes around it.

   Layers:
   (A) for any version type: both evaluators = the Policy decision table; they agree; only the
       induced lookup function matters; trees built by the constructors / set_version (the
       definitions of the C11 cone, code as of /repo 5517d72) have the field as typed view;
   (A') the parsed path, from the C10 cone: every text read without error has as typed view what
       the accessors report (for the well-formed fields: the field as written), or its tree is in
       one of the two finding classes;
   (B) the Debian ordering (DebVersion.vcmp, the dpkg algorithm) is a total preorder;
   (C) debversion 0.4.4 (the crate the code links) equals (B) when no digit run exceeds
       i32::MAX, so (A) applies to it on that domain; beyond it the crate panics
       (finding c12-debversion-i32-digit-run, witness below). *)
From V.model Require Import Base RelLex RelParse DebVersion Sat.
From V.model Require RelAcc RelGrammar.
From V.proofs Require Import DebVersionP SatP SatTextP.
From Coq Require Import String.
Local Open Scope string_scope.

(* ================================================================== (A) any version type *)

(* Both evaluators return Ok of the decision table:  every entry has an alternative whose
   package is installed and, if versioned, whose installed version stands in the stated
   relation to the required one. *)
Theorem C12_spec :
  forall (V : Type) (vcmp : V -> V -> res comparison) (vparse : str -> option V)
         (cmp : V -> V -> comparison) (Vok : V -> Prop),
  (forall a b, Vok a -> Vok b -> vcmp a b = Ok (cmp a b)) ->
  forall (t : rtree) (f : list (list (rel V))) (g : str -> option V),
  tree_field V vparse t = Ok f -> field_dom V Vok f -> (forall n v, g n = Some v -> Vok v) ->
  ll_relations_satisfied_by V vcmp vparse t g = Ok (satisfied_spec cmp g f) /\
  lossy_relations_satisfied_by V vcmp f g = Ok (satisfied_spec cmp g f).
Proof. exact c12_spec. Qed.
Check C12_spec :
  forall (V : Type) (vcmp : V -> V -> res comparison) (vparse : str -> option V)
         (cmp : V -> V -> comparison) (Vok : V -> Prop),
  (forall a b, Vok a -> Vok b -> vcmp a b = Ok (cmp a b)) ->
  forall (t : rtree) (f : list (list (rel V))) (g : str -> option V),
  tree_field V vparse t = Ok f -> field_dom V Vok f -> (forall n v, g n = Some v -> Vok v) ->
  ll_relations_satisfied_by V vcmp vparse t g = Ok (satisfied_spec cmp g f) /\
  lossy_relations_satisfied_by V vcmp f g = Ok (satisfied_spec cmp g f).
Print Assumptions C12_spec.

(* the decision table, in the words of the property: << is Lt, <= is Lt or Eq, = is Eq,
   >= is Gt or Eq, >> is Gt *)
Theorem C12_table_in_words :
  forall (V : Type) (cmp : V -> V -> comparison) (installed : str -> option V) (f : list (list (rel V))),
  satisfied_spec cmp installed f = true <->
  Forall (Exists (fun r => exists v, installed (r_name r) = Some v /\
                           match r_ver r with
                           | None => True
                           | Some (OpLt, w) => cmp v w = Lt
                           | Some (OpLe, w) => cmp v w = Lt \/ cmp v w = Eq
                           | Some (OpEq, w) => cmp v w = Eq
                           | Some (OpGe, w) => cmp v w = Gt \/ cmp v w = Eq
                           | Some (OpGt, w) => cmp v w = Gt
                           end)) f.
Proof. exact c12_table_in_words. Qed.
Check C12_table_in_words :
  forall (V : Type) (cmp : V -> V -> comparison) (installed : str -> option V) (f : list (list (rel V))),
  satisfied_spec cmp installed f = true <->
  Forall (Exists (fun r => exists v, installed (r_name r) = Some v /\
                           match r_ver r with
                           | None => True
                           | Some (OpLt, w) => cmp v w = Lt
                           | Some (OpLe, w) => cmp v w = Lt \/ cmp v w = Eq
                           | Some (OpEq, w) => cmp v w = Eq
                           | Some (OpGe, w) => cmp v w = Gt \/ cmp v w = Eq
                           | Some (OpGt, w) => cmp v w = Gt
                           end)) f.
Print Assumptions C12_table_in_words.

(* The lossless and the lossy evaluator return the same outcome — also when the comparison
   panics: same calls in the same order.  No hypothesis on the comparison. *)
Theorem C12_agree :
  forall (V : Type) (vcmp : V -> V -> res comparison) (vparse : str -> option V)
         (t : rtree) (f : list (list (rel V))) (g : str -> option V),
  tree_field V vparse t = Ok f ->
  ll_relations_satisfied_by V vcmp vparse t g = lossy_relations_satisfied_by V vcmp f g.
Proof. exact ll_agree_lossy. Qed.
Check C12_agree :
  forall (V : Type) (vcmp : V -> V -> res comparison) (vparse : str -> option V)
         (t : rtree) (f : list (list (rel V))) (g : str -> option V),
  tree_field V vparse t = Ok f ->
  ll_relations_satisfied_by V vcmp vparse t g = lossy_relations_satisfied_by V vcmp f g.
Print Assumptions C12_agree.

(* Lookup forms.  The three field/entry-level evaluators take a closure and depend on it
   pointwise.  lossy::Relation::satisfied_by takes any of the three forms and sees it only
   through the function it induces; so does the nesting a caller writes around it, which equals
   the crate's evaluator on the induced closure.  A map filled by inserts induces "last binding
   wins", a pair the one-point function, a closure itself. *)
Theorem C12_lookup :
  forall (V : Type) (vcmp : V -> V -> res comparison) (vparse : str -> option V),
  (forall (t : rtree) (f : list (list (rel V))) (g h : str -> option V),
     (forall n, g n = h n) ->
     ll_relations_satisfied_by V vcmp vparse t g = ll_relations_satisfied_by V vcmp vparse t h /\
     lossy_relations_satisfied_by V vcmp f g = lossy_relations_satisfied_by V vcmp f h) /\
  (forall (r : rel V) (pv : lookup V),
     lossy_relation_satisfied_by V vcmp r pv = lossy_relation_satisfied_by V vcmp r (LFn (lookup_version pv))) /\
  (forall (f : list (list (rel V))) (pv : lookup V),
     by_relation V vcmp f pv = lossy_relations_satisfied_by V vcmp f (lookup_version pv)) /\
  (forall (l : list (str * V)) n, lookup_version (LMap (hm_of_list l)) n = find_last l n) /\
  (forall (m : list (str * V)) n, lookup_version (LMap m) n = hm_get m n) /\
  (forall (g : str -> option V) n, lookup_version (LFn g) n = g n) /\
  (forall (k : str) (v : V) n,
     lookup_version (LPair k v) n = (if str_eqb n k then Some v else None) /\
     lookup_version (LPair k v) n = lookup_version (LMap (hm_of_list [(k, v)])) n).
Proof. exact c12_lookup. Qed.
Check C12_lookup :
  forall (V : Type) (vcmp : V -> V -> res comparison) (vparse : str -> option V),
  (forall (t : rtree) (f : list (list (rel V))) (g h : str -> option V),
     (forall n, g n = h n) ->
     ll_relations_satisfied_by V vcmp vparse t g = ll_relations_satisfied_by V vcmp vparse t h /\
     lossy_relations_satisfied_by V vcmp f g = lossy_relations_satisfied_by V vcmp f h) /\
  (forall (r : rel V) (pv : lookup V),
     lossy_relation_satisfied_by V vcmp r pv = lossy_relation_satisfied_by V vcmp r (LFn (lookup_version pv))) /\
  (forall (f : list (list (rel V))) (pv : lookup V),
     by_relation V vcmp f pv = lossy_relations_satisfied_by V vcmp f (lookup_version pv)) /\
  (forall (l : list (str * V)) n, lookup_version (LMap (hm_of_list l)) n = find_last l n) /\
  (forall (m : list (str * V)) n, lookup_version (LMap m) n = hm_get m n) /\
  (forall (g : str -> option V) n, lookup_version (LFn g) n = g n) /\
  (forall (k : str) (v : V) n,
     lookup_version (LPair k v) n = (if str_eqb n k then Some v else None) /\
     lookup_version (LPair k v) n = lookup_version (LMap (hm_of_list [(k, v)])) n).
Print Assumptions C12_lookup.

(* Trees built by Relation::new / Entry::from / Relations::from (RelEdit.relation_new,
   entry_from_relations fixed — "|" under kind PIPE —, relations_from_entries) have the field they
   were built from as their typed view (so C12_spec and C12_agree apply to them), provided the
   versions survive print-then-read. *)
Theorem C12_constructed :
  forall (V : Type) (vparse : str -> option V) (vshow : V -> str),
  vparse [] = None ->                     (* the empty text is no version *)
  forall (f : list (list (rel V))),
  Forall (Forall (fun r => match r_ver r with Some (_, v) => vparse (vshow v) = Some v | None => True end)) f ->
  tree_field V vparse (build_field V vshow f) = Ok f.
Proof. exact build_field_view. Qed.
Check C12_constructed :
  forall (V : Type) (vparse : str -> option V) (vshow : V -> str),
  vparse [] = None ->                     (* the empty text is no version *)
  forall (f : list (list (rel V))),
  Forall (Forall (fun r => match r_ver r with Some (_, v) => vparse (vshow v) = Some v | None => True end)) f ->
  tree_field V vparse (build_field V vshow f) = Ok f.
Print Assumptions C12_constructed.

(* Relation::set_version(Some((vc, v))) (RelEditTree.set_version_cs: replace the VERSION child, or
   insert after the architecture qualifier / the name) on ANY relation node that has a name: the
   name is unchanged and version() reads (vc, v) back.  Hence the fields the harness builds through
   set_version — from Relation::simple, from Relation::new(.., (=, v)), after set_archqual, and
   from a parsed "name:any [amd64] <!nocheck>" — have the intended typed view ([parsed_start_ok]:
   the reader returns a RELATION node with that name; C12_debian_constructed discharges it). *)
Theorem C12_set_version :
  forall (V : Type) (vparse : str -> option V) (vshow : V -> str),
  vparse [] = None ->
  (forall (r : rtree) n vc v,
     is_node r = true -> first_ident r = Some n -> vparse (vshow v) = Some v ->
     tree_rel V vparse (set_version_some V vshow r vc v) = Ok (mk_rel n (Some (vc, v)))) /\
  (forall f : list (list (rel V)),
     Forall (Forall (fun r => match r_ver r with Some (_, v) => vparse (vshow v) = Some v | None => True end)) f ->
     Forall (Forall (fun r => parsed_start_ok (r_name r))) f ->
     exists t, sv_field V vshow f = Ok t /\ tree_field V vparse t = Ok f).
Proof. 
  intros V vparse vshow He. split.
  - intros r n vc v H1 H2 H3. exact (proj1 (set_version_view V vparse vshow He r n vc v H1 H2 H3)).
  - exact (sv_field_view V vparse vshow He).
 Qed.
Check C12_set_version :
  forall (V : Type) (vparse : str -> option V) (vshow : V -> str),
  vparse [] = None ->
  (forall (r : rtree) n vc v,
     is_node r = true -> first_ident r = Some n -> vparse (vshow v) = Some v ->
     tree_rel V vparse (set_version_some V vshow r vc v) = Ok (mk_rel n (Some (vc, v)))) /\
  (forall f : list (list (rel V)),
     Forall (Forall (fun r => match r_ver r with Some (_, v) => vparse (vshow v) = Some v | None => True end)) f ->
     Forall (Forall (fun r => parsed_start_ok (r_name r))) f ->
     exists t, sv_field V vshow f = Ok t /\ tree_field V vparse t = Ok f).
Print Assumptions C12_set_version.

(* Any tree: outside the two finding classes (an operator that is none of the five; a version text
   the version reader rejects) every tree whose alternatives have a name has a typed view. *)
Theorem C12_tree_view_outside_known_classes :
  forall (V : Type) (vparse : str -> option V) (t : rtree),
  names_present t -> ~ Known_nonstandard_operator t -> ~ Known_unreadable_version V vparse t ->
  exists f, tree_field V vparse t = Ok f.
Proof. exact tree_field_total. Qed.
Check C12_tree_view_outside_known_classes :
  forall (V : Type) (vparse : str -> option V) (t : rtree),
  names_present t -> ~ Known_nonstandard_operator t -> ~ Known_unreadable_version V vparse t ->
  exists f, tree_field V vparse t = Ok f.
Print Assumptions C12_tree_view_outside_known_classes.

(* What "a total preorder" buys: versions the ordering identifies (1.0 and 1.00, 1.0 and 1.0-0)
   are interchangeable as installed versions; lower bounds survive upgrades, upper bounds
   survive downgrades. *)
Theorem C12_order_consequences :
  forall (V : Type) (cmp : V -> V -> comparison), cmp_ok cmp ->
  (forall (I J : str -> option V) (f : list (list (rel V))),
     (forall n, match I n, J n with
                | Some v, Some v' => cmp v v' = Eq
                | None, None => True
                | _, _ => False
                end) ->
     satisfied_spec cmp I f = satisfied_spec cmp J f) /\
  (forall v v' w, cmp v v' <> Gt -> op_holds OpGe (cmp v w) = true -> op_holds OpGe (cmp v' w) = true) /\
  (forall v v' w, cmp v' v <> Gt -> op_holds OpLe (cmp v w) = true -> op_holds OpLe (cmp v' w) = true) /\
  (forall c, op_holds OpGe c = negb (op_holds OpLt c) /\ op_holds OpLe c = negb (op_holds OpGt c) /\
             op_holds OpEq c = op_holds OpLe c && op_holds OpGe c).
Proof. exact c12_order_consequences. Qed.
Check C12_order_consequences :
  forall (V : Type) (cmp : V -> V -> comparison), cmp_ok cmp ->
  (forall (I J : str -> option V) (f : list (list (rel V))),
     (forall n, match I n, J n with
                | Some v, Some v' => cmp v v' = Eq
                | None, None => True
                | _, _ => False
                end) ->
     satisfied_spec cmp I f = satisfied_spec cmp J f) /\
  (forall v v' w, cmp v v' <> Gt -> op_holds OpGe (cmp v w) = true -> op_holds OpGe (cmp v' w) = true) /\
  (forall v v' w, cmp v' v <> Gt -> op_holds OpLe (cmp v w) = true -> op_holds OpLe (cmp v' w) = true) /\
  (forall c, op_holds OpGe c = negb (op_holds OpLt c) /\ op_holds OpLe c = negb (op_holds OpGt c) /\
             op_holds OpEq c = op_holds OpLe c && op_holds OpGe c).
Print Assumptions C12_order_consequences.

(* ================================================================== (A') the parsed path *)
(* On ANY tree, C10's accessor model (RelAcc.racc: versions as Display prints them) and this cone's
   typed view (versions as values) succeed together, with the same names and operators and with
   the version read from the printed text; and they panic together, at the same site. *)
Theorem C12_accessors_typed_view :
  forall t : rtree,
  match RelAcc.racc t with
  | Ok a => tree_field version parse_version t = Ok (typed_content (fst a))
  | Panic p => tree_field version parse_version t = Panic p
  | Err _ => False
  | OutOfFuel => False
  end.
Proof. exact racc_tree_field. Qed.
Check C12_accessors_typed_view :
  forall t : rtree,
  match RelAcc.racc t with
  | Ok a => tree_field version parse_version t = Ok (typed_content (fst a))
  | Panic p => tree_field version parse_version t = Panic p
  | Err _ => False
  | OutOfFuel => False
  end.
Print Assumptions C12_accessors_typed_view.

(* EVERY text the reader accepts without error (C10_image: exactly the renderings of the liberal
   layouts), both settings of allow_substvar: the typed view exists and is what the accessors
   report, or the tree is in one of the two finding classes.  No hypothesis about the tree. *)
Theorem C12_parsed_text :
  forall (s : str) (allow : bool) (t : rtree), parse_relaxed s allow = Ok (t, 0) ->
  (exists a, RelAcc.racc t = Ok a /\ tree_field version parse_version t = Ok (typed_content (fst a))) \/
  (RelAcc.racc t = Panic 11%N /\ Known_nonstandard_operator t) \/
  (RelAcc.racc t = Panic 12%N /\ Known_unreadable_version version parse_version t).
Proof. exact parsed_text_view. Qed.
Check C12_parsed_text :
  forall (s : str) (allow : bool) (t : rtree), parse_relaxed s allow = Ok (t, 0) ->
  (exists a, RelAcc.racc t = Ok a /\ tree_field version parse_version t = Ok (typed_content (fst a))) \/
  (RelAcc.racc t = Panic 11%N /\ Known_nonstandard_operator t) \/
  (RelAcc.racc t = Panic 12%N /\ Known_unreadable_version version parse_version t).
Print Assumptions C12_parsed_text.

(* The well-formed fields of C10 (Policy 7.1 grammar, any white space, epochs, qualifiers,
   architecture lists, profiles): read without error, and the typed view is the field AS WRITTEN —
   names, operators, and the versions debversion reads from the written version texts. *)
Theorem C12_parsed_wellformed :
  forall (allow : bool) (f : RelGrammar.rfield), RelGrammar.wf_rfield allow f = true ->
  parse_relaxed (RelGrammar.rrender f) allow = Ok (RelGrammar.rtree_of f, 0) /\
  (allow = false -> relations_from_str (RelGrammar.rrender f) = Ok (RelGrammar.rtree_of f)) /\
  tree_field version parse_version (RelGrammar.rtree_of f) =
    Ok (map (map (fun x => mk_rel (RelGrammar.x_name x)
                             (match RelGrammar.x_ver x with
                              | Some (o, s) => option_map (fun v => (sat_op o, v)) (parse_version s)
                              | None => None
                              end)))
            (fst (RelGrammar.rcontent f))).
Proof. exact wellformed_view. Qed.
Check C12_parsed_wellformed :
  forall (allow : bool) (f : RelGrammar.rfield), RelGrammar.wf_rfield allow f = true ->
  parse_relaxed (RelGrammar.rrender f) allow = Ok (RelGrammar.rtree_of f, 0) /\
  (allow = false -> relations_from_str (RelGrammar.rrender f) = Ok (RelGrammar.rtree_of f)) /\
  tree_field version parse_version (RelGrammar.rtree_of f) =
    Ok (map (map (fun x => mk_rel (RelGrammar.x_name x)
                             (match RelGrammar.x_ver x with
                              | Some (o, s) => option_map (fun v => (sat_op o, v)) (parse_version s)
                              | None => None
                              end)))
            (fst (RelGrammar.rcontent f))).
Print Assumptions C12_parsed_wellformed.

(* ================================================================== (B) the Debian ordering *)
Theorem C12_version_order_total_preorder :
  cmp_ok vcmp /\
  (forall x, vcmp x x = Eq) /\
  (forall x y, vcmp y x = CompOpp (vcmp x y)) /\
  (forall x y z, vle x y = true -> vle y z = true -> vle x z = true) /\
  (forall x y, vle x y = true \/ vle y x = true) /\
  (forall x y, veq x y = true <-> vle x y = true /\ vle y x = true) /\
  (forall x y z, veq x y = true -> vcmp x z = vcmp y z /\ vcmp z x = vcmp z y).
Proof. split; [exact vcmp_ok|exact vcmp_total_preorder]. Qed.
Check C12_version_order_total_preorder :
  cmp_ok vcmp /\
  (forall x, vcmp x x = Eq) /\
  (forall x y, vcmp y x = CompOpp (vcmp x y)) /\
  (forall x y z, vle x y = true -> vle y z = true -> vle x z = true) /\
  (forall x y, vle x y = true \/ vle y x = true) /\
  (forall x y, veq x y = true <-> vle x y = true /\ vle y x = true) /\
  (forall x y z, veq x y = true -> vcmp x z = vcmp y z /\ vcmp z x = vcmp z y).
Print Assumptions C12_version_order_total_preorder.

(* Policy: "the absence of a debian_revision is equivalent to a debian_revision of 0" (what
   debversion does); dpkg compares an absent revision as the empty string.  Same ordering. *)
Theorem C12_absent_revision_conventions_agree :
  forall x y,
  let dpkg v := mk_version (epoch v) (upstream v) (Some (match revision v with Some r => r | None => [] end)) in
  vcmp (dpkg x) (dpkg y) = vcmp x y.
Proof. exact vcmp_absent_revision. Qed.
Check C12_absent_revision_conventions_agree :
  forall x y,
  let dpkg v := mk_version (epoch v) (upstream v) (Some (match revision v with Some r => r | None => [] end)) in
  vcmp (dpkg x) (dpkg y) = vcmp x y.
Print Assumptions C12_absent_revision_conventions_agree.

(* ================================================================== (C) debversion 0.4.4 *)
(* the crate's Ord/PartialEq return the reference answer when no digit run exceeds i32::MAX *)
Theorem C12_debversion_is_reference_when_safe :
  forall x y, ver_safe x = true -> ver_safe y = true ->
  ver_cmp x y = Ok (vcmp x y) /\ ver_eq x y = Ok (veq x y).
Proof. exact c12_debversion_safe. Qed.
Check C12_debversion_is_reference_when_safe :
  forall x y, ver_safe x = true -> ver_safe y = true ->
  ver_cmp x y = Ok (vcmp x y) /\ ver_eq x y = Ok (veq x y).
Print Assumptions C12_debversion_is_reference_when_safe.

(* printing a version that was read from text and reading it again gives the same version
   (epochs, ':' and '-' inside upstream, leading zeros in the epoch, ... all included) ... *)
Theorem C12_version_print_read :
  forall text v, parse_version text = Some v -> parse_version (show_version v) = Some v.
Proof. exact parse_show_version. Qed.
Check C12_version_print_read :
  forall text v, parse_version text = Some v -> parse_version (show_version v) = Some v.
Print Assumptions C12_version_print_read.

(* ... so C12_constructed and C12_set_version apply to every field whose versions were read from
   text (this is also how versions reach the lossless evaluator without going through the
   reader), the package names being any non-empty [A-Za-z0-9.+~-]+ for the parsed start. *)
Theorem C12_debian_constructed :
  forall f : list (list (rel version)),
  Forall (Forall (fun r => match r_ver r with
                           | Some (_, v) => exists text, parse_version text = Some v
                           | None => True end)) f ->
  tree_field version parse_version (deb_build_field f) = Ok f /\
  (Forall (Forall (fun r => RelGrammar.ident_ok (r_name r) = true)) f ->
   exists t, deb_sv_field f = Ok t /\ tree_field version parse_version t = Ok f).
Proof. 
  intros f H. destruct (deb_constructed f H) as [H1 H2]. split; [exact H1|].
  intros Hn. apply H2. apply names_start_ok. exact Hn.
 Qed.
Check C12_debian_constructed :
  forall f : list (list (rel version)),
  Forall (Forall (fun r => match r_ver r with
                           | Some (_, v) => exists text, parse_version text = Some v
                           | None => True end)) f ->
  tree_field version parse_version (deb_build_field f) = Ok f /\
  (Forall (Forall (fun r => RelGrammar.ident_ok (r_name r) = true)) f ->
   exists t, deb_sv_field f = Ok t /\ tree_field version parse_version t = Ok f).
Print Assumptions C12_debian_constructed.

(* hence, for the code as linked: *)
Theorem C12_debian :
  forall (t : rtree) (f : list (list (rel version))) (g : str -> option version),
  tree_field version parse_version t = Ok f ->
  field_dom version (fun v => ver_safe v = true) f ->
  (forall n v, g n = Some v -> ver_safe v = true) ->
  deb_ll_sat t g = Ok (deb_spec g f) /\
  deb_lossy_sat f g = Ok (deb_spec g f).
Proof. exact deb_sat_spec. Qed.
Check C12_debian :
  forall (t : rtree) (f : list (list (rel version))) (g : str -> option version),
  tree_field version parse_version t = Ok f ->
  field_dom version (fun v => ver_safe v = true) f ->
  (forall n v, g n = Some v -> ver_safe v = true) ->
  deb_ll_sat t g = Ok (deb_spec g f) /\
  deb_lossy_sat f g = Ok (deb_spec g f).
Print Assumptions C12_debian.

(* ... and for every text the reader accepts without error, outside the two finding classes: the
   evaluators answer (no panic) with the decision table of what the accessors report *)
Theorem C12_parsed_text_debian :
  forall (s : str) (allow : bool) (t : rtree), parse_relaxed s allow = Ok (t, 0) ->
  ~ Known_nonstandard_operator t -> ~ Known_unreadable_version version parse_version t ->
  exists a F, RelAcc.racc t = Ok a /\ F = typed_content (fst a) /\
    tree_field version parse_version t = Ok F /\
    forall g, field_dom version (fun v => ver_safe v = true) F -> (forall n v, g n = Some v -> ver_safe v = true) ->
      deb_ll_sat t g = Ok (deb_spec g F) /\ deb_lossy_sat F g = Ok (deb_spec g F).
Proof. exact parsed_text_sat. Qed.
Check C12_parsed_text_debian :
  forall (s : str) (allow : bool) (t : rtree), parse_relaxed s allow = Ok (t, 0) ->
  ~ Known_nonstandard_operator t -> ~ Known_unreadable_version version parse_version t ->
  exists a F, RelAcc.racc t = Ok a /\ F = typed_content (fst a) /\
    tree_field version parse_version t = Ok F /\
    forall g, field_dom version (fun v => ver_safe v = true) F -> (forall n v, g n = Some v -> ver_safe v = true) ->
      deb_ll_sat t g = Ok (deb_spec g F) /\ deb_lossy_sat F g = Ok (deb_spec g F).
Print Assumptions C12_parsed_text_debian.

(* SUMMARY — one field, one assignment of installed versions.  With the closure "last binding
   wins": the lossless evaluator on the tree built by the constructors and on the tree built through
   set_version, and the lossy evaluator, return Ok of the decision table under the Debian ordering.
   With the map and with the pair (which only lossy::Relation::satisfied_by accepts): the same
   answer through the alternative-by-alternative nesting.  This is what one record of the `sat`
   stream shows (lc, sv, yc, ym, yp). *)
Theorem C12_main :
  forall (f : list (list (rel version))) (asg : list (str * version)),
  Forall (Forall (fun r => match r_ver r with
                           | Some (_, v) => ver_safe v = true /\ exists text, parse_version text = Some v
                           | None => True end)) f ->
  Forall (fun kv => ver_safe (snd kv) = true) asg ->
  Forall (Forall (fun r => RelGrammar.ident_ok (r_name r) = true)) f ->
  let installed := find_last asg in
  let answer := deb_spec installed f in
  exists t_set,
    deb_sv_field f = Ok t_set /\
    deb_ll_sat (deb_build_field f) installed = Ok answer /\
    deb_ll_sat t_set installed = Ok answer /\
    deb_lossy_sat f installed = Ok answer /\
    deb_by_relation f (LFn installed) = Ok answer /\
    deb_by_relation f (LMap (hm_of_list asg)) = Ok answer /\
    (forall n v, asg = [(n, v)] -> deb_by_relation f (LPair n v) = Ok answer).
Proof. exact deb_main_names. Qed.
Check C12_main :
  forall (f : list (list (rel version))) (asg : list (str * version)),
  Forall (Forall (fun r => match r_ver r with
                           | Some (_, v) => ver_safe v = true /\ exists text, parse_version text = Some v
                           | None => True end)) f ->
  Forall (fun kv => ver_safe (snd kv) = true) asg ->
  Forall (Forall (fun r => RelGrammar.ident_ok (r_name r) = true)) f ->
  let installed := find_last asg in
  let answer := deb_spec installed f in
  exists t_set,
    deb_sv_field f = Ok t_set /\
    deb_ll_sat (deb_build_field f) installed = Ok answer /\
    deb_ll_sat t_set installed = Ok answer /\
    deb_lossy_sat f installed = Ok answer /\
    deb_by_relation f (LFn installed) = Ok answer /\
    deb_by_relation f (LMap (hm_of_list asg)) = Ok answer /\
    (forall n v, asg = [(n, v)] -> deb_by_relation f (LPair n v) = Ok answer).
Print Assumptions C12_main.

(* The statement without the digit-run guard, kept visible: it is FALSE for the linked crate. *)
Definition C12_full : Prop :=
  forall (t : rtree) (f : list (list (rel version))) (g : str -> option version),
  tree_field version parse_version t = Ok f ->
  deb_ll_sat t g = Ok (deb_spec g f) /\
  deb_lossy_sat f g = Ok (deb_spec g f).

(* finding c12-debversion-i32-digit-run: `a (>= 0~2024)` with a = 0~20240101123456 installed *)
Theorem C12_full_refuted : ~ C12_full.
Proof. exact c12_full_refuted. Qed.
Check C12_full_refuted : ~ C12_full.
Print Assumptions C12_full_refuted.

Theorem C12_i32_class_witness :
  let f := [[mk_rel (s2l "a") (Some (OpGe, mk_version None (s2l "0~2024") None))]] in
  let g := fun n => if str_eqb n (s2l "a") then Some big_version else None in
  ver_safe big_version = false /\
  parse_version (s2l "0~20240101123456") = Some big_version /\
  deb_lossy_sat f g = Panic 2%N /\
  deb_by_relation f (LPair (s2l "a") big_version) = Panic 2%N /\
  deb_spec g f = true.
Proof. exact deb_i32_witness. Qed.
Check C12_i32_class_witness :
  let f := [[mk_rel (s2l "a") (Some (OpGe, mk_version None (s2l "0~2024") None))]] in
  let g := fun n => if str_eqb n (s2l "a") then Some big_version else None in
  ver_safe big_version = false /\
  parse_version (s2l "0~20240101123456") = Some big_version /\
  deb_lossy_sat f g = Panic 2%N /\
  deb_by_relation f (LPair (s2l "a") big_version) = Panic 2%N /\
  deb_spec g f = true.
Print Assumptions C12_i32_class_witness.

(* finding c12-nonstandard-operator: the strict reader accepts `a (> 1)`; every alternative has
   a name and a readable version; Relation::version unwraps the operator and panics *)
Theorem C12_nonstandard_operator_class_witness :
  let s := s2l "a (> 1)" in
  exists t, relations_from_str s = Ok t /\
            Known_nonstandard_operator t /\
            names_present t /\ ~ Known_unreadable_version version parse_version t /\
            deb_ll_sat t (fun _ => parse_version (s2l "2")) = Panic 11%N.
Proof. exact deb_nonstandard_operator_witness. Qed.
Check C12_nonstandard_operator_class_witness :
  let s := s2l "a (> 1)" in
  exists t, relations_from_str s = Ok t /\
            Known_nonstandard_operator t /\
            names_present t /\ ~ Known_unreadable_version version parse_version t /\
            deb_ll_sat t (fun _ => parse_version (s2l "2")) = Panic 11%N.
Print Assumptions C12_nonstandard_operator_class_witness.

(* finding c12-unreadable-version-epoch: since /repo 0eb8794 the strict reader accepts any run of
   IDENT and ":" tokens as a version, `a (>= 4294967296:1)` included; debversion's FromStr rejects
   an epoch above u32::MAX (4294967295:1 is fine) and Relation::version() unwraps that error *)
Theorem C12_unreadable_version_class_witness :
  let s := s2l "a (>= 4294967296:1)" in
  exists t, relations_from_str s = Ok t /\
            Known_unreadable_version version parse_version t /\
            names_present t /\ ~ Known_nonstandard_operator t /\
            deb_ll_sat t (fun _ => parse_version (s2l "2")) = Panic 12%N /\
            parse_version (s2l "4294967296:1") = None /\ parse_version (s2l "4294967295:1") <> None.
Proof. exact deb_unreadable_version_witness. Qed.
Check C12_unreadable_version_class_witness :
  let s := s2l "a (>= 4294967296:1)" in
  exists t, relations_from_str s = Ok t /\
            Known_unreadable_version version parse_version t /\
            names_present t /\ ~ Known_nonstandard_operator t /\
            deb_ll_sat t (fun _ => parse_version (s2l "2")) = Panic 12%N /\
            parse_version (s2l "4294967296:1") = None /\ parse_version (s2l "4294967295:1") <> None.
Print Assumptions C12_unreadable_version_class_witness.

(* ================================================================== non-vacuity *)
Definition pv_of (l : list (string * string)) : option (list (str * version)) :=
  deb_type_assignment (map (fun kv => (s2l (fst kv), s2l (snd kv))) l).

(* a parsed field: four entries, alternatives, four operators, '~', an epoch and a revision; its
   typed view exists, is in the safe domain, and the evaluators answer true / false as they should:
   the crate's evaluators with the closure, the map through the alternative-by-alternative nesting *)
Example C12_ex_parsed :
  let s := s2l "libc6 (>= 2.4~rc1-1), python3 (<< 1:3.12) | pypy3 (= 7.3.11+dfsg-2), foo, bar (<= 1.0-1) | baz (>> 2)" in
  exists t f a1 a2,
    relations_from_str s = Ok t /\ tree_field version parse_version t = Ok f /\ List.length f = 4 /\
    Forall (Forall (rel_dom version (fun v => ver_safe v = true))) f /\
    pv_of [("libc6", "2.4-1"); ("pypy3", "7.3.11+dfsg-2"); ("foo", "0"); ("baz", "1:0.1")]%string = Some a1 /\
    pv_of [("libc6", "2.4~rc1-1"); ("python3", "1:3.12"); ("foo", "0"); ("baz", "2")]%string = Some a2 /\
    deb_ll_sat t (find_last a1) = Ok true /\ deb_lossy_sat f (find_last a1) = Ok true /\
    deb_by_relation f (LMap (hm_of_list a1)) = Ok true /\
    deb_ll_sat t (find_last a2) = Ok false /\ deb_lossy_sat f (find_last a2) = Ok false /\
    deb_by_relation f (LMap (hm_of_list a2)) = Ok false.
Proof.
  cbv zeta. eexists _, _, _, _.
  split; [vm_compute; reflexivity|]. split; [vm_compute; reflexivity|]. split; [reflexivity|].
  split; [repeat constructor|].
  split; [vm_compute; reflexivity|]. split; [vm_compute; reflexivity|].
  repeat split; vm_compute; reflexivity.
Qed.

(* the hypotheses of C12_main hold for a field with epochs, '~', revisions, all five operators *)
Example C12_ex_main_hypotheses :
  exists v1 v2 v3 v4 v5 a1 a2,
    parse_version (s2l "1:2.0~rc1-3") = Some v1 /\ parse_version (s2l "0.19.0+dfsg-2~bpo1") = Some v2 /\
    parse_version (s2l "2147483647") = Some v3 /\ parse_version (s2l "1.0-1") = Some v4 /\
    parse_version (s2l "0:1.00-01") = Some v5 /\
    parse_version (s2l "1:2.0-3") = Some a1 /\ parse_version (s2l "1.0-1+b1") = Some a2 /\
    let f := [[mk_rel (s2l "a") (Some (OpGe, v1)); mk_rel (s2l "b") (Some (OpLt, v2))];
              [mk_rel (s2l "c") (Some (OpLe, v3))]; [mk_rel (s2l "d") (Some (OpEq, v5)); mk_rel (s2l "e") None];
              [mk_rel (s2l "d") (Some (OpGt, v4))]] in
    let asg := [(s2l "a", a1); (s2l "c", v4); (s2l "d", v4); (s2l "d", a2)] in
    Forall (Forall (fun r => match r_ver r with
                             | Some (_, v) => ver_safe v = true /\ exists text, parse_version text = Some v
                             | None => True end)) f /\
    Forall (fun kv => ver_safe (snd kv) = true) asg /\
    Forall (Forall (fun r => RelGrammar.ident_ok (r_name r) = true)) f /\
    deb_spec (find_last asg) f = false /\
    deb_spec (find_last (asg ++ [(s2l "e", v4)])) f = true.
Proof.
  eexists _, _, _, _, _, _, _.
  do 7 (split; [vm_compute; reflexivity|]). cbv zeta.
  split; [|split; [|split; [|split]]].
  - repeat apply Forall_cons; try apply Forall_nil; cbn [r_ver]; try exact I;
      (split; [vm_compute; reflexivity|]).
    + exists (s2l "1:2.0~rc1-3"). vm_compute. reflexivity.
    + exists (s2l "0.19.0+dfsg-2~bpo1"). vm_compute. reflexivity.
    + exists (s2l "2147483647"). vm_compute. reflexivity.
    + exists (s2l "0:1.00-01"). vm_compute. reflexivity.
    + exists (s2l "1.0-1"). vm_compute. reflexivity.
  - repeat apply Forall_cons; try apply Forall_nil; vm_compute; reflexivity.
  - repeat apply Forall_cons; try apply Forall_nil; vm_compute; reflexivity.
  - vm_compute. reflexivity.
  - vm_compute. reflexivity.
Qed.

(* the constructors: "|" is a PIPE token; the versions survive print-then-read, so
   C12_constructed applies *)
Example C12_ex_constructed :
  exists w1 w2 v1,
    parse_version (s2l "1:2.0-3") = Some w1 /\ parse_version (s2l "0:1.0~~") = Some w2 /\
    parse_version (s2l "1:2.0-3+b1") = Some v1 /\
    let f := [[mk_rel (s2l "a") (Some (OpGe, w1)); mk_rel (s2l "b") None]; [mk_rel (s2l "c") (Some (OpLt, w2))]] in
    let t := deb_build_field f in
    Forall (Forall (fun r => match r_ver r with Some (_, v) => parse_version (show_version v) = Some v | None => True end)) f /\
    text t = s2l "a (>= 1:2.0-3) | b, c (<< 0:1.0~~)" /\
    (exists e pre post, children t = e :: pre /\ children e = post /\ In (Tok PIPE (s2l "|")) post /\ ~ In (Tok COMMA (s2l "|")) post) /\
    deb_ll_sat t (fun n => if str_eqb n (s2l "a") then Some v1 else None) = Ok false /\
    deb_ll_sat t (fun n => if str_eqb n (s2l "c") then parse_version (s2l "1.0~~~") else Some v1) = Ok true.
Proof.
  eexists _, _, _. split; [vm_compute; reflexivity|]. split; [vm_compute; reflexivity|].
  split; [vm_compute; reflexivity|]. cbv zeta.
  split; [repeat constructor|]. split; [vm_compute; reflexivity|].
  split.
  - vm_compute. eexists _, _, _. split; [reflexivity|]. split; [reflexivity|]. split.
    + right. right. left. reflexivity.
    + intros H. repeat (destruct H as [H|H]; [discriminate H|]). exact H.
  - split; vm_compute; reflexivity.
Qed.

(* set_version, the four starts of the harness: insert after the name, replace an existing
   constraint, insert after a qualifier set by set_archqual, and after the qualifier of a parsed
   relation (before its architecture list) *)
Example C12_ex_set_version :
  exists one two t,
    parse_version (s2l "1") = Some one /\ parse_version (s2l "2~") = Some two /\
    deb_sv_field [[mk_rel (s2l "a") (Some (OpGt, one)); mk_rel (s2l "b") (Some (OpLt, two));
                   mk_rel (s2l "c") (Some (OpGe, one)); mk_rel (s2l "d") (Some (OpEq, two))]] = Ok t /\
    text t = s2l "a (>> 1) | b (<< 2~) | c:any (>= 1) | d:any (= 2~) [amd64] <!nocheck>" /\
    deb_ll_sat t (fun n => if str_eqb n (s2l "a") then Some two else None) = Ok true /\
    deb_ll_sat t (fun n => if str_eqb n (s2l "b") then Some two else None) = Ok false /\
    deb_ll_sat t (fun n => if str_eqb n (s2l "d") then Some two else None) = Ok true.
Proof.
  eexists _, _, _. split; [vm_compute; reflexivity|]. split; [vm_compute; reflexivity|].
  split; [vm_compute; reflexivity|]. repeat split; vm_compute; reflexivity.
Qed.

(* short-circuit order matters: the panicking alternative is not reached when an earlier one
   already satisfies the entry *)
Example C12_ex_short_circuit :
  exists t one,
    relations_from_str (s2l "b | a (> 1)") = Ok t /\ parse_version (s2l "1") = Some one /\
    deb_ll_sat t (fun n => if str_eqb n (s2l "b") then Some one else None) = Ok true /\
    deb_ll_sat t (fun n => if str_eqb n (s2l "a") then Some one else None) = Panic 11%N.
Proof.
  eexists _, _. split; [vm_compute; reflexivity|]. split; [vm_compute; reflexivity|].
  split; vm_compute; reflexivity.
Qed.

(* a well-formed field in the sense of C10 with free white space and an epoch: C12_parsed_wellformed
   applies, and the typed view has the version debversion reads from "1:2.0" *)
Example C12_ex_wellformed :
  exists f v, RelGrammar.wf_rfield false f = true /\
    RelGrammar.rrender f = s2l " a  (>=  1:2.0 ) , b" /\
    parse_version (s2l "1:2.0") = Some v /\
    tree_field version parse_version (RelGrammar.rtree_of f) = Ok [[mk_rel (s2l "a") (Some (OpGe, v))]; [mk_rel (s2l "b") None]].
Proof.
  exists (RelGrammar.mk_rfield [32%N]
            (RelGrammar.IEntry (RelGrammar.mk_rel (s2l "a") None
               (Some (RelGrammar.mk_vclause [32; 32]%N [] RelAcc.VGe [32; 32]%N (Some (s2l "1")) (s2l "2.0") [] [32%N])) None [] [32%N]) [])
            [([32%N], RelGrammar.IEntry (RelGrammar.mk_rel (s2l "b") None None None [] []) [])]).
  eexists. split; [vm_compute; reflexivity|]. split; [vm_compute; reflexivity|].
  split; [vm_compute; reflexivity|]. vm_compute. reflexivity.
Qed.

(* the ordering on the textbook cases *)
Example C12_ex_ordering :
  let c a b := match parse_version (s2l a), parse_version (s2l b) with
               | Some x, Some y => Some (vcmp x y, ver_cmp x y)
               | _, _ => None
               end in
  c "1.0~rc1" "1.0" = Some (Lt, Ok Lt) /\ c "1:0.9" "2.0" = Some (Gt, Ok Gt) /\
  c "1.0" "1.0-0" = Some (Eq, Ok Eq) /\ c "1.02" "1.2" = Some (Eq, Ok Eq) /\
  c "1.0a" "1.0+" = Some (Lt, Ok Lt) /\ c "1.0-1" "1.0-1~" = Some (Gt, Ok Gt) /\
  c "a" "1" = Some (Gt, Ok Gt) /\ c "~~" "~" = Some (Lt, Ok Lt) /\
  c "1.2147483648" "1.0" = Some (Gt, Panic 2%N).
Proof. vm_compute. repeat split; reflexivity. Qed.

(* ================================================================== (D) after wrap_and_sort (C12 x C13) *)
(* Relations::wrap_and_sort (RelWrap.relations_ws, the code with the C13 patches: RelWrap.fixed)
   rebuilds every relation from its accessor values -- the CONSTRAINT node of the result holds ONE
   token whose text is the whole operator -- and sorts alternatives and entries.  Satisfaction does
   not see any of it: the object returned is evaluated exactly like the object it was called on.
   Domain: C13's safe domain (RelWrapSpec.content_safe / field_safe: no digit run above i32::MAX in
   a required version) and a lookup returning such versions only; outside it debversion's
   comparison panics and the order of evaluation matters.  Proofs in proofs/SatWrapP.v. *)
From V.model Require RelWrap RelWrapSpec.
From V.proofs Require SatWrapP.

(* the full statement: every well-formed field of C13's quantifier, every lookup on the domain *)
Definition C12_wrap_invariant_full : Prop :=
  forall (allow : bool) (f : RelGrammar.rfield) (g : str -> option version),
  RelGrammar.wf_rfield allow f = true -> RelWrapSpec.field_safe f = true ->
  (forall n v, g n = Some v -> ver_safe v = true) ->
  exists t', RelWrap.relations_ws RelWrap.fixed (RelGrammar.rtree_of f) = Ok t' /\
    deb_ll_sat t' g = deb_ll_sat (RelGrammar.rtree_of f) g /\
    deb_ll_sat (RelGrammar.rtree_of f) g = Ok (deb_spec g (SatWrapP.sat_content (RelWrapSpec.field_wcontent f))).
Theorem C12_wrap_invariant : C12_wrap_invariant_full.
Proof. exact SatWrapP.sat_wrap_field. Qed.
Check C12_wrap_invariant : C12_wrap_invariant_full.
Print Assumptions C12_wrap_invariant.

(* through the text: what wrap_and_sort prints, read again without error (the path of
   Control::wrap_and_sort, which stores the printed value), is evaluated like the field itself *)
Theorem C12_wrap_invariant_reread :
  forall (allow : bool) (f : RelGrammar.rfield) (g : str -> option version),
  RelGrammar.wf_rfield allow f = true -> RelWrapSpec.field_safe f = true ->
  (forall n v, g n = Some v -> ver_safe v = true) ->
  exists t' tp, RelWrap.relations_ws RelWrap.fixed (RelGrammar.rtree_of f) = Ok t' /\
    parse_relaxed (text t') allow = Ok (tp, 0) /\
    deb_ll_sat tp g = deb_ll_sat (RelGrammar.rtree_of f) g.
Proof. exact SatWrapP.sat_wrap_reread. Qed.
Check C12_wrap_invariant_reread :
  forall (allow : bool) (f : RelGrammar.rfield) (g : str -> option version),
  RelGrammar.wf_rfield allow f = true -> RelWrapSpec.field_safe f = true ->
  (forall n v, g n = Some v -> ver_safe v = true) ->
  exists t' tp, RelWrap.relations_ws RelWrap.fixed (RelGrammar.rtree_of f) = Ok t' /\
    parse_relaxed (text t') allow = Ok (tp, 0) /\
    deb_ll_sat tp g = deb_ll_sat (RelGrammar.rtree_of f) g.
Print Assumptions C12_wrap_invariant_reread.

(* beyond the grammar: ANY tree whose accessors do not panic (what the tolerant reader returns for
   malformed text, what the constructors and edits build); the answer is the decision table of the
   accessor content, and the lossy evaluator on the sorted content gives it too *)
Theorem C12_wrap_invariant_any_tree :
  forall (t : rtree) (es : list (list RelWrap.wrel)) (g : str -> option version),
  RelWrapSpec.wacc t = Ok es -> RelWrapSpec.content_safe es = true ->
  (forall n v, g n = Some v -> ver_safe v = true) ->
  exists t', RelWrap.relations_ws RelWrap.fixed t = Ok t' /\
    deb_ll_sat t' g = deb_ll_sat t g /\
    deb_ll_sat t g = Ok (deb_spec g (SatWrapP.sat_content es)) /\
    deb_lossy_sat (SatWrapP.sat_content (RelWrapSpec.sorted_content es)) g = Ok (deb_spec g (SatWrapP.sat_content es)).
Proof. exact SatWrapP.sat_wrap_tree. Qed.
Check C12_wrap_invariant_any_tree :
  forall (t : rtree) (es : list (list RelWrap.wrel)) (g : str -> option version),
  RelWrapSpec.wacc t = Ok es -> RelWrapSpec.content_safe es = true ->
  (forall n v, g n = Some v -> ver_safe v = true) ->
  exists t', RelWrap.relations_ws RelWrap.fixed t = Ok t' /\
    deb_ll_sat t' g = deb_ll_sat t g /\
    deb_ll_sat t g = Ok (deb_spec g (SatWrapP.sat_content es)) /\
    deb_lossy_sat (SatWrapP.sat_content (RelWrapSpec.sorted_content es)) g = Ok (deb_spec g (SatWrapP.sat_content es)).
Print Assumptions C12_wrap_invariant_any_tree.

(* the typed view of the accessor content, and the decision table under reordering *)
Theorem C12_wrap_content_view :
  forall (t : rtree) (es : list (list RelWrap.wrel)),
  RelWrapSpec.wacc t = Ok es -> tree_field version parse_version t = Ok (SatWrapP.sat_content es).
Proof. exact SatWrapP.wacc_tree_field. Qed.
Check C12_wrap_content_view :
  forall (t : rtree) (es : list (list RelWrap.wrel)),
  RelWrapSpec.wacc t = Ok es -> tree_field version parse_version t = Ok (SatWrapP.sat_content es).
Print Assumptions C12_wrap_content_view.

Theorem C12_table_order_irrelevant :
  forall (V : Type) (cmp : V -> V -> comparison) (installed : str -> option V) (f f' : list (list (rel V))),
  RelWrapSpec.perm2 f f' -> satisfied_spec cmp installed f = satisfied_spec cmp installed f'.
Proof. exact (@SatWrapP.spec_perm2). Qed.
Check C12_table_order_irrelevant :
  forall (V : Type) (cmp : V -> V -> comparison) (installed : str -> option V) (f f' : list (list (rel V))),
  RelWrapSpec.perm2 f f' -> satisfied_spec cmp installed f = satisfied_spec cmp installed f'.
Print Assumptions C12_table_order_irrelevant.

(* "b | a (>> 1.0)" through wrap_and_sort, a = 1.0 installed: the strict operator stays strict
   (the CONSTRAINT node of the result is the single token R_ANGLE ">>") *)
Example C12_ex_wrap_strict :
  match relations_from_str (s2l "b | a (>> 1.0)"), parse_version (s2l "1.0") with
  | Ok t, Some v =>
    let g := find_last [(s2l "a", v)] in
    match RelWrap.relations_ws RelWrap.fixed t with
    | Ok t' => text t' = s2l "a (>> 1.0) | b" /\ deb_ll_sat t' g = Ok false /\ deb_ll_sat t g = Ok false
    | _ => False
    end
  | _, _ => False
  end.
Proof. vm_compute. repeat split; reflexivity. Qed.
