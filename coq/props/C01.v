(* C01 — the lossless deb822 reader reproduces every input byte-for-byte.
   Statements only; proofs live in proofs/Deb822LexP.v and proofs/Deb822ParseP.v.
   Quantifier: every s : list N (every sequence of Unicode scalar values), no length bound. *)
From V.model Require Import Base Deb822Lex Deb822Parse.
From V.proofs Require Import Deb822LexP Deb822ParseP SourceTablesP.
From V.gen Require Import Classes_gen.
From V.model Require ByteLex.
From V.proofs Require ByteLexP.

(* The tolerant reader returns (never Panic, never OutOfFuel) a tree whose text is the input;
   the strict reader succeeds with that same tree exactly when the tolerant one reports no
   error, and otherwise fails with a ParseError. *)
Theorem C01_reader : forall s : str,
  exists t n, from_str_relaxed s = Ok (t, n) /\ text t = s /\
              (n = 0 -> from_str s = Ok t) /\ (n <> 0 -> from_str s = Err 1%N).
Proof. exact C01_all. Qed.
Check C01_reader : forall s : str,
  exists t n, from_str_relaxed s = Ok (t, n) /\ text t = s /\
              (n = 0 -> from_str s = Ok t) /\ (n <> 0 -> from_str s = Err 1%N).
Print Assumptions C01_reader.

(* The lexer (either start state) partitions the input into non-empty tokens, in order. *)
Theorem C01_lex_partition : forall sol s, exists ts,
  lex_ sol s = Ok ts /\ concat (map snd ts) = s /\ Forall (fun t => snd t <> []) ts.
Proof.
  intros sol s. destruct (lex_total sol s) as [ts E]. exists ts. split; [exact E|].
  exact (lex_partition sol s ts E).
Qed.
Check C01_lex_partition : forall sol s, exists ts,
  lex_ sol s = Ok ts /\ concat (map snd ts) = s /\ Forall (fun t => snd t <> []) ts.
Print Assumptions C01_lex_partition.

(* The parser alone keeps every token's text, for every token list (not only lexer output). *)
Theorem C01_parser_conserves : forall ts, exists t n,
  parse_tokens ts = Ok (t, n) /\ text t = concat (map snd ts).
Proof.
  intros ts. destruct (parse_tokens_total ts) as (t & n & E & _). exists t, n. split; [exact E|].
  exact (parse_tokens_text ts t n E).
Qed.
Check C01_parser_conserves : forall ts, exists t n,
  parse_tokens ts = Ok (t, n) /\ text t = concat (map snd ts).
Print Assumptions C01_parser_conserves.

(* Tie to the source: the character classes and the SyntaxKind numbering of the model are the
   ones translate/classes.py regenerated from src/common.rs and src/lex.rs on this run. *)
Theorem C01_source_tables : classes_recognised = true /\
  (forall c, is_indent c = is_indent_src c /\ is_newline c = is_newline_src c /\
             is_valid_key_char c = is_valid_key_char_src c /\
             is_valid_initial_key_char c = is_valid_initial_key_char_src c) /\
  map kind_code [KEY; VALUE; COLON; INDENT; NEWLINE; WHITESPACE; COMMENT; ERROR; ROOT; PARAGRAPH; ENTRY; EMPTY_LINE]
    = deb822_kind_values_src.
Proof.
  split; [exact classes_recognised_ok|]. split; [|exact deb822_kind_values_ok].
  intros c. split; [apply is_indent_src_eq|]. split; [apply is_newline_src_eq|]. split; [apply is_valid_key_char_src_eq|apply is_valid_initial_key_char_src_eq].
Qed.
Check C01_source_tables : classes_recognised = true /\
  (forall c, is_indent c = is_indent_src c /\ is_newline c = is_newline_src c /\
             is_valid_key_char c = is_valid_key_char_src c /\
             is_valid_initial_key_char c = is_valid_initial_key_char_src c) /\
  map kind_code [KEY; VALUE; COLON; INDENT; NEWLINE; WHITESPACE; COMMENT; ERROR; ROOT; PARAGRAPH; ENTRY; EMPTY_LINE]
    = deb822_kind_values_src.
Print Assumptions C01_source_tables.

(* The same at the BYTE level (model/ByteLex.v: every slice of lex_ at a byte offset, Panic off a
   character boundary): the lexer returns, for every input, the char-level token list — so the
   partition above is a partition of the input's bytes at character boundaries. *)
Theorem C01_lex_partition_bytes : forall sol s, exists ts,
  ByteLex.bytelex_ sol s = Ok ts /\ lex_ sol s = Ok ts /\
  concat (map snd ts) = s /\ Forall (fun t => snd t <> []) ts.
Proof.
  intros sol s. destruct (ByteLexP.bytelex_safe sol s) as (ts & E & El). exists ts.
  split; [exact E|]. split; [exact El|]. exact (lex_partition sol s ts El).
Qed.
Check C01_lex_partition_bytes : forall sol s, exists ts,
  ByteLex.bytelex_ sol s = Ok ts /\ lex_ sol s = Ok ts /\
  concat (map snd ts) = s /\ Forall (fun t => snd t <> []) ts.
Print Assumptions C01_lex_partition_bytes.

(* Non-vacuity: a malformed, CR/LF-mixed, non-ASCII input with errors; a clean one without. *)
Example C01_ex_errors :
  let s := [233; 58; 32; 120; 13; 10; 45; 35; 10; 65; 58; 98]%N in
  exists t n, from_str_relaxed s = Ok (t, n) /\ n <> 0 /\ text t = s.
Proof. vm_compute. do 2 eexists. split; [reflexivity|]. split; [discriminate|reflexivity]. Qed.
Example C01_ex_clean :
  let s := [35; 99; 10; 65; 58; 32; 98; 10; 32; 99; 10; 10; 66; 58; 100]%N in
  exists t, from_str s = Ok t /\ text t = s /\ doc_items t = [[([65], [98; 10; 99])]; [([66], [100])]]%N.
Proof. vm_compute. eexists. split; [reflexivity|]. split; reflexivity. Qed.
