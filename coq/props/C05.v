From V.model Require Import Base Deb822Lex Deb822Parse Grammar Deb822Edit.
Theorem C05_placeholder : True. Proof. exact I. Qed.
Check C05_placeholder : True.
Print Assumptions C05_placeholder.
