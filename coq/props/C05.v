(* C05 — adding, inserting and removing paragraphs behaves like list operations.
   Statements only.
   tstep2 = the model of Deb822::{add_paragraph, insert_paragraph, remove_paragraph} and of the
            field edits of C04 (coq/model/Deb822Edit.v);
   sstep2 = push / insert(i) (beyond the end appends) / remove(i) (beyond the end does nothing)
            on the list of paragraphs, each a list of (name, value) pairs;
   live documents (LiveDoc.lwf): every parsed well-formed document (leading/trailing comments,
            several blank lines, missing final newline), the empty document, and whatever the
            operations produce from them. *)
From V.model Require Import Base Deb822Lex Deb822Parse Grammar Lossy Deb822Edit LiveDoc LiveTree.
From V.proofs Require Import Deb822EditP LiveDocP LiveParaP LiveDocEvP LiveParaEvP.

(* Any finite history of add / insert(i) / remove(i) (every index) interleaved with field edits
   in C04's domain (op_dom2: the field edits satisfy C04's op_dom - set/insert a canon_kv name
   and value, rename a valid new name, whatever value the renamed field carries), from any live
   document: the live object reports the list-model content, the result is again the tree of a
   live document (live_tree, coq/model/LiveTree.v: up to the empty VALUE tokens that renaming
   a field without value leaves; in particular paragraphs stay separated by a blank line), and
   the printed text re-reads without error to the same non-empty paragraphs in the same order. *)
Theorem C05_history : forall ops d, lwf d = true -> Forall op_dom2 ops ->
  let t' := fold_left tstep2 ops (ltree_of d) in
  let d' := fold_left astep2 ops d in
  live_tree t' d' /\ lwf d' = true /\
  doc_items t' = fold_left sstep2 ops (doc_items (ltree_of d)) /\
  exists t'', from_str (text t') = Ok t'' /\ doc_items t'' = nonempty_paras (doc_items t').
Proof. exact C05_history_every. Qed.
Check C05_history : forall ops d, lwf d = true -> Forall op_dom2 ops ->
  let t' := fold_left tstep2 ops (ltree_of d) in
  let d' := fold_left astep2 ops d in
  live_tree t' d' /\ lwf d' = true /\
  doc_items t' = fold_left sstep2 ops (doc_items (ltree_of d)) /\
  exists t'', from_str (text t') = Ok t'' /\ doc_items t'' = nonempty_paras (doc_items t').
Print Assumptions C05_history.

Theorem C05_domain : forall o, op_dom2 o <->
  match o with
  | DF (OSet _ k v) | DF (OInsert _ k v) => canon_kv k v = true
  | DF (ORename _ _ new) => valid_name new = true
  | _ => True
  end.
Proof. intros o. destruct o as [[n k v|n k v|n k|n old new]| | |]; reflexivity. Qed.
Check C05_domain : forall o, op_dom2 o <->
  match o with
  | DF (OSet _ k v) | DF (OInsert _ k v) => canon_kv k v = true
  | DF (ORename _ _ new) => valid_name new = true
  | _ => True
  end.
Print Assumptions C05_domain.

(* When every renamed field carries a value (ops_ok2) the tree is exactly the layout's tree. *)
Theorem C05_history_exact : forall ops d, lwf d = true -> ops_ok2 d ops ->
  let t' := fold_left tstep2 ops (ltree_of d) in
  t' = ltree_of (fold_left astep2 ops d) /\ lwf (fold_left astep2 ops d) = true /\
  doc_items t' = fold_left sstep2 ops (doc_items (ltree_of d)) /\
  exists t'', from_str (text t') = Ok t'' /\ doc_items t'' = nonempty_paras (doc_items t').
Proof. exact C05_history_all. Qed.
Check C05_history_exact : forall ops d, lwf d = true -> ops_ok2 d ops ->
  let t' := fold_left tstep2 ops (ltree_of d) in
  t' = ltree_of (fold_left astep2 ops d) /\ lwf (fold_left astep2 ops d) = true /\
  doc_items t' = fold_left sstep2 ops (doc_items (ltree_of d)) /\
  exists t'', from_str (text t') = Ok t'' /\ doc_items t'' = nonempty_paras (doc_items t').
Print Assumptions C05_history_exact.

(* One step, with the abstract layout it produces: what changes in the document is exactly what
   a_add / a_insert_para / a_remove_para say — the new empty paragraph and one blank line (plus
   the terminator of an unterminated last line when appending), resp. the removed paragraph and
   one blank line after it; every other block (paragraph, comment, blank line) is untouched.
   (op_ok2: as C05_history_exact; the paragraph operations themselves have no side condition.) *)
Theorem C05_step : forall d o, lwf d = true -> op_ok2 d o ->
  tstep2 (ltree_of d) o = ltree_of (astep2 d o) /\ lwf (astep2 d o) = true /\
  lcontent (astep2 d o) = sstep2 (lcontent d) o.
Proof. exact tstep2_live. Qed.
Check C05_step : forall d o, lwf d = true -> op_ok2 d o ->
  tstep2 (ltree_of d) o = ltree_of (astep2 d o) /\ lwf (astep2 d o) = true /\
  lcontent (astep2 d o) = sstep2 (lcontent d) o.
Print Assumptions C05_step.

(* Separation: in a live document a paragraph is followed by a blank line or by nothing. *)
Theorem C05_separated : forall d, lwf d = true -> separated d = true.
Proof. exact lwf_separated. Qed.
Check C05_separated : forall d, lwf d = true -> separated d = true.
Print Assumptions C05_separated.

(* Starting points: the empty document and every parsed well-formed document. *)
Theorem C05_start : (deb822_of_paragraphs [] = ltree_of [] /\ lwf [] = true) /\
  forall d : doc, wf_doc d = true -> from_str (render d) = Ok (ltree_of (lift d)) /\ lwf (lift d) = true.
Proof. split; [exact new_is_live|exact parsed_is_live]. Qed.
Check C05_start : (deb822_of_paragraphs [] = ltree_of [] /\ lwf [] = true) /\
  forall d : doc, wf_doc d = true -> from_str (render d) = Ok (ltree_of (lift d)) /\ lwf (lift d) = true.
Print Assumptions C05_start.

(* Non-vacuity: leading comment, missing final newline, indices in and out of range, a field
   without value ("E:" as the unterminated last line) renamed before and again after paragraphs
   were added and removed around it. *)
Example C05_ex :
  let f1 := mk_field [65]%N [32]%N [49]%N [] true in
  let f2 := mk_field [66]%N [32]%N [50]%N [] true in
  let fe := mk_field [69]%N [] [] [] false in
  let d := lift [BComment [120]%N true; BBlank; BPara f1 []; BBlank; BPara f2 [IField fe]] in
  let ops := [DRemove 0; DF (ORename 0 [69]%N [70]%N); DAdd; DF (OSet 1 [67]%N [51]%N); DInsert 7; DInsert 0; DRemove 9; DRemove 3;
              DF (ORename 1 [70]%N [71]%N)] in
  lwf d = true /\ Forall op_dom2 ops /\
  doc_items (fold_left tstep2 ops (ltree_of d)) = [[]; [([66], [50]); ([71], [])]; [([67], [51])]]%N /\
  text (fold_left tstep2 ops (ltree_of d)) =
    [10; 35; 120; 10; 10; 66; 58; 32; 50; 10; 71; 58; 32; 10; 10; 67; 58; 32; 51; 10; 10]%N /\
  fold_left tstep2 ops (ltree_of d) <> ltree_of (fold_left astep2 ops d).
Proof.
  cbv zeta. split; [vm_compute; reflexivity|]. split; [repeat constructor; vm_compute; reflexivity|].
  split; [vm_compute; reflexivity|]. split; [vm_compute; reflexivity|].
  intros E. vm_compute in E. discriminate E.
Qed.

(* the same for the exact statement *)
Example C05_ex_exact :
  let f1 := mk_field [65]%N [32]%N [49]%N [] true in
  let f2 := mk_field [66]%N [32]%N [50]%N [] false in
  let d := lift [BComment [120]%N true; BBlank; BPara f1 []; BBlank; BPara f2 []] in
  let ops := [DRemove 0; DAdd; DF (OSet 1 [67]%N [51]%N); DInsert 7; DInsert 0; DRemove 9; DRemove 3] in
  lwf d = true /\ ops_ok2 d ops /\
  doc_items (fold_left tstep2 ops (ltree_of d)) = [[]; [([66], [50])]; [([67], [51])]]%N /\
  text (fold_left tstep2 ops (ltree_of d)) = [10; 35; 120; 10; 10; 66; 58; 32; 50; 10; 10; 67; 58; 32; 51; 10; 10]%N.
Proof.
  cbv zeta. split; [vm_compute; reflexivity|]. split; [|split; vm_compute; reflexivity].
  cbn [ops_ok2 op_ok2 op_ok]. repeat split; vm_compute; reflexivity.
Qed.

(* A document collected from paragraphs (impl FromIterator<Paragraph> for Deb822), the paragraphs being
   any live paragraphs - e.g. parsed ones whose last line has no line end: every paragraph that is
   followed by another one is terminated, one blank line separates them, the result is a live
   document (hence re-reads to the same paragraphs: C04_history's last clause with ops = []) and
   reports the paragraphs' items in order. *)
Theorem C05_from_paragraphs : forall ps, Forall (fun its => wf_items its false = true) ps ->
  deb822_of_paragraphs (map (fun its => lblock_tree (LPara its)) ps) = ltree_of (layout_paras ps) /\
  lwf (layout_paras ps) = true /\
  lcontent (layout_paras ps) = map (flat_map item_pairs) ps.
Proof. exact from_paragraphs_live. Qed.
Check C05_from_paragraphs : forall ps, Forall (fun its => wf_items its false = true) ps ->
  deb822_of_paragraphs (map (fun its => lblock_tree (LPara its)) ps) = ltree_of (layout_paras ps) /\
  lwf (layout_paras ps) = true /\
  lcontent (layout_paras ps) = map (flat_map item_pairs) ps.
Print Assumptions C05_from_paragraphs.

(* ... which the code before fix 316b0fc did not do: "A: 1" and "B: 2" were fused. *)
Theorem C05_from_paragraphs_before_fix_refuted :
  let a := lblock_tree (LPara [IField (mk_field [65%N] [32%N] [49%N] [] false)]) in
  let b := lblock_tree (LPara [IField (mk_field [66%N] [32%N] [50%N] [] false)]) in
  let t := Node ROOT (join_paras_before_fix 0 [a; b]) in
  length (doc_items t) = 2 /\ exists t', from_str (text t) = Ok t' /\ length (doc_items t') = 1.
Proof. exact from_paragraphs_before_fix_refuted. Qed.
Check C05_from_paragraphs_before_fix_refuted :
  let a := lblock_tree (LPara [IField (mk_field [65%N] [32%N] [49%N] [] false)]) in
  let b := lblock_tree (LPara [IField (mk_field [66%N] [32%N] [50%N] [] false)]) in
  let t := Node ROOT (join_paras_before_fix 0 [a; b]) in
  length (doc_items t) = 2 /\ exists t', from_str (text t) = Ok t' /\ length (doc_items t') = 1.
Print Assumptions C05_from_paragraphs_before_fix_refuted.
