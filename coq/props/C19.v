(* C19 — PGP clear-sign unwrapping returns exactly the payload or a specific error.
   Statements only; proofs in proofs/PgpP.v; model in model/Pgp.v
   (debian-control/src/pgp.rs::strip_pgp_signature over a model of str::lines()).

   Objects (model/Pgp.v, specification section):
     wrap hs ps ss        the clear-signed message: marker, armour headers hs, blank line, payload
                          lines ps, signature marker, signature lines ss, end marker; every line
                          followed by "\n"
     unlines ps           the payload: every payload line followed by "\n"
     cut_lines k hs ps ss the message cut after its first k lines
     cut_chars n hs ps ss the message cut after its first n characters
     pgp_dom hs ps ss     all lines free of "\n" and not ending in "\r" (LF-terminated lines); headers
                          non-empty; payload lines do not begin with '-'; no signature line is the end
                          marker
   Error values: Err 1 = MissingPgpSignature, Err 2 = MissingPayload, Err 3 = TruncatedPgpSignature,
   Err 4 = JunkAfterPgpSignature (named E_... below).
   Quantifier: all header / payload / signature line lists in the domain (no bound on number or
   length of lines), every cut point, every non-empty trailing addition; all strings for the
   unsigned, soundness and totality clauses. *)
From V.model Require Import Base Pgp.
From V.proofs Require Import PgpP.

(* ---------------------------------------------------------------- 1. the complete message *)
Theorem C19_ok : forall hs ps ss : list str,
  pgp_dom hs ps ss ->
  strip_pgp_signature (wrap hs ps ss) = Ok (unlines ps, Some (concat ss)).
Proof. exact strip_wrap_ok. Qed.
Check C19_ok : forall hs ps ss : list str,
  pgp_dom hs ps ss ->
  strip_pgp_signature (wrap hs ps ss) = Ok (unlines ps, Some (concat ss)).
Print Assumptions C19_ok.

(* the final "\n" of the message is optional *)
Theorem C19_ok_no_final_newline : forall (hs ps ss : list str) (body : str),
  pgp_dom hs ps ss -> wrap hs ps ss = body ++ [LF] ->
  strip_pgp_signature body = Ok (unlines ps, Some (concat ss)).
Proof. exact strip_wrap_no_final_newline. Qed.
Check C19_ok_no_final_newline : forall (hs ps ss : list str) (body : str),
  pgp_dom hs ps ss -> wrap hs ps ss = body ++ [LF] ->
  strip_pgp_signature body = Ok (unlines ps, Some (concat ss)).
Print Assumptions C19_ok_no_final_newline.

(* ---------------------------------------------------------------- 2. unsigned text *)
(* marker_first_line s: s is the marker alone, or the marker followed by LF or by CR LF *)
Theorem C19_unsigned : forall s : str,
  ~ marker_first_line s -> strip_pgp_signature s = Ok (s, None).
Proof. exact strip_unsigned. Qed.
Check C19_unsigned : forall s : str,
  ~ marker_first_line s -> strip_pgp_signature s = Ok (s, None).
Print Assumptions C19_unsigned.

(* the same in terms of the modelled lines(): "first line" means what it says *)
Theorem C19_first_line : forall s : str,
  hd_error (lines s) = Some BEGIN_SIGNED <-> marker_first_line s.
Proof. exact marker_first_line_iff. Qed.
Check C19_first_line : forall s : str,
  hd_error (lines s) = Some BEGIN_SIGNED <-> marker_first_line s.
Print Assumptions C19_first_line.

(* and conversely: a pass-through result occurs only for unsigned text and is the input itself *)
Theorem C19_passthrough_only_unsigned : forall s p : str,
  strip_pgp_signature s = Ok (p, None) -> p = s /\ ~ marker_first_line s.
Proof.
  intros s p H. split; [exact (strip_none_is_input s p H)|].
  intros M. exact (strip_signed_not_none s M p H).
Qed.
Check C19_passthrough_only_unsigned : forall s p : str,
  strip_pgp_signature s = Ok (p, None) -> p = s /\ ~ marker_first_line s.
Print Assumptions C19_passthrough_only_unsigned.

(* ---------------------------------------------------------------- 3. truncation, after every line *)
Theorem C19_trunc : forall hs ps ss : list str,
  pgp_dom hs ps ss ->
  length (wrap_lines hs ps ss) = 4 + length hs + length ps + length ss /\
  forall k, k < 4 + length hs + length ps + length ss ->
    (k = 0 -> strip_pgp_signature (cut_lines k hs ps ss) = Ok ([], None)) /\
    (1 <= k <= 1 + length hs -> strip_pgp_signature (cut_lines k hs ps ss) = Err E_MissingPayload) /\
    (2 + length hs <= k <= 2 + length hs + length ps ->
       strip_pgp_signature (cut_lines k hs ps ss) = Err E_MissingPgpSignature) /\
    (3 + length hs + length ps <= k ->
       strip_pgp_signature (cut_lines k hs ps ss) = Err E_TruncatedPgpSignature).
Proof. exact strip_cut_regions. Qed.
Check C19_trunc : forall hs ps ss : list str,
  pgp_dom hs ps ss ->
  length (wrap_lines hs ps ss) = 4 + length hs + length ps + length ss /\
  forall k, k < 4 + length hs + length ps + length ss ->
    (k = 0 -> strip_pgp_signature (cut_lines k hs ps ss) = Ok ([], None)) /\
    (1 <= k <= 1 + length hs -> strip_pgp_signature (cut_lines k hs ps ss) = Err E_MissingPayload) /\
    (2 + length hs <= k <= 2 + length hs + length ps ->
       strip_pgp_signature (cut_lines k hs ps ss) = Err E_MissingPgpSignature) /\
    (3 + length hs + length ps <= k ->
       strip_pgp_signature (cut_lines k hs ps ss) = Err E_TruncatedPgpSignature).
Print Assumptions C19_trunc.

(* ... never a shortened payload presented as valid; and cutting nothing off is C19_ok *)
Theorem C19_trunc_never_signed : forall (hs ps ss : list str) (k : nat),
  pgp_dom hs ps ss -> k < length (wrap_lines hs ps ss) ->
  forall p sg, strip_pgp_signature (cut_lines k hs ps ss) <> Ok (p, Some sg).
Proof. exact strip_cut_never_signed. Qed.
Check C19_trunc_never_signed : forall (hs ps ss : list str) (k : nat),
  pgp_dom hs ps ss -> k < length (wrap_lines hs ps ss) ->
  forall p sg, strip_pgp_signature (cut_lines k hs ps ss) <> Ok (p, Some sg).
Print Assumptions C19_trunc_never_signed.

Theorem C19_trunc_all_lines : forall (hs ps ss : list str) (k : nat),
  length (wrap_lines hs ps ss) <= k -> cut_lines k hs ps ss = wrap hs ps ss.
Proof. exact cut_lines_all. Qed.
Check C19_trunc_all_lines : forall (hs ps ss : list str) (k : nat),
  length (wrap_lines hs ps ss) <= k -> cut_lines k hs ps ss = wrap hs ps ss.
Print Assumptions C19_trunc_all_lines.

(* ---------------------------------------------------------------- 3b. truncation, after every character
   (DESIGN's stretch goal C19_trunc_char).  Extra side condition: no signature line *starts with*
   the end marker (C19_sig_prefix_needed shows why).  Every cut shorter than the message minus
   its final "\n" falls in some line k after p of its characters (q = the rest of that line),
   and the result is cutc_result: see model/Pgp.v. *)
Theorem C19_trunc_char : forall (hs ps ss : list str) (n : nat),
  pgp_dom hs ps ss -> Forall (fun l => is_prefix END_SIG l = false) ss ->
  n + 1 < length (wrap hs ps ss) ->
  exists k p q, nth_error (wrap_lines hs ps ss) k = Some (p ++ q) /\
    cut_chars n hs ps ss = cut_lines k hs ps ss ++ p /\
    strip_pgp_signature (cut_chars n hs ps ss) = cutc_result (cut_chars n hs ps ss) k p q hs ps.
Proof. exact strip_cut_chars. Qed.
Check C19_trunc_char : forall (hs ps ss : list str) (n : nat),
  pgp_dom hs ps ss -> Forall (fun l => is_prefix END_SIG l = false) ss ->
  n + 1 < length (wrap hs ps ss) ->
  exists k p q, nth_error (wrap_lines hs ps ss) k = Some (p ++ q) /\
    cut_chars n hs ps ss = cut_lines k hs ps ss ++ p /\
    strip_pgp_signature (cut_chars n hs ps ss) = cutc_result (cut_chars n hs ps ss) k p q hs ps.
Print Assumptions C19_trunc_char.

(* readable form: a cut message is passed through unchanged only while the cut is inside the
   first line; otherwise it is one of the three truncation errors; never a signed result *)
Theorem C19_trunc_char_class : forall (hs ps ss : list str) (n : nat),
  pgp_dom hs ps ss -> Forall (fun l => is_prefix END_SIG l = false) ss ->
  n + 1 < length (wrap hs ps ss) ->
  (strip_pgp_signature (cut_chars n hs ps ss) = Ok (cut_chars n hs ps ss, None) /\ n < length BEGIN_SIGNED) \/
  strip_pgp_signature (cut_chars n hs ps ss) = Err E_MissingPayload \/
  strip_pgp_signature (cut_chars n hs ps ss) = Err E_MissingPgpSignature \/
  strip_pgp_signature (cut_chars n hs ps ss) = Err E_TruncatedPgpSignature.
Proof. exact strip_cut_chars_class. Qed.
Check C19_trunc_char_class : forall (hs ps ss : list str) (n : nat),
  pgp_dom hs ps ss -> Forall (fun l => is_prefix END_SIG l = false) ss ->
  n + 1 < length (wrap hs ps ss) ->
  (strip_pgp_signature (cut_chars n hs ps ss) = Ok (cut_chars n hs ps ss, None) /\ n < length BEGIN_SIGNED) \/
  strip_pgp_signature (cut_chars n hs ps ss) = Err E_MissingPayload \/
  strip_pgp_signature (cut_chars n hs ps ss) = Err E_MissingPgpSignature \/
  strip_pgp_signature (cut_chars n hs ps ss) = Err E_TruncatedPgpSignature.
Print Assumptions C19_trunc_char_class.

(* ---------------------------------------------------------------- 4. anything after the end marker *)
(* any non-empty text, not only whole lines *)
Theorem C19_junk : forall (hs ps ss : list str) (extra : str),
  pgp_dom hs ps ss -> extra <> [] ->
  strip_pgp_signature (wrap hs ps ss ++ extra) = Err E_JunkAfterPgpSignature.
Proof. exact strip_wrap_junk. Qed.
Check C19_junk : forall (hs ps ss : list str) (extra : str),
  pgp_dom hs ps ss -> extra <> [] ->
  strip_pgp_signature (wrap hs ps ss ++ extra) = Err E_JunkAfterPgpSignature.
Print Assumptions C19_junk.

(* ---------------------------------------------------------------- 5. beyond the domain: lines ending in CR
   The code reads the message with str::lines(), which treats CR LF as a line end: a trailing
   "\r" of any line is dropped (chomp_cr).  On the wider domain pgp_dom_cr the result is still
   determined - the payload comes back with LF line ends.  This is why pgp_dom asks for
   LF-terminated lines (C19_cr_needed); see docs/cones/C19.md for the decision. *)
Theorem C19_ok_cr : forall (hs ps ss : list str) (extra : str),
  pgp_dom_cr hs ps ss ->
  strip_pgp_signature (wrap hs ps ss ++ extra) =
  match extra with
  | [] => Ok (unlines (map chomp_cr ps), Some (concat (map chomp_cr ss)))
  | _ :: _ => Err E_JunkAfterPgpSignature
  end.
Proof. exact strip_wrap_cr. Qed.
Check C19_ok_cr : forall (hs ps ss : list str) (extra : str),
  pgp_dom_cr hs ps ss ->
  strip_pgp_signature (wrap hs ps ss ++ extra) =
  match extra with
  | [] => Ok (unlines (map chomp_cr ps), Some (concat (map chomp_cr ss)))
  | _ :: _ => Err E_JunkAfterPgpSignature
  end.
Print Assumptions C19_ok_cr.

Theorem C19_trunc_cr : forall (hs ps ss : list str) (k : nat),
  pgp_dom_cr hs ps ss -> k < length (wrap_lines hs ps ss) ->
  strip_pgp_signature (cut_lines k hs ps ss) = cut_result k hs ps.
Proof. exact strip_cut_cr. Qed.
Check C19_trunc_cr : forall (hs ps ss : list str) (k : nat),
  pgp_dom_cr hs ps ss -> k < length (wrap_lines hs ps ss) ->
  strip_pgp_signature (cut_lines k hs ps ss) = cut_result k hs ps.
Print Assumptions C19_trunc_cr.

Theorem C19_dom_in_dom_cr : forall hs ps ss : list str, pgp_dom hs ps ss -> pgp_dom_cr hs ps ss.
Proof. exact pgp_dom_dom_cr. Qed.
Check C19_dom_in_dom_cr : forall hs ps ss : list str, pgp_dom hs ps ss -> pgp_dom_cr hs ps ss.
Print Assumptions C19_dom_in_dom_cr.

(* ---------------------------------------------------------------- 6. all inputs: soundness and totality *)
(* whatever the input, a signed result means the input's lines have exactly the clear-sign
   shape and the payload / signature returned are the ones between the markers: nothing
   shortened or extended is ever presented as valid *)
Theorem C19_signed_sound : forall s p sg : str,
  strip_pgp_signature s = Ok (p, Some sg) ->
  exists hs ps ss, lines s = wrap_lines hs ps ss /\
    Forall (fun l => l <> []) hs /\ Forall (fun l => l <> BEGIN_SIG) ps /\
    Forall (fun l => l <> END_SIG) ss /\
    p = unlines ps /\ sg = concat ss.
Proof. exact strip_signed_inv. Qed.
Check C19_signed_sound : forall s p sg : str,
  strip_pgp_signature s = Ok (p, Some sg) ->
  exists hs ps ss, lines s = wrap_lines hs ps ss /\
    Forall (fun l => l <> []) hs /\ Forall (fun l => l <> BEGIN_SIG) ps /\
    Forall (fun l => l <> END_SIG) ss /\
    p = unlines ps /\ sg = concat ss.
Print Assumptions C19_signed_sound.

(* a value or one of the four errors; no panic site, no unbounded loop *)
Theorem C19_total : forall s : str,
  (exists p o, strip_pgp_signature s = Ok (p, o)) \/
  strip_pgp_signature s = Err E_MissingPayload \/
  strip_pgp_signature s = Err E_MissingPgpSignature \/
  strip_pgp_signature s = Err E_TruncatedPgpSignature \/
  strip_pgp_signature s = Err E_JunkAfterPgpSignature.
Proof. exact strip_total. Qed.
Check C19_total : forall s : str,
  (exists p o, strip_pgp_signature s = Ok (p, o)) \/
  strip_pgp_signature s = Err E_MissingPayload \/
  strip_pgp_signature s = Err E_MissingPgpSignature \/
  strip_pgp_signature s = Err E_TruncatedPgpSignature \/
  strip_pgp_signature s = Err E_JunkAfterPgpSignature.
Print Assumptions C19_total.

(* ---------------------------------------------------------------- the domain is decidable *)
Theorem C19_dom_decidable : forall hs ps ss : list str, pgp_domb hs ps ss = true -> pgp_dom hs ps ss.
Proof. exact pgp_domb_ok. Qed.
Check C19_dom_decidable : forall hs ps ss : list str, pgp_domb hs ps ss = true -> pgp_dom hs ps ss.
Print Assumptions C19_dom_decidable.

(* ---------------------------------------------------------------- non-vacuity *)
(* headers ["Hash: SHA256"]; payload ["Origin: Debian"; ""; " -----BEGIN PGP SIGNATURE-----"; "a: é"]
   (a blank line, a marker look-alike, deb822 content, a non-ASCII character);
   signature ["iQIz"; "=olY7"] *)
Definition ex_hs : list str := [[72; 97; 115; 104; 58; 32; 83; 72; 65; 50; 53; 54]]%N.
Definition ex_ps : list str :=
  [[79; 114; 105; 103; 105; 110; 58; 32; 68; 101; 98; 105; 97; 110]; [];
   [32; 45; 45; 45; 45; 45; 66; 69; 71; 73; 78; 32; 80; 71; 80; 32; 83; 73; 71; 78; 65; 84; 85;
    82; 69; 45; 45; 45; 45; 45]; [97; 58; 32; 233]]%N.
Definition ex_ss : list str := [[105; 81; 73; 122]; [61; 111; 108; 89; 55]]%N.

Example C19_ex_dom : pgp_dom ex_hs ex_ps ex_ss /\ Forall (fun l => is_prefix END_SIG l = false) ex_ss.
Proof. split; [apply pgp_domb_ok; reflexivity|]. repeat constructor. Qed.

Example C19_ex_ok :
  strip_pgp_signature (wrap ex_hs ex_ps ex_ss) = Ok (unlines ex_ps, Some (concat ex_ss)) /\
  length (unlines ex_ps) = 52 /\ length (wrap ex_hs ex_ps ex_ss) = 170.
Proof. vm_compute. repeat split. Qed.

(* all 11 line cuts of the example: "", then MissingPayload x2, MissingPgpSignature x5, Truncated x3 *)
Example C19_ex_cuts :
  map (fun k => strip_pgp_signature (cut_lines k ex_hs ex_ps ex_ss)) (seq 0 11) =
  [Ok ([], None); Err E_MissingPayload; Err E_MissingPayload;
   Err E_MissingPgpSignature; Err E_MissingPgpSignature; Err E_MissingPgpSignature;
   Err E_MissingPgpSignature; Err E_MissingPgpSignature;
   Err E_TruncatedPgpSignature; Err E_TruncatedPgpSignature; Err E_TruncatedPgpSignature].
Proof. vm_compute. reflexivity. Qed.

Example C19_ex_junk :
  strip_pgp_signature (wrap ex_hs ex_ps ex_ss ++ [10]%N) = Err E_JunkAfterPgpSignature /\
  strip_pgp_signature (wrap ex_hs ex_ps ex_ss ++ [120]%N) = Err E_JunkAfterPgpSignature.
Proof. vm_compute. split; reflexivity. Qed.

(* unsigned: deb822 text; the empty text; the marker with something else on its line *)
Example C19_ex_unsigned :
  ~ marker_first_line [83; 111; 117; 114; 99; 101; 58; 32; 120; 10]%N /\
  ~ marker_first_line [] /\ ~ marker_first_line (BEGIN_SIGNED ++ [32; 10])%N /\
  marker_first_line (BEGIN_SIGNED ++ [13; 10; 120])%N.
Proof.
  repeat split; try (intros [H|[(r & H)|(r & H)]]; vm_compute in H; discriminate).
  right; right. exists [120]%N. reflexivity.
Qed.

(* ---------------------------------------------------------------- the side conditions are needed *)
(* (DESIGN §5 row 25, confirmed on the real code by the pgp-wrap stream.)  A payload line ending
   in CR comes back without it: payload "a\r\n" is returned as "a\n". *)
Lemma C19_cr_needed : exists hs ps ss,
  Forall no_lf (hs ++ ps ++ ss) /\ Forall (fun l => l <> []) hs /\ Forall no_dash_start ps /\
  Forall (fun l => l <> END_SIG) ss /\
  strip_pgp_signature (wrap hs ps ss) = Ok ([97; 10]%N, Some []) /\ unlines ps = [97; 13; 10]%N.
Proof.
  exists [], [[97; 13]%N], [].
  split. { cbn [app]. constructor; [|constructor]. apply no_lf_b. reflexivity. }
  split. { constructor. }
  split. { constructor; [|constructor]. unfold no_dash_start. cbn [hd]. discriminate. }
  split. { constructor. }
  split; vm_compute; reflexivity.
Qed.
Check C19_cr_needed : exists hs ps ss,
  Forall no_lf (hs ++ ps ++ ss) /\ Forall (fun l => l <> []) hs /\ Forall no_dash_start ps /\
  Forall (fun l => l <> END_SIG) ss /\
  strip_pgp_signature (wrap hs ps ss) = Ok ([97; 10]%N, Some []) /\ unlines ps = [97; 13; 10]%N.
Print Assumptions C19_cr_needed.

(* a payload line that begins with '-' (it would have been dash-escaped by the signer) can be
   taken for the signature marker *)
Lemma C19_dash_needed :
  strip_pgp_signature (wrap [] [BEGIN_SIG] []) = Ok ([], Some BEGIN_SIG).
Proof. vm_compute. reflexivity. Qed.
Check C19_dash_needed :
  strip_pgp_signature (wrap [] [BEGIN_SIG] []) = Ok ([], Some BEGIN_SIG).
Print Assumptions C19_dash_needed.

(* an empty "header" is the separator: the payload gains a blank line *)
Lemma C19_blank_header_needed :
  strip_pgp_signature (wrap [[]] [[97]%N] []) = Ok ([10; 97; 10]%N, Some []).
Proof. vm_compute. reflexivity. Qed.
Check C19_blank_header_needed :
  strip_pgp_signature (wrap [[]] [[97]%N] []) = Ok ([10; 97; 10]%N, Some []).
Print Assumptions C19_blank_header_needed.

(* a signature line equal to the end marker ends the signature early *)
Lemma C19_end_in_sig_needed :
  strip_pgp_signature (wrap [] [[97]%N] [END_SIG]) = Err E_JunkAfterPgpSignature.
Proof. vm_compute. reflexivity. Qed.
Check C19_end_in_sig_needed :
  strip_pgp_signature (wrap [] [[97]%N] [END_SIG]) = Err E_JunkAfterPgpSignature.
Print Assumptions C19_end_in_sig_needed.

(* character cuts only: a signature line that starts with the end marker, cut right after it,
   gives a complete-looking message with a shortened signature (the payload is intact) *)
Lemma C19_sig_prefix_needed :
  pgp_dom [] [[97]%N] [END_SIG ++ [120]%N] /\
  95 + 1 < length (wrap [] [[97]%N] [END_SIG ++ [120]%N]) /\
  strip_pgp_signature (cut_chars 95 [] [[97]%N] [END_SIG ++ [120]%N]) = Ok ([97; 10]%N, Some []).
Proof. split; [apply pgp_domb_ok; reflexivity|]. vm_compute. split; [lia|reflexivity]. Qed.
Check C19_sig_prefix_needed :
  pgp_dom [] [[97]%N] [END_SIG ++ [120]%N] /\
  95 + 1 < length (wrap [] [[97]%N] [END_SIG ++ [120]%N]) /\
  strip_pgp_signature (cut_chars 95 [] [[97]%N] [END_SIG ++ [120]%N]) = Ok ([97; 10]%N, Some []).
Print Assumptions C19_sig_prefix_needed.

(* ---------------------------------------------------------------- more non-vacuity *)
(* every message ends in "\n", so C19_ok_no_final_newline's hypothesis is always satisfiable *)
Example C19_ex_body : exists body, wrap ex_hs ex_ps ex_ss = body ++ [LF] /\ length body = 169.
Proof. exists (removelast (wrap ex_hs ex_ps ex_ss)). vm_compute. split; reflexivity. Qed.

(* all 169 character cuts of the 170-character example, by kind of result
   (0 = passed through, otherwise the error code; 9 would be a signed result):
   34 inside the first line, 15 up to the blank line, 81 up to the signature marker, 39 after *)
Definition res_code (r : res (str * option str)) : N :=
  match r with Ok (_, None) => 0 | Ok (_, Some _) => 9 | Err e => e | _ => 99 end%N.
Example C19_ex_char_cuts :
  map (fun n => res_code (strip_pgp_signature (cut_chars n ex_hs ex_ps ex_ss))) (seq 0 169) =
  repeat 0%N 34 ++ repeat E_MissingPayload 15 ++ repeat E_MissingPgpSignature 81 ++
  repeat E_TruncatedPgpSignature 39.
Proof. vm_compute. reflexivity. Qed.

(* a message with CR LF line ends throughout is inside pgp_dom_cr (not pgp_dom) and comes back
   with LF line ends *)
Example C19_ex_crlf :
  let hs := [[72; 58; 13]]%N in let ps := [[97; 13]; [98; 13]]%N in let ss := [[120; 13]]%N in
  pgp_dom_cr hs ps ss /\
  strip_pgp_signature (wrap hs ps ss) = Ok ([97; 10; 98; 10]%N, Some [120]%N).
Proof.
  cbv zeta. split; [|vm_compute; reflexivity].
  split; [|split; [|split]].
  - cbn [app]. repeat constructor; apply no_lf_b; reflexivity.
  - repeat constructor; vm_compute; discriminate.
  - repeat constructor; vm_compute; discriminate.
  - repeat constructor; vm_compute; discriminate.
Qed.
