(* C04H — C04 and C05 through HANDLES: edits issued through paragraph handles obtained at any
   earlier time see, and are seen by, the document.  Statements only; proofs in
   proofs/Deb822StoreP.v (the store: detach / attach / splice_children and how they re-base
   handles), Deb822StoreOpsP.v (splice forms, ensure_trailing_newline), Deb822StoreParaP.v
   (Paragraph::{set, insert, remove, rename} through a handle at any path of any tree),
   Deb822StoreDocP.v (paragraphs().nth, add/insert/remove_paragraph), Deb822HandlesP.v (the
   refinement, histories, C04/C05).

   model/Deb822Store.v is the editing API of src/lossless.rs as the code is written, over a STORE
   of mutable trees with re-based handles (rowan 0.16.1's red layer as the code experiences it;
   the same store as RelEdit.v of C11): splice_children / detach / attach_child, lazy sibling
   iteration that ends at a detached node, index(), new_root_mut; a register machine [hop] says
   through which handle, obtained when, every edit goes.  It is tied to the real code by the
   deb822-store stream (harness/src/s_store.rs, runner/s_store.ml).
   model/Deb822Handles.v is the specification: the abstract state is the document tree of the
   PURE model of C04/C05 (Deb822Edit.v), the detached paragraphs, and for every register what its
   handle denotes — [Live n]: the paragraph that is currently the n-th of the document, [Dead j]:
   a paragraph that is not (any more) part of it.  [hstep] applies the pure model's tstep2 at the
   position the handle's paragraph currently has and shifts the positions of the other handles
   (shift_insert / shift_remove); [htrace] is the list of pure operations the document undergoes.

   What the code does with a stale handle (its paragraph was removed by remove_paragraph): the
   paragraph lives on as a detached tree; set / insert / remove / rename through the handle edit
   that tree and nothing else.  It is observable through the handles of that paragraph only
   (Paragraph::to_string, items, ...), never in the document: [Dead j] in the theorems below.
   No operation of this API makes a handle silently stop aliasing: all edits are in place
   (no `self.0 = SyntaxNode::new_root_mut(..)`), unlike relations.rs (C11).

   Domain: documents whose root has only nodes as children [doc_ok]: every parsed text, every
   document built by the constructors, every live document (C04H_start).  Deb822 is not Clone, so
   there is one document handle (register 0); paragraph handles are unlimited. *)
From V.model Require Import Base Deb822Lex Deb822Parse Grammar Lossy Deb822Edit LiveDoc LiveTree Deb822Store Deb822Handles.
From V.proofs Require Import Deb822EditP LiveDocP LiveParaP LiveDocEvP LiveParaEvP.
From V.proofs Require Import Deb822StoreP Deb822StoreOpsP Deb822StoreParaP Deb822StoreDocP Deb822HandlesP Deb822HandlesEvP.

(* 1. One instruction.  R st a: register 0 holds the root of the tree of the document a_doc a (a doc_ok tree); the detached paragraphs a_dead a are trees of their own; every paragraph register holds the handle its abstract value denotes ((tree of the document, [slot of the n-th paragraph]) for Live n, the root of the j-th detached tree for Dead j).  Every instruction runs without panic and re-establishes R for hstep: (1) no panic, (2) the root tree is the pure model's, (3) every handle denotes the same paragraph node, at its shifted position, or the detached paragraph *)
Theorem C04H_step : forall o st a, R st a ->
  exists x st', run_hop o st = Ok (x, st') /\ R st' (hstep o a).
Proof. exact hop_refines. Qed.
Check C04H_step : forall o st a, R st a ->
  exists x st', run_hop o st = Ok (x, st') /\ R st' (hstep o a).
Print Assumptions C04H_step.

(* 2. Histories: any program (handles taken by paragraphs().nth(i) at any time, returned by add/insert_paragraph, free-standing paragraphs; edits through any of them; paragraphs added, inserted, removed), from any doc_ok document: no panic; the root tree is fold_left tstep2 of the pure model over the trace (each edit applied at the position its handle's paragraph has at that moment); through every register one sees the paragraph its abstract value denotes *)
Theorem C04H_history : forall prog t nregs, doc_ok t ->
  let a0 := astart t nregs in
  exists st', run_hops prog (start_state t nregs) = Ok st' /\
              root_tree st' = Ok (fold_left tstep2 (htrace prog a0) t) /\
              (forall k, reg_tree k st' = denotes (hsteps prog a0) k) /\
              a_doc (hsteps prog a0) = fold_left tstep2 (htrace prog a0) t.
Proof. exact handles_history. Qed.
Check C04H_history : forall prog t nregs, doc_ok t ->
  let a0 := astart t nregs in
  exists st', run_hops prog (start_state t nregs) = Ok st' /\
              root_tree st' = Ok (fold_left tstep2 (htrace prog a0) t) /\
              (forall k, reg_tree k st' = denotes (hsteps prog a0) k) /\
              a_doc (hsteps prog a0) = fold_left tstep2 (htrace prog a0) t.
Print Assumptions C04H_history.

(* what is observed in a state: Deb822::to_string() prints the abstract document; Paragraph::to_string() through register k prints the paragraph that is currently the n-th one (Live n), or the detached paragraph (Dead j) *)
Theorem C04H_observe : forall st a, R st a -> root_tree st = Ok (a_doc a) /\ forall k, reg_tree k st = denotes a k.
Proof. exact R_observe. Qed.
Check C04H_observe : forall st a, R st a -> root_tree st = Ok (a_doc a) /\ forall k, reg_tree k st = denotes a k.
Print Assumptions C04H_observe.

(* starting points: every parsed text (with or without syntax errors), every live document, every document built from pairs (incl. Deb822::new()) *)
Theorem C04H_start : (forall s t n, from_str_relaxed s = Ok (t, n) -> doc_ok t) /\
  (forall d, doc_ok (ltree_of d)) /\
  (forall l, doc_ok (deb822_of_paragraphs (map paragraph_of_pairs l))) /\
  (forall t nregs, doc_ok t -> R (start_state t nregs) (astart t nregs)).
Proof. exact (conj parsed_doc_ok (conj live_doc_ok (conj built_doc_ok R_start))). Qed.
Check C04H_start : (forall s t n, from_str_relaxed s = Ok (t, n) -> doc_ok t) /\
  (forall d, doc_ok (ltree_of d)) /\
  (forall l, doc_ok (deb822_of_paragraphs (map paragraph_of_pairs l))) /\
  (forall t nregs, doc_ok t -> R (start_state t nregs) (astart t nregs)).
Print Assumptions C04H_start.

(* 3. (4) of the task: C05_history_exact for histories through earlier handles: from any live document, when the arguments of the edits that reach the document are in the domain (ops_ok2 over the trace), the store's root tree is the live layout of the abstract history, reports the list-model content, and its text re-reads to the same non-empty paragraphs *)
Theorem C05_handles_history : forall prog d nregs, lwf d = true ->
  let a0 := astart (ltree_of d) nregs in
  let tr := htrace prog a0 in
  ops_ok2 d tr ->
  exists st' t', run_hops prog (start_state (ltree_of d) nregs) = Ok st' /\
    root_tree st' = Ok t' /\
    t' = ltree_of (fold_left astep2 tr d) /\ lwf (fold_left astep2 tr d) = true /\
    doc_items t' = fold_left sstep2 tr (doc_items (ltree_of d)) /\
    (forall k, reg_tree k st' = denotes (hsteps prog a0) k) /\
    exists t'', from_str (text t') = Ok t'' /\ doc_items t'' = nonempty_paras (doc_items t').
Proof. exact handles_C05. Qed.
Check C05_handles_history : forall prog d nregs, lwf d = true ->
  let a0 := astart (ltree_of d) nregs in
  let tr := htrace prog a0 in
  ops_ok2 d tr ->
  exists st' t', run_hops prog (start_state (ltree_of d) nregs) = Ok st' /\
    root_tree st' = Ok t' /\
    t' = ltree_of (fold_left astep2 tr d) /\ lwf (fold_left astep2 tr d) = true /\
    doc_items t' = fold_left sstep2 tr (doc_items (ltree_of d)) /\
    (forall k, reg_tree k st' = denotes (hsteps prog a0) k) /\
    exists t'', from_str (text t') = Ok t'' /\ doc_items t'' = nonempty_paras (doc_items t').
Print Assumptions C05_handles_history.

(* and C04_history_exact for programs that only edit fields (through any handles) *)
Theorem C04_handles_history : forall prog d nregs, lwf d = true -> forallb field_only prog = true ->
  let a0 := astart (ltree_of d) nregs in
  let tr := fops_of (htrace prog a0) in
  ops_ok d tr ->
  exists st' t', run_hops prog (start_state (ltree_of d) nregs) = Ok st' /\
    root_tree st' = Ok t' /\
    t' = ltree_of (fold_left astep tr d) /\ lwf (fold_left astep tr d) = true /\
    doc_items t' = fold_left sstep tr (doc_items (ltree_of d)) /\
    (forall k, reg_tree k st' = denotes (hsteps prog a0) k) /\
    exists t'', from_str (text t') = Ok t'' /\ doc_items t'' = nonempty_paras (doc_items t').
Proof. exact handles_C04. Qed.
Check C04_handles_history : forall prog d nregs, lwf d = true -> forallb field_only prog = true ->
  let a0 := astart (ltree_of d) nregs in
  let tr := fops_of (htrace prog a0) in
  ops_ok d tr ->
  exists st' t', run_hops prog (start_state (ltree_of d) nregs) = Ok st' /\
    root_tree st' = Ok t' /\
    t' = ltree_of (fold_left astep tr d) /\ lwf (fold_left astep tr d) = true /\
    doc_items t' = fold_left sstep tr (doc_items (ltree_of d)) /\
    (forall k, reg_tree k st' = denotes (hsteps prog a0) k) /\
    exists t'', from_str (text t') = Ok t'' /\ doc_items t'' = nonempty_paras (doc_items t').
Print Assumptions C04_handles_history.

(* 3'. the same two in the full domain of C04 (4) (props/C04.v C04_history, props/C05.v
   C05_history: every rename with a valid new name, whatever value the renamed field carries):
   the store's root tree is the tree of the live layout up to empty VALUE tokens (live_tree). *)
Theorem C05_handles_history_every : forall prog d nregs, lwf d = true ->
  let a0 := astart (ltree_of d) nregs in
  let tr := htrace prog a0 in
  Forall op_dom2 tr ->
  exists st' t', run_hops prog (start_state (ltree_of d) nregs) = Ok st' /\
    root_tree st' = Ok t' /\
    live_tree t' (fold_left astep2 tr d) /\ lwf (fold_left astep2 tr d) = true /\
    doc_items t' = fold_left sstep2 tr (doc_items (ltree_of d)) /\
    (forall k, reg_tree k st' = denotes (hsteps prog a0) k) /\
    exists t'', from_str (text t') = Ok t'' /\ doc_items t'' = nonempty_paras (doc_items t').
Proof. exact handles_C05_every. Qed.
Check C05_handles_history_every : forall prog d nregs, lwf d = true ->
  let a0 := astart (ltree_of d) nregs in
  let tr := htrace prog a0 in
  Forall op_dom2 tr ->
  exists st' t', run_hops prog (start_state (ltree_of d) nregs) = Ok st' /\
    root_tree st' = Ok t' /\
    live_tree t' (fold_left astep2 tr d) /\ lwf (fold_left astep2 tr d) = true /\
    doc_items t' = fold_left sstep2 tr (doc_items (ltree_of d)) /\
    (forall k, reg_tree k st' = denotes (hsteps prog a0) k) /\
    exists t'', from_str (text t') = Ok t'' /\ doc_items t'' = nonempty_paras (doc_items t').
Print Assumptions C05_handles_history_every.

Theorem C04_handles_history_every : forall prog d nregs, lwf d = true -> forallb field_only prog = true ->
  let a0 := astart (ltree_of d) nregs in
  let tr := fops_of (htrace prog a0) in
  Forall op_dom tr ->
  exists st' t', run_hops prog (start_state (ltree_of d) nregs) = Ok st' /\
    root_tree st' = Ok t' /\
    live_tree t' (fold_left astep tr d) /\ lwf (fold_left astep tr d) = true /\
    doc_items t' = fold_left sstep tr (doc_items (ltree_of d)) /\
    (forall k, reg_tree k st' = denotes (hsteps prog a0) k) /\
    exists t'', from_str (text t') = Ok t'' /\ doc_items t'' = nonempty_paras (doc_items t').
Proof. exact handles_C04_every. Qed.
Check C04_handles_history_every : forall prog d nregs, lwf d = true -> forallb field_only prog = true ->
  let a0 := astart (ltree_of d) nregs in
  let tr := fops_of (htrace prog a0) in
  Forall op_dom tr ->
  exists st' t', run_hops prog (start_state (ltree_of d) nregs) = Ok st' /\
    root_tree st' = Ok t' /\
    live_tree t' (fold_left astep tr d) /\ lwf (fold_left astep tr d) = true /\
    doc_items t' = fold_left sstep tr (doc_items (ltree_of d)) /\
    (forall k, reg_tree k st' = denotes (hsteps prog a0) k) /\
    exists t'', from_str (text t') = Ok t'' /\ doc_items t'' = nonempty_paras (doc_items t').
Print Assumptions C04_handles_history_every.

(* 4. The store level on ANY tree: Paragraph::set through a handle at any path p of any tree tid rewrites exactly the children of the node at p by Deb822Edit.para_set (visible through every other handle into that tree), leaves all other trees alone and moves no handle that is not strictly below that node (para_frame); the same for insert, remove, rename (Deb822StoreParaP.v) *)
Theorem C04H_paragraph_set_store : forall ts rs r tid ri T p k cs key v,
  nth_error rs r = Some (Some (mk_hnd tid p)) ->
  nth_error ts tid = Some (mk_slot ri T) -> get_path T p = Some (Node k cs) ->
  exists ts' F,
    runs (paragraph_set r key v) (mk_state ts rs) tt (mk_state ts' (map (option_map F) rs)) /\
    nth_error ts' tid = Some (mk_slot ri (upd_path T p (fun _ => Node k (para_set cs key v)))) /\
    para_frame ts ts' F tid p.
Proof. exact paragraph_set_spec. Qed.
Check C04H_paragraph_set_store : forall ts rs r tid ri T p k cs key v,
  nth_error rs r = Some (Some (mk_hnd tid p)) ->
  nth_error ts tid = Some (mk_slot ri T) -> get_path T p = Some (Node k cs) ->
  exists ts' F,
    runs (paragraph_set r key v) (mk_state ts rs) tt (mk_state ts' (map (option_map F) rs)) /\
    nth_error ts' tid = Some (mk_slot ri (upd_path T p (fun _ => Node k (para_set cs key v)))) /\
    para_frame ts ts' F tid p.
Print Assumptions C04H_paragraph_set_store.

(* the helper ensure_trailing_newline (last_token, a NEWLINE token taken out of a new EMPTY_LINE tree and spliced in after it) computes Deb822Edit.ensure_nl *)
Theorem C04H_ensure_trailing_newline_store : forall ts rs r tid ri T p k cs,
  nth_error rs r = Some (Some (mk_hnd tid p)) ->
  nth_error ts tid = Some (mk_slot ri T) -> get_path T p = Some (Node k cs) ->
  exists ts' F,
    runs (ensure_trailing_newline r) (mk_state ts rs) tt (mk_state ts' (map (option_map F) rs)) /\
    length ts <= length ts' /\
    nth_error ts' tid = Some (mk_slot ri (upd_path T p (fun _ => Node k (ensure_nl_list cs)))) /\
    (forall j, j <> tid -> j < length ts -> nth_error ts' j = nth_error ts j) /\
    (forall g, h_tid g < length ts -> near tid p (length cs) g -> F g = g).
Proof. exact ensure_trailing_newline_spec. Qed.
Check C04H_ensure_trailing_newline_store : forall ts rs r tid ri T p k cs,
  nth_error rs r = Some (Some (mk_hnd tid p)) ->
  nth_error ts tid = Some (mk_slot ri T) -> get_path T p = Some (Node k cs) ->
  exists ts' F,
    runs (ensure_trailing_newline r) (mk_state ts rs) tt (mk_state ts' (map (option_map F) rs)) /\
    length ts <= length ts' /\
    nth_error ts' tid = Some (mk_slot ri (upd_path T p (fun _ => Node k (ensure_nl_list cs)))) /\
    (forall j, j <> tid -> j < length ts -> nth_error ts' j = nth_error ts j) /\
    (forall g, h_tid g < length ts -> near tid p (length cs) g -> F g = g).
Print Assumptions C04H_ensure_trailing_newline_store.

(* Non-vacuity: the document "#x\nA: 1\n\nB: 2\n\nC: 3" (a leading comment, no final newline) and a
   program with four handles taken at different times:
     h0 = paragraphs().nth(2)            (C, before any edit)
     h1 = insert_paragraph(0)            (the returned handle)
     h2 = paragraphs().nth(2)            (taken after the insert: now B)
     remove_paragraph(1)                 (A goes)
     h0.set(X, x); h1.set(Y, y); h2.set(Z, z)
     h3 = paragraphs().nth(0)            (a second handle to the inserted paragraph)
     remove_paragraph(0)                 (h1 and h3 are stale now)
     h3.insert(W, w)                     (edits the detached paragraph)
     h1 = add_paragraph(); h1.rename(Q, R) (not found); h0.remove(C)
   The trace of pure operations, the final text, the content and what each handle shows are
   computed on the store machine and agree with the abstract history: h0 is Live 1, h2 Live 0,
   h1 Live 2 (the added paragraph), h3 Dead 1 showing Y: y, W: w — which the document does not. *)
Example C04H_ex :
  let f1 := mk_field [65]%N [32]%N [49]%N [] true in
  let f2 := mk_field [66]%N [32]%N [50]%N [] true in
  let f3 := mk_field [67]%N [32]%N [51]%N [] false in
  let d := lift [BComment [120]%N true; BPara f1 []; BBlank; BPara f2 []; BBlank; BPara f3 []] in
  let prog := [HPara 0 2; HInsertP 1 0; HPara 2 2; HRemoveP 1; HSet 0 [88]%N [120]%N; HSet 1 [89]%N [121]%N; HSet 2 [90]%N [122]%N;
               HPara 3 0; HRemoveP 0; HInsert 3 [87]%N [119]%N; HAdd 1; HRename 1 [81]%N [82]%N; HRemove 0 [67]%N] in
  let a0 := astart (ltree_of d) 4 in
  lwf d = true /\ ops_ok2 d (htrace prog a0) /\
  htrace prog a0 = [DInsert 0; DRemove 1; DF (OSet 2 [88]%N [120]%N); DF (OSet 0 [89]%N [121]%N); DF (OSet 1 [90]%N [122]%N);
                    DRemove 0; DAdd; DF (ORename 2 [81]%N [82]%N); DF (ORemove 1 [67]%N)] /\
  a_regs (hsteps prog a0) = [Some (Live 1); Some (Live 2); Some (Live 0); Some (Dead 1)] /\
  exists st', run_hops prog (start_state (ltree_of d) 4) = Ok st' /\
    option_map text (match root_tree st' with Ok t => Some t | _ => None end)
      = Some [35; 120; 10; 66; 58; 32; 50; 10; 90; 58; 32; 122; 10; 10; 88; 58; 32; 120; 10; 10]%N /\
    map (fun k => option_map items (reg_tree k st')) [0; 1; 2; 3]
      = [Some [([88], [120])]; Some []; Some [([66], [50]); ([90], [122])]; Some [([89], [121]); ([87], [119])]]%N.
Proof.
  cbv zeta. split; [vm_compute; reflexivity|]. split.
  { vm_compute htrace. cbn [ops_ok2 op_ok2 op_ok]. repeat split; try exact I; try (vm_compute; reflexivity).
    intros f Hf. match goal with H : nth_para _ _ = Some _ |- _ => vm_compute in H; inversion H; subst end. vm_compute in Hf. discriminate. }
  split; [vm_compute; reflexivity|]. split; [vm_compute; reflexivity|].
  eexists. split; [vm_compute; reflexivity|]. split; vm_compute; reflexivity.
Qed.

(* Non-vacuity of 3': fields without a value ("A:" LF, and "C: " as the unterminated last line)
   renamed through handles taken before and after; renamed again through a second handle (the
   entry then holds the empty VALUE token); the paragraph removed, and renamed once more through
   the stale handles (Dead: seen through them only). *)
Example C04H_ex_every :
  let fa := mk_field [65]%N [] [] [] true in
  let fb := mk_field [66]%N [32]%N [49]%N [] true in
  let fc := mk_field [67]%N [32]%N [] [] false in
  let d := lift [BPara fa [IField fb]; BBlank; BPara fc []] in
  let prog := [HPara 0 0; HPara 1 1; HRename 0 [65]%N [69]%N; HPara 2 0; HRename 2 [69]%N [70]%N; HRemoveP 0; HRename 1 [67]%N [71]%N;
               HSet 1 [72]%N [104]%N; HRename 0 [70]%N [73]%N] in
  let a0 := astart (ltree_of d) 4 in
  lwf d = true /\ Forall op_dom2 (htrace prog a0) /\
  htrace prog a0 = [DF (ORename 0 [65]%N [69]%N); DF (ORename 0 [69]%N [70]%N); DRemove 0; DF (ORename 0 [67]%N [71]%N);
                    DF (OSet 0 [72]%N [104]%N)] /\
  a_regs (hsteps prog a0) = [Some (Dead 0); Some (Live 0); Some (Dead 0); None] /\
  exists st', run_hops prog (start_state (ltree_of d) 4) = Ok st' /\
    option_map text (match root_tree st' with Ok t => Some t | _ => None end)
      = Some [71; 58; 32; 10; 72; 58; 32; 104; 10]%N /\
    map (fun k => option_map items (reg_tree k st')) [0; 1; 2; 3]
      = [Some [([73], []); ([66], [49])]; Some [([71], []); ([72], [104])]; Some [([73], []); ([66], [49])]; None]%N.
Proof.
  cbv zeta. split; [vm_compute; reflexivity|]. split.
  { vm_compute htrace. repeat constructor; vm_compute; reflexivity. }
  split; [vm_compute; reflexivity|]. split; [vm_compute; reflexivity|].
  eexists. split; [vm_compute; reflexivity|]. split; vm_compute; reflexivity.
Qed.
