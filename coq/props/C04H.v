(* C04H — edits through handles obtained earlier (store-level counterpart of C04/C05). *)
From V.model Require Import Base Deb822Lex Deb822Parse Deb822Edit Deb822Store.
