(* C15 — typed accessors: what a setter writes its getter reads; nothing else moves.
   Statements only; proofs in proofs/AccessorsP.v.

   The accessor functions of the lossless typed views are read from /repo by
   translate/accessors.py into gen/Accessors_gen.v (table, spec, enums — data only);
   model/Accessors.v gives every row its meaning over a paragraph implementation:
   TI = the tree model of src/lossless.rs (Deb822Edit.para_set / para_insert / para_remove on the
   children of a PARAGRAPH node, Deb822Parse.get), LI = the list model (Lossy.l_set ...).

   Quantifiers.  Every theorem below is stated for EVERY paragraph (every list of children of a
   PARAGRAPH node: the field absent, present once or several times, comments and other fields
   anywhere — no well-formedness hypothesis), every context c (the parsers of the external
   crates url / debversion / chrono are a parameter: any function; the keyword-enum tables are a
   parameter), every string argument, and every value satisfying the decidable valid_value.
   The rows range over EVERY table satisfying the decidable ok_accessors; the instance for the
   table generated from /repo is closed by vm_compute (C15_table). *)
From V.model Require Import Base Deb822Lex Deb822Parse Grammar Lossy Deb822Edit LiveDoc Copyright Accessors.
From V.proofs Require Import BaseP GrammarAccP LossyRtP Deb822EditP AccessorsP.
From V.gen Require Import Accessors_gen.

(* string constants used in the statements below *)
Module Lits.
  Import Coq.Strings.String.
  Local Open Scope string_scope.
  Definition s2l_Forwarded : str := Eval compute in s2l "Forwarded".
  Definition s_control_Source : str := Eval compute in s2l "control::Source".
  Definition s_control_Binary : str := Eval compute in s2l "control::Binary".
  Definition s_apt_Release : str := Eval compute in s2l "apt::Release".
  Definition s_apt_Source : str := Eval compute in s2l "apt::Source".
  Definition s_dep3 : str := Eval compute in s2l "dep3::PatchHeader".
  Definition s_buildinfo : str := Eval compute in s2l "buildinfo::Buildinfo".
  Definition s_maintainer : str := Eval compute in s2l "maintainer".
  Definition s_depends : str := Eval compute in s2l "depends".
  Definition s_essential : str := Eval compute in s2l "essential".
  Definition s_architectures : str := Eval compute in s2l "architectures".
  Definition s_files : str := Eval compute in s2l "files".
  Definition s_uploaders : str := Eval compute in s2l "uploaders".
  Definition s_forwarded : str := Eval compute in s2l "forwarded".
  Definition s_origin : str := Eval compute in s2l "origin".
  Definition s_binaries : str := Eval compute in s2l "binaries".
  Definition s_optional : str := Eval compute in s2l "optional".
  Definition s_rel_example : str := Eval compute in s2l "a (>= 1.0), b | c".
  Definition s_misc_depends : str := Eval compute in s2l "${misc:Depends}, b".
  Definition s_para_example : str := Eval compute in (s2l "Source: x" ++ [10%N] ++ s2l "# c" ++ [10%N] ++ s2l "Maintainer: A" ++ [10%N] ++ s2l "Section: y" ++ [10%N])%list.
  Definition s_para_after : str := Eval compute in (s2l "Source: x" ++ [10%N] ++ s2l "# c" ++ [10%N] ++ s2l "Maintainer: optional" ++ [10%N] ++ s2l "Section: y" ++ [10%N])%list.
  Definition s_up1 : str := Eval compute in s2l "A <a@x>".
  Definition s_up2 : str := Eval compute in s2l "B <b@y>".
  Definition s_uploaders_raw : str := Eval compute in (s2l "A <a@x>," ++ [10%N] ++ s2l "B <b@y>")%list.
  Definition s_amd64 : str := Eval compute in s2l "amd64".
  Definition s_arm64 : str := Eval compute in s2l "arm64".
  Definition s_arch_raw : str := Eval compute in (s2l "amd64" ++ [10%N] ++ s2l "arm64 ")%list.
  Definition s_Vcs_Git : str := Eval compute in s2l "Vcs-Git".
  Definition s_vcs_raw : str := Eval compute in s2l "https://x/y.git -b main [sub]".
  Definition s_vcs_url : str := Eval compute in s2l "https://x/y.git".
  Definition s_main : str := Eval compute in s2l "main".
  Definition s_sub : str := Eval compute in s2l "sub".
End Lits.
Import Lits.

(* ------------------------------------------------------------------ 1. the table of /repo *)
(* every getter's literal is the documented name of spec/field_names.tsv (and follows the
   mechanical rule or is a listed exception), its codec is the documented reading; every setter
   writes the same literal with set/remove (not insert) and a codec whose pair is in the
   round-trip catalogue; every hand-modelled function still has the body that was modelled;
   nothing is Unrecognised. *)
Theorem C15_table : ok_accessors Accessors_gen.spec Accessors_gen.table = true.
Proof. vm_compute. reflexivity. Qed.
Check C15_table : ok_accessors Accessors_gen.spec Accessors_gen.table = true.
Print Assumptions C15_table.

Theorem C15_enums : forallb ok_enum Accessors_gen.enums = true.
Proof. vm_compute. reflexivity. Qed.
Check C15_enums : forallb ok_enum Accessors_gen.enums = true.
Print Assumptions C15_enums.

(* ------------------------------------------------------------------ 2. setter, then getter *)
(* For every getter x / setter set_x of a table that passed ok_accessors: *)
Definition C15_pairs (sp : list spec_entry) (t : list row) : Prop :=
  forall g s, In g t -> r_role g = RGetter -> r_op g = OGet ->
    find_row t (r_ty g) (setter_name (r_method g)) = Some s ->
    exists e, find_spec sp (r_ty g) (r_method g) = Some e /\
      (* both use the documented field name *)
      r_fields g = [s_field e] /\ r_fields s = [s_field e] /\
      (s_exception e = true \/ title_hyphen (r_method g) = s_field e) /\
      forall c arg v cs, valid_value c (r_codec g) (r_op s) (r_codec s) v = true ->
        exists cs' raw,
          encode (r_op s) (r_codec s) v = Some raw /\
          setter c TI s arg v cs = Ok cs' /\
          (* the getter returns the value (wrapped in Some when the getter returns an Option and
             the setter takes a plain value) *)
          getter c TI g arg cs' = Ok (expect (r_codec g) (r_op s) (r_codec s) v) /\
          (* the items: the first field of that name is replaced in place, or the field is
             appended; a clearing setter removes every field of that name *)
          pitems cs' = match raw with
                       | Some x => l_set (pitems cs) (s_field e) x
                       | None => l_remove (pitems cs) (s_field e)
                       end /\
          (* every other field keeps name, value and position *)
          l_remove (pitems cs') (s_field e) = l_remove (pitems cs) (s_field e) /\
          (* exactly one field of that name afterwards if there was at most one before; none after clearing *)
          count_key (s_field e) (pitems cs') =
            match raw with Some _ => Nat.max 1 (count_key (s_field e) (pitems cs)) | None => 0 end /\
          (* the tree: every other child of the paragraph node (comments, other entries) is untouched *)
          match raw with
          | Some x => (exists X en Y, cs = X ++ en :: Y /\ entry_has_key (s_field e) en = true /\
                                      cs' = X ++ entry_new (s_field e) x :: Y) \/
                      cs' = ensure_nl_list cs ++ [entry_new (s_field e) x]
          | None => cs' = filter (fun en => negb (entry_has_key (s_field e) en)) cs
          end.

Theorem C15_pair : forall sp t, ok_accessors sp t = true -> C15_pairs sp t.
Proof.
  intros sp t Hok g s Hg Hr Ho Hs.
  destruct (ok_accessors_getter sp t g Hok Hg Hr) as (e & He & Hp). rewrite Hs in Hp.
  destruct (ok_pair_sound e g s Hp Ho) as (Fg & Fs & Hpo).
  destruct (ok_getter_field e g) as (_ & _ & Hn); [unfold ok_pair in Hp; apply andb_true_iff in Hp; apply Hp|exact Ho|].
  exists e. split; [exact He|]. split; [exact Fg|]. split; [exact Fs|]. split; [exact Hn|].
  intros c arg v cs Hv.
  destruct (pair_tree c g s arg v cs (Hpo arg) Hv) as (f & cs' & raw & F1 & E1 & E2 & E3 & E4 & E5 & E6 & E7).
  assert (f = s_field e).
  { unfold row_field in F1. rewrite Fs in F1. destruct (r_op s); inversion F1; reflexivity. }
  subst f. exists cs', raw. repeat split; assumption.
Qed.
Check C15_pair : forall sp t, ok_accessors sp t = true -> C15_pairs sp t.
Print Assumptions C15_pair.

Theorem C15_pairs_of_repo : C15_pairs Accessors_gen.spec Accessors_gen.table.
Proof. exact (C15_pair _ _ C15_table). Qed.
Check C15_pairs_of_repo : C15_pairs Accessors_gen.spec Accessors_gen.table.
Print Assumptions C15_pairs_of_repo.

(* every plain getter of the table (with or without a setter) reads the first field carrying the
   documented name and gives the documented reading of its raw value *)
Theorem C15_getters : forall sp t g, ok_accessors sp t = true -> In g t -> r_role g = RGetter -> r_op g = OGet ->
  exists e, find_spec sp (r_ty g) (r_method g) = Some e /\
    r_fields g = [s_field e] /\ reading_ok (s_reading e) (r_codec g) = true /\
    (s_exception e = true \/ title_hyphen (r_method g) = s_field e) /\
    forall c arg cs, getter c TI g arg cs = decode c (r_codec g) (l_get (pitems cs) (s_field e)).
Proof. exact ok_accessors_plain_getter. Qed.
Check C15_getters : forall sp t g, ok_accessors sp t = true -> In g t -> r_role g = RGetter -> r_op g = OGet ->
  exists e, find_spec sp (r_ty g) (r_method g) = Some e /\
    r_fields g = [s_field e] /\ reading_ok (s_reading e) (r_codec g) = true /\
    (s_exception e = true \/ title_hyphen (r_method g) = s_field e) /\
    forall c arg cs, getter c TI g arg cs = decode c (r_codec g) (l_get (pitems cs) (s_field e)).
Print Assumptions C15_getters.

(* the same for any two rows with the semantic side condition pair_ok (also the accessors whose
   field name is an argument: Package::tags / set_tags), on the list model and on the tree *)
Theorem C15_pair_any : forall c g s arg v cs,
  pair_ok g s arg = true -> valid_value c (r_codec g) (r_op s) (r_codec s) v = true ->
  exists f cs' raw, row_field s arg = Some f /\ encode (r_op s) (r_codec s) v = Some raw /\
    setter c TI s arg v cs = Ok cs' /\
    getter c TI g arg cs' = Ok (expect (r_codec g) (r_op s) (r_codec s) v) /\
    pitems cs' = match raw with Some t => l_set (pitems cs) f t | None => l_remove (pitems cs) f end /\
    l_remove (pitems cs') f = l_remove (pitems cs) f /\
    count_key f (pitems cs') = match raw with Some _ => Nat.max 1 (count_key f (pitems cs)) | None => 0 end /\
    match raw with
    | Some t => (exists X e Y, cs = X ++ e :: Y /\ entry_has_key f e = true /\ cs' = X ++ entry_new f t :: Y) \/
                cs' = ensure_nl_list cs ++ [entry_new f t]
    | None => cs' = filter (fun e => negb (entry_has_key f e)) cs
    end.
Proof. exact pair_tree. Qed.
Check C15_pair_any : forall c g s arg v cs,
  pair_ok g s arg = true -> valid_value c (r_codec g) (r_op s) (r_codec s) v = true ->
  exists f cs' raw, row_field s arg = Some f /\ encode (r_op s) (r_codec s) v = Some raw /\
    setter c TI s arg v cs = Ok cs' /\
    getter c TI g arg cs' = Ok (expect (r_codec g) (r_op s) (r_codec s) v) /\
    pitems cs' = match raw with Some t => l_set (pitems cs) f t | None => l_remove (pitems cs) f end /\
    l_remove (pitems cs') f = l_remove (pitems cs) f /\
    count_key f (pitems cs') = match raw with Some _ => Nat.max 1 (count_key f (pitems cs)) | None => 0 end /\
    match raw with
    | Some t => (exists X e Y, cs = X ++ e :: Y /\ entry_has_key f e = true /\ cs' = X ++ entry_new f t :: Y) \/
                cs' = ensure_nl_list cs ++ [entry_new f t]
    | None => cs' = filter (fun e => negb (entry_has_key f e)) cs
    end.
Print Assumptions C15_pair_any.

Theorem C15_param_pairs : forall e g s, ok_pair e g s = true -> r_op g = OGetParam -> forall arg, pair_ok g s arg = true.
Proof. exact ok_pair_sound_param. Qed.
Check C15_param_pairs : forall e g s, ok_pair e g s = true -> r_op g = OGetParam -> forall arg, pair_ok g s arg = true.
Print Assumptions C15_param_pairs.

(* clearing setters (set_x(None), set_essential(false)) remove the field *)
Theorem C15_clear : forall c g s arg v cs,
  pair_ok g s arg = true -> valid_value c (r_codec g) (r_op s) (r_codec s) v = true ->
  encode (r_op s) (r_codec s) v = Some None ->
  exists f, row_field s arg = Some f /\
    setter c TI s arg v cs = Ok (para_remove cs f) /\
    Deb822Parse.get (Node PARAGRAPH (para_remove cs f)) f = None /\
    pitems (para_remove cs f) = l_remove (pitems cs) f /\
    getter c TI g arg (para_remove cs f) = Ok (expect (r_codec g) (r_op s) (r_codec s) v).
Proof. exact clear_tree. Qed.
Check C15_clear : forall c g s arg v cs,
  pair_ok g s arg = true -> valid_value c (r_codec g) (r_op s) (r_codec s) v = true ->
  encode (r_op s) (r_codec s) v = Some None ->
  exists f, row_field s arg = Some f /\
    setter c TI s arg v cs = Ok (para_remove cs f) /\
    Deb822Parse.get (Node PARAGRAPH (para_remove cs f)) f = None /\
    pitems (para_remove cs f) = l_remove (pitems cs) f /\
    getter c TI g arg (para_remove cs f) = Ok (expect (r_codec g) (r_op s) (r_codec s) v).
Print Assumptions C15_clear.

(* the law of the codec catalogue behind C15_pair: what the setter writes (or that it removes the
   field) the getter reads back, for every pair of codecs in rt_law *)
Theorem C15_codec_law : forall c g op s v,
  rt_law g s = true -> op_ok g op s = true -> valid_value c g op s v = true ->
  exists raw, encode op s v = Some raw /\ decode c g raw = Ok (expect g op s v).
Proof. exact codec_roundtrip. Qed.
Check C15_codec_law : forall c g op s v,
  rt_law g s = true -> op_ok g op s = true -> valid_value c g op s v = true ->
  exists raw, encode op s v = Some raw /\ decode c g raw = Ok (expect g op s v).
Print Assumptions C15_codec_law.

(* the accessors on the tree are the accessors on items(): every getter and every setter,
   including the hand-modelled ones *)
Theorem C15_refines : forall c r arg v cs,
  getter c TI r arg cs = getter c LI r arg (pitems cs) /\
  rmap pitems (setter c TI r arg v cs) = setter c LI r arg v (pitems cs).
Proof. intros. split; [apply (getter_refines TI pitems TI_refines)|apply (setter_refines TI pitems TI_refines)]. Qed.
Check C15_refines : forall c r arg v cs,
  getter c TI r arg cs = getter c LI r arg (pitems cs) /\
  rmap pitems (setter c TI r arg v cs) = setter c LI r arg v (pitems cs).
Print Assumptions C15_refines.

(* ------------------------------------------------------------------ 3. several setters on one paragraph *)
(* fields no setter names keep name, value and order ... *)
Theorem C15_sequence_frame : forall c ops p p',
  forallb op_plain ops = true -> Forall (fun o => op_field o <> None) ops ->
  run_setters c LI ops p = Ok p' ->
  strip (written ops) p' = strip (written ops) p /\
  (forall k, ~ In k (written ops) -> l_get p' k = l_get p k).
Proof. exact run_setters_frame. Qed.
Check C15_sequence_frame : forall c ops p p',
  forallb op_plain ops = true -> Forall (fun o => op_field o <> None) ops ->
  run_setters c LI ops p = Ok p' ->
  strip (written ops) p' = strip (written ops) p /\
  (forall k, ~ In k (written ops) -> l_get p' k = l_get p k).
Print Assumptions C15_sequence_frame.

(* ... and each getter returns the value of the last setter that named its field *)
Theorem C15_sequence : forall c a g s arg v b p,
  pair_ok g s arg = true -> valid_value c (r_codec g) (r_op s) (r_codec s) v = true ->
  forallb op_plain b = true -> Forall (fun o => op_field o <> None) b ->
  (forall f, row_field s arg = Some f -> ~ In f (written b)) ->
  forall p1 p', run_setters c LI a p = Ok p1 -> run_setters c LI ((s, arg, v) :: b) p1 = Ok p' ->
  getter c LI g arg p' = Ok (expect (r_codec g) (r_op s) (r_codec s) v).
Proof. exact run_setters_last. Qed.
Check C15_sequence : forall c a g s arg v b p,
  pair_ok g s arg = true -> valid_value c (r_codec g) (r_op s) (r_codec s) v = true ->
  forallb op_plain b = true -> Forall (fun o => op_field o <> None) b ->
  (forall f, row_field s arg = Some f -> ~ In f (written b)) ->
  forall p1 p', run_setters c LI a p = Ok p1 -> run_setters c LI ((s, arg, v) :: b) p1 = Ok p' ->
  getter c LI g arg p' = Ok (expect (r_codec g) (r_op s) (r_codec s) v).
Print Assumptions C15_sequence.

(* ------------------------------------------------------------------ 3b. the printed text re-read *)
(* A plain setter on a paragraph is para_set / para_remove of its field (so on a document it is
   the C04 step OSet / ORemove on that paragraph) ... *)
Theorem C15_setter_tree : forall c s arg v cs f raw, row_field s arg = Some f ->
  match r_op s with OSet | OSetOrRemove | OSetParam => true | _ => false end = true ->
  encode (r_op s) (r_codec s) v = Some raw ->
  setter c TI s arg v cs =
    match raw with
    | Some t => Ok (para_set cs f t)
    | None => match r_op s with OSetParam => Err 9%N | _ => Ok (para_remove cs f) end
    end.
Proof. exact setter_TI_tree. Qed.
Check C15_setter_tree : forall c s arg v cs f raw, row_field s arg = Some f ->
  match r_op s with OSet | OSetOrRemove | OSetParam => true | _ => false end = true ->
  encode (r_op s) (r_codec s) v = Some raw ->
  setter c TI s arg v cs =
    match raw with
    | Some t => Ok (para_set cs f t)
    | None => match r_op s with OSetParam => Err 9%N | _ => Ok (para_remove cs f) end
    end.
Print Assumptions C15_setter_tree.

(* ... and a setter called through a paragraph handle is that operation on the n-th paragraph of the
   document tree (on_para): every other child of the root — other paragraphs, blank lines, comments
   between paragraphs — is untouched (C04's document frame, restated for a setter) *)
Theorem C15_document_frame : forall c s arg v t n,
  (exists A P B, children t = A ++ P :: B /\ is_paragraph P = true /\ length (filter is_paragraph A) = n /\
     forall cs', setter c TI s arg v (children P) = Ok cs' ->
       on_para t n (fun _ => cs') = Node ROOT (A ++ Node PARAGRAPH cs' :: B)) \/
  (length (filter is_paragraph (children t)) <= n).
Proof. exact setter_document_frame. Qed.
Check C15_document_frame : forall c s arg v t n,
  (exists A P B, children t = A ++ P :: B /\ is_paragraph P = true /\ length (filter is_paragraph A) = n /\
     forall cs', setter c TI s arg v (children P) = Ok cs' ->
       on_para t n (fun _ => cs') = Node ROOT (A ++ Node PARAGRAPH cs' :: B)) \/
  (length (filter is_paragraph (children t)) <= n).
Print Assumptions C15_document_frame.

(* ... hence, on every live document (LiveDoc.lwf: every parsed well-formed document, every document
   built from canonical pairs, closed under the edits — C04) and for a written text in C04's
   domain (canon_kv: valid name, non-empty lines without LF/CR that do not begin with a blank,
   continuation lines not beginning with '#'): the printed document re-reads without error, the
   re-read document holds the paragraph with the field set, and the getter on it returns the value *)
Theorem C15_reread : forall c g s arg v (d : ldocl) n p f raw,
  pair_ok g s arg = true -> valid_value c (r_codec g) (r_op s) (r_codec s) v = true ->
  row_field s arg = Some f -> encode (r_op s) (r_codec s) v = Some (Some raw) -> canon_kv f raw = true ->
  lwf d = true -> nth_error (doc_items (ltree_of d)) n = Some p ->
  let t' := on_para (ltree_of d) n (fun cs => para_set cs f raw) in
  exists t'', from_str (text t') = Ok t'' /\
    doc_items t'' = nonempty_paras (upd_nth n (fun q => l_set q f raw) (doc_items (ltree_of d))) /\
    In (l_set p f raw) (doc_items t'') /\
    getter c LI g arg (l_set p f raw) = Ok (expect (r_codec g) (r_op s) (r_codec s) v).
Proof. exact reread_after_set. Qed.
Check C15_reread : forall c g s arg v (d : ldocl) n p f raw,
  pair_ok g s arg = true -> valid_value c (r_codec g) (r_op s) (r_codec s) v = true ->
  row_field s arg = Some f -> encode (r_op s) (r_codec s) v = Some (Some raw) -> canon_kv f raw = true ->
  lwf d = true -> nth_error (doc_items (ltree_of d)) n = Some p ->
  let t' := on_para (ltree_of d) n (fun cs => para_set cs f raw) in
  exists t'', from_str (text t') = Ok t'' /\
    doc_items t'' = nonempty_paras (upd_nth n (fun q => l_set q f raw) (doc_items (ltree_of d))) /\
    In (l_set p f raw) (doc_items t'') /\
    getter c LI g arg (l_set p f raw) = Ok (expect (r_codec g) (r_op s) (r_codec s) v).
Print Assumptions C15_reread.

Theorem C15_reread_clear : forall (d : ldocl) n f, lwf d = true ->
  let t' := on_para (ltree_of d) n (fun cs => para_remove cs f) in
  exists t'', from_str (text t') = Ok t'' /\
    doc_items t'' = nonempty_paras (upd_nth n (fun q => l_remove q f) (doc_items (ltree_of d))).
Proof. exact reread_after_clear. Qed.
Check C15_reread_clear : forall (d : ldocl) n f, lwf d = true ->
  let t' := on_para (ltree_of d) n (fun cs => para_remove cs f) in
  exists t'', from_str (text t') = Ok t'' /\
    doc_items t'' = nonempty_paras (upd_nth n (fun q => l_remove q f) (doc_items (ltree_of d))).
Print Assumptions C15_reread_clear.

(* ------------------------------------------------------------------ 4. getters on parsed text *)
(* the value a getter sees is the value of the field in the document text: for every well-formed
   document (Grammar.wf_doc: every layout of C03) the reader accepts the text, and a getter on the
   n-th paragraph of the tree is the getter on the n-th paragraph of the content *)
Theorem C15_reading_text : forall d : list block, wf_doc d = true ->
  from_str (render d) = Ok (tree_of d) /\
  forall n P, nth_error (paragraphs (tree_of d)) n = Some P ->
    nth_error (content d) n = Some (items P) /\
    forall c g arg, getter c TI g arg (children P) = getter c LI g arg (items P).
Proof. exact reading_text. Qed.
Check C15_reading_text : forall d : list block, wf_doc d = true ->
  from_str (render d) = Ok (tree_of d) /\
  forall n P, nth_error (paragraphs (tree_of d)) n = Some P ->
    nth_error (content d) n = Some (items P) /\
    forall c g arg, getter c TI g arg (children P) = getter c LI g arg (items P).
Print Assumptions C15_reading_text.

(* comma-separated lists: blanks (incl. the line breaks of a folded field) around every item *)
Theorem C15_reading_comma : forall c l, nonempty l = true -> forallb comma_item_ok l = true ->
  decode c (CSplit SpComma true ANone) (Some (render_comma l)) = Ok (VSome (VList (map (fun x => snd (fst x)) l))).
Proof. exact reading_comma. Qed.
Check C15_reading_comma : forall c l, nonempty l = true -> forallb comma_item_ok l = true ->
  decode c (CSplit SpComma true ANone) (Some (render_comma l)) = Ok (VSome (VList (map (fun x => snd (fst x)) l))).
Print Assumptions C15_reading_comma.

(* whitespace-separated lists: any non-empty blank run (spaces, tabs, line breaks) between items,
   blanks before the first and after the last *)
Theorem C15_reading_ws : forall c tr ab lead l, all_ws lead = true -> seps_ok l = true ->
  decode c (CSplit SpWs tr ab) (Some (render_ws lead l)) =
  Ok (match ab with ANone => VSome (VList (map fst l)) | _ => VList (map fst l) end).
Proof. exact reading_ws. Qed.
Check C15_reading_ws : forall c tr ab lead l, all_ws lead = true -> seps_ok l = true ->
  decode c (CSplit SpWs tr ab) (Some (render_ws lead l)) =
  Ok (match ab with ANone => VSome (VList (map fst l)) | _ => VList (map fst l) end).
Print Assumptions C15_reading_ws.

(* line-separated lists *)
Theorem C15_reading_lines : forall c ab l, nonempty l = true -> forallb (no_char 10%N) l = true ->
  decode c (CSplit SpLf false ab) (Some (join [10%N] l)) = Ok (match ab with ANone => VSome (VList l) | _ => VList l end).
Proof. exact reading_lines. Qed.
Check C15_reading_lines : forall c ab l, nonempty l = true -> forallb (no_char 10%N) l = true ->
  decode c (CSplit SpLf false ab) (Some (join [10%N] l)) = Ok (match ab with ANone => VSome (VList l) | _ => VList l end).
Print Assumptions C15_reading_lines.

(* yes/no flags *)
Theorem C15_reading_flags : forall c,
  (forall raw, decode c CFlagYes raw = Ok (VBool (match raw with Some s => str_eqb s l_yes | None => false end))) /\
  (forall s, to_lower s = l_yes \/ to_lower s = l_no ->
             decode c CYesNoLower (Some s) = Ok (VSome (VBool (str_eqb (to_lower s) l_yes)))).
Proof. intros c. split; [apply reading_flag_yes|apply reading_yes_no_lower]. Qed.
Check C15_reading_flags : forall c,
  (forall raw, decode c CFlagYes raw = Ok (VBool (match raw with Some s => str_eqb s l_yes | None => false end))) /\
  (forall s, to_lower s = l_yes \/ to_lower s = l_no ->
             decode c CYesNoLower (Some s) = Ok (VSome (VBool (str_eqb (to_lower s) l_yes)))).
Print Assumptions C15_reading_flags.

(* checksum triples: one record per line, fields separated by blanks, digits read as a number,
   anything after the file name ignored *)
Theorem C15_reading_triples : forall c dflt xs, forallb triple_ok xs = true ->
  decode c (CLines RTriple dflt) (Some (join [10%N] (map render_triple xs))) =
  Ok (if dflt then VRecs (map triple_val xs) else VSome (VRecs (map triple_val xs))).
Proof. exact reading_triples. Qed.
Check C15_reading_triples : forall c dflt xs, forallb triple_ok xs = true ->
  decode c (CLines RTriple dflt) (Some (join [10%N] (map render_triple xs))) =
  Ok (if dflt then VRecs (map triple_val xs) else VSome (VRecs (map triple_val xs))).
Print Assumptions C15_reading_triples.

(* first description line / the lines after it *)
Theorem C15_reading_first_line : forall c first rest, no_char 10%N first = true ->
  decode c CFirstLine (Some (join [10%N] (first :: rest))) = Ok (VSome (VStr first)) /\
  decode c CRestLines (Some (join [10%N] (first :: rest))) = Ok (VSome (VStr (join [10%N] rest))).
Proof. exact reading_first_line. Qed.
Check C15_reading_first_line : forall c first rest, no_char 10%N first = true ->
  decode c CFirstLine (Some (join [10%N] (first :: rest))) = Ok (VSome (VStr first)) /\
  decode c CRestLines (Some (join [10%N] (first :: rest))) = Ok (VSome (VStr (join [10%N] rest))).
Print Assumptions C15_reading_first_line.

(* a Relations value is valid exactly when the strict relations reader accepts its text *)
Theorem C15_relations_valid : forall c s,
  valid_typed c TRelations (VStr s) = true <-> exists t, RelParse.relations_from_str s = Ok t.
Proof. exact rel_valid_iff. Qed.
Check C15_relations_valid : forall c s,
  valid_typed c TRelations (VStr s) = true <-> exists t, RelParse.relations_from_str s = Ok t.
Print Assumptions C15_relations_valid.

(* ------------------------------------------------------------------ 5. Control::source / binaries *)
(* source() is the first paragraph with a Source field, binaries() the paragraphs with a Package
   field in document order — in terms of the content of the document *)
Theorem C15_source_binary : forall t,
  control_source t = find_index (fun its => spec_contains its k_Source) (doc_items t) 0 /\
  control_binaries t = filter_index (fun its => spec_contains its k_Package) (doc_items t) 0 /\
  (match control_source t with
   | Some n => exists a x b, doc_items t = a ++ x :: b /\ n = length a /\ spec_contains x k_Source = true /\
                             forallb (fun y => negb (spec_contains y k_Source)) a = true
   | None => forallb (fun y => negb (spec_contains y k_Source)) (doc_items t) = true
   end) /\
  (forall n, In n (control_binaries t) <-> exists x, nth_error (doc_items t) n = Some x /\ spec_contains x k_Package = true).
Proof.
  intros t. destruct (control_select_items t) as [E1 E2]. split; [exact E1|]. split; [exact E2|]. split.
  - rewrite E1. pose proof (find_index_spec (fun its => spec_contains its k_Source) (doc_items t) 0) as H.
    destruct (find_index _ (doc_items t) 0); [|exact H]. destruct H as (a & x & b & H1 & H2 & H3 & H4). exists a, x, b. repeat split; assumption.
  - intros n. rewrite E2, filter_index_spec. rewrite Nat.sub_0_r. split.
    + intros (x & H1 & _ & H3). exists x. split; assumption.
    + intros (x & H1 & H3). exists x. repeat split; [exact H1|lia|exact H3].
Qed.
Check C15_source_binary : forall t,
  control_source t = find_index (fun its => spec_contains its k_Source) (doc_items t) 0 /\
  control_binaries t = filter_index (fun its => spec_contains its k_Package) (doc_items t) 0 /\
  (match control_source t with
   | Some n => exists a x b, doc_items t = a ++ x :: b /\ n = length a /\ spec_contains x k_Source = true /\
                             forallb (fun y => negb (spec_contains y k_Source)) a = true
   | None => forallb (fun y => negb (spec_contains y k_Source)) (doc_items t) = true
   end) /\
  (forall n, In n (control_binaries t) <-> exists x, nth_error (doc_items t) n = Some x /\ spec_contains x k_Package = true).
Print Assumptions C15_source_binary.

(* ------------------------------------------------------------------ 6. hand-modelled functions *)
(* DEP-3 set_description / description / long_description (the field is Description, else Subject) *)
Theorem C15_dep3_description : forall c p d, no_char 10%N d = true -> both_desc p = false ->
  let p' := dep3_set_description LI p d in
  decode c CFirstLine (desc_raw p') = Ok (VSome (VStr d)) /\
  decode c CRestLines (desc_raw p') =
    Ok (VSome (VStr (match desc_raw p with Some o => match rest_after_first_line o with Some r => r | None => [] end | None => [] end))) /\
  strip [k_Description; k_Subject] p' = strip [k_Description; k_Subject] p /\
  both_desc p' = false.
Proof. exact dep3_set_description_spec. Qed.
Check C15_dep3_description : forall c p d, no_char 10%N d = true -> both_desc p = false ->
  let p' := dep3_set_description LI p d in
  decode c CFirstLine (desc_raw p') = Ok (VSome (VStr d)) /\
  decode c CRestLines (desc_raw p') =
    Ok (VSome (VStr (match desc_raw p with Some o => match rest_after_first_line o with Some r => r | None => [] end | None => [] end))) /\
  strip [k_Description; k_Subject] p' = strip [k_Description; k_Subject] p /\
  both_desc p' = false.
Print Assumptions C15_dep3_description.

Theorem C15_dep3_long_description : forall c p l old, desc_raw p = Some old -> both_desc p = false ->
  let p' := dep3_set_long_description LI false p l in
  decode c CRestLines (desc_raw p') = Ok (VSome (VStr l)) /\
  decode c CFirstLine (desc_raw p') = decode c CFirstLine (desc_raw p) /\
  strip [k_Description; k_Subject] p' = strip [k_Description; k_Subject] p.
Proof. exact dep3_set_long_description_spec. Qed.
Check C15_dep3_long_description : forall c p l old, desc_raw p = Some old -> both_desc p = false ->
  let p' := dep3_set_long_description LI false p l in
  decode c CRestLines (desc_raw p') = Ok (VSome (VStr l)) /\
  decode c CFirstLine (desc_raw p') = decode c CFirstLine (desc_raw p) /\
  strip [k_Description; k_Subject] p' = strip [k_Description; k_Subject] p.
Print Assumptions C15_dep3_long_description.

(* the hypothesis both_desc = false is necessary: the setters look for Subject first, the getters
   for Description first (an observation recorded in docs/cones/C15.md) *)
Theorem C15_dep3_description_both_needed :
  let p := [(k_Description, [100%N]); (k_Subject, [115%N])] in
  decode (mk_ctx id_xparse []) CFirstLine (desc_raw (dep3_set_description LI p [110%N])) = Ok (VSome (VStr [100%N])).
Proof. exact dep3_description_both_needed. Qed.
Check C15_dep3_description_both_needed :
  let p := [(k_Description, [100%N]); (k_Subject, [115%N])] in
  decode (mk_ctx id_xparse []) CFirstLine (desc_raw (dep3_set_description LI p [110%N])) = Ok (VSome (VStr [100%N])).
Print Assumptions C15_dep3_description_both_needed.

Theorem C15_dep3_author : forall p a, (l_get p k_Author = None \/ l_get p k_From = None) ->
  let p' := dep3_set_author LI false p a in
  author_raw p' = Some a /\ strip [k_Author; k_From] p' = strip [k_Author; k_From] p /\
  count_key k_Author p' + count_key k_From p' = Nat.max 1 (count_key k_Author p + count_key k_From p).
Proof. exact dep3_set_author_spec. Qed.
Check C15_dep3_author : forall p a, (l_get p k_Author = None \/ l_get p k_From = None) ->
  let p' := dep3_set_author LI false p a in
  author_raw p' = Some a /\ strip [k_Author; k_From] p' = strip [k_Author; k_From] p /\
  count_key k_Author p' + count_key k_From p' = Nat.max 1 (count_key k_Author p + count_key k_From p).
Print Assumptions C15_dep3_author.

Theorem C15_dep3_vendor_bug : forall p vendor bug, count_key (k_Bug_dash ++ vendor) p <= 1 ->
  dep3_vendor_bugs LI (dep3_set_vendor_bug LI false p vendor bug) vendor = VList [bug] /\
  l_remove (dep3_set_vendor_bug LI false p vendor bug) (k_Bug_dash ++ vendor) = l_remove p (k_Bug_dash ++ vendor).
Proof. exact dep3_set_vendor_bug_spec. Qed.
Check C15_dep3_vendor_bug : forall p vendor bug, count_key (k_Bug_dash ++ vendor) p <= 1 ->
  dep3_vendor_bugs LI (dep3_set_vendor_bug LI false p vendor bug) vendor = VList [bug] /\
  l_remove (dep3_set_vendor_bug LI false p vendor bug) (k_Bug_dash ++ vendor) = l_remove p (k_Bug_dash ++ vendor).
Print Assumptions C15_dep3_vendor_bug.

Theorem C15_dep3_upstream_bug : forall p b, count_key k_Bug p <= 1 ->
  upstream_bugs (l_set p k_Bug b) = [b] /\ l_remove (l_set p k_Bug b) k_Bug = l_remove p k_Bug.
Proof. exact dep3_set_upstream_bug_spec. Qed.
Check C15_dep3_upstream_bug : forall p b, count_key k_Bug p <= 1 ->
  upstream_bugs (l_set p k_Bug b) = [b] /\ l_remove (l_set p k_Bug b) k_Bug = l_remove p k_Bug.
Print Assumptions C15_dep3_upstream_bug.

(* copyright Header::fix: the Format value is normalised in place, idempotently; the pre-1.0 field
   name Format-Specification is renamed in place *)
Theorem C15_header_fix : forall p f,
  (l_get p k_Format_Specification = None -> l_get p k_Format = Some f ->
     header_fix LI p = l_set p k_Format (fix_format f) /\
     l_get (header_fix LI p) k_Format = Some (fix_format f) /\
     header_fix LI (header_fix LI p) = header_fix LI p) /\
  (forall a b, l_get a k_Format_Specification = None -> l_get a k_Format = None -> l_get b k_Format = None ->
     header_fix LI (a ++ (k_Format_Specification, f) :: b) = a ++ (k_Format, fix_format f) :: b) /\
  fix_format (fix_format f) = fix_format f.
Proof. intros p f. split; [apply header_fix_format|]. split; [intros a b; apply header_fix_old_name|apply fix_format_idem]. Qed.
Check C15_header_fix : forall p f,
  (l_get p k_Format_Specification = None -> l_get p k_Format = Some f ->
     header_fix LI p = l_set p k_Format (fix_format f) /\
     l_get (header_fix LI p) k_Format = Some (fix_format f) /\
     header_fix LI (header_fix LI p) = header_fix LI p) /\
  (forall a b, l_get a k_Format_Specification = None -> l_get a k_Format = None -> l_get b k_Format = None ->
     header_fix LI (a ++ (k_Format_Specification, f) :: b) = a ++ (k_Format, fix_format f) :: b) /\
  fix_format (fix_format f) = fix_format f.
Print Assumptions C15_header_fix.

(* Source::vcs: the first Vcs-<kind> field other than Vcs-Browser decides, read by Vcs::from_field(<kind>, value) *)
Theorem C15_vcs : forall a n v b,
  forallb (fun kv => negb (is_vcs_kind_field (fst kv))) a = true -> is_vcs_kind_field n = true ->
  vcs_of_items false (a ++ (n, v) :: b) =
  match strip_prefix k_Vcs_dash n with
  | Some x => match vcs_from_field x v with Some val => VSome val | None => VNone end
  | None => VNone
  end.
Proof. intros a n v b Ha Hn. exact (vcs_first_field false a n v b Ha Hn). Qed.
Check C15_vcs : forall a n v b,
  forallb (fun kv => negb (is_vcs_kind_field (fst kv))) a = true -> is_vcs_kind_field n = true ->
  vcs_of_items false (a ++ (n, v) :: b) =
  match strip_prefix k_Vcs_dash n with
  | Some x => match vcs_from_field x v with Some val => VSome val | None => VNone end
  | None => VNone
  end.
Print Assumptions C15_vcs.

(* ------------------------------------------------------------------ 6b. audit follow-up (2026-10) *)
(* relationship fields are read with Relations::parse_relaxed(v, true): the getter is total and gives
   back the field's text for EVERY text, substitution variables (${misc:Depends}) included *)
Theorem C15_reading_relations : forall c s, decode c CRelaxed (Some s) = Ok (VSome (VStr s)).
Proof. exact reading_relaxed. Qed.
Check C15_reading_relations : forall c s, decode c CRelaxed (Some s) = Ok (VSome (VStr s)).
Print Assumptions C15_reading_relations.

(* Rules-Requires-Root never panics: "no" / "yes" | "binary-targets" (any case) / a keyword list = None *)
Theorem C15_reading_root_flag : forall c raw,
  decode c CRootFlag raw =
  Ok (match raw with
      | None => VNone
      | Some s => if str_eqb (to_lower s) l_yes || str_eqb (to_lower s) l_binary_targets then VSome (VBool true)
                  else if str_eqb (to_lower s) l_no then VSome (VBool false) else VNone
      end).
Proof. exact reading_root_flag. Qed.
Check C15_reading_root_flag : forall c raw,
  decode c CRootFlag raw =
  Ok (match raw with
      | None => VNone
      | Some s => if str_eqb (to_lower s) l_yes || str_eqb (to_lower s) l_binary_targets then VSome (VBool true)
                  else if str_eqb (to_lower s) l_no then VSome (VBool false) else VNone
      end).
Print Assumptions C15_reading_root_flag.

(* FINDING (known_findings.jsonl, class c15-dep3-long-description-without-description), not repaired:
   set_long_description on a DEP-3 header without Description/Subject.  Outside that class the
   theorem holds; inside it the witness shows it does not. *)
Theorem C15_long_description_outside_known_class : forall c p l,
  ~ Known_long_description_without_description p -> both_desc p = false ->
  let p' := dep3_set_long_description LI false p l in
  decode c CRestLines (desc_raw p') = Ok (VSome (VStr l)) /\
  decode c CFirstLine (desc_raw p') = decode c CFirstLine (desc_raw p) /\
  strip [k_Description; k_Subject] p' = strip [k_Description; k_Subject] p.
Proof. exact long_description_outside_known_class. Qed.
Check C15_long_description_outside_known_class : forall c p l,
  ~ Known_long_description_without_description p -> both_desc p = false ->
  let p' := dep3_set_long_description LI false p l in
  decode c CRestLines (desc_raw p') = Ok (VSome (VStr l)) /\
  decode c CFirstLine (desc_raw p') = decode c CFirstLine (desc_raw p) /\
  strip [k_Description; k_Subject] p' = strip [k_Description; k_Subject] p.
Print Assumptions C15_long_description_outside_known_class.

Theorem C15_long_description_known_class_witness :
  let c := mk_ctx id_xparse [] in
  let p := @nil (str * str) in
  let l := [97; 10; 98]%N in
  Known_long_description_without_description p /\
  decode c CRestLines (desc_raw (dep3_set_long_description LI false p l)) = Ok (VSome (VStr [98%N])) /\
  decode c CFirstLine (desc_raw (dep3_set_long_description LI false p l)) = Ok (VSome (VStr [97%N])).
Proof. exact long_description_known_class_witness. Qed.
Check C15_long_description_known_class_witness :
  let c := mk_ctx id_xparse [] in
  let p := @nil (str * str) in
  let l := [97; 10; 98]%N in
  Known_long_description_without_description p /\
  decode c CRestLines (desc_raw (dep3_set_long_description LI false p l)) = Ok (VSome (VStr [98%N])) /\
  decode c CFirstLine (desc_raw (dep3_set_long_description LI false p l)) = Ok (VSome (VStr [97%N])).
Print Assumptions C15_long_description_known_class_witness.

(* the code before proposed_fixes/C15-{rules-requires-root-values,relations-getters-substvars,set-license-text}.patch *)
Theorem C15_audit_shipped_refuted :
  let c := mk_ctx id_xparse [] in
  (* rules_requires_root() on the documented value binary-targets *)
  decode c CYesNoLower (Some l_binary_targets) = Panic 3%N /\
  (* every relations getter on ${misc:Depends} *)
  decode c (CParse TRelations true) (Some s_misc_depends) = Panic 1%N /\
  decode c CRelaxed (Some s_misc_depends) = Ok (VSome (VStr s_misc_depends)) /\
  (* set_license(License::Text(t)) read back as License::Name(t) *)
  (exists raw, enc CLicenseSetShipped (VList [t_Text; s_optional]) = Some raw /\
               decode c CLicense (Some raw) = Ok (VSome (VList [t_Name; s_optional]))) /\
  (exists raw, enc CLicenseSet (VList [t_Text; s_optional]) = Some raw /\
               decode c CLicense (Some raw) = Ok (VSome (VList [t_Text; s_optional]))).
Proof. vm_compute. repeat split; eexists; split; reflexivity. Qed.
Check C15_audit_shipped_refuted :
  let c := mk_ctx id_xparse [] in
  decode c CYesNoLower (Some l_binary_targets) = Panic 3%N /\
  decode c (CParse TRelations true) (Some s_misc_depends) = Panic 1%N /\
  decode c CRelaxed (Some s_misc_depends) = Ok (VSome (VStr s_misc_depends)) /\
  (exists raw, enc CLicenseSetShipped (VList [t_Text; s_optional]) = Some raw /\
               decode c CLicense (Some raw) = Ok (VSome (VList [t_Name; s_optional]))) /\
  (exists raw, enc CLicenseSet (VList [t_Text; s_optional]) = Some raw /\
               decode c CLicense (Some raw) = Ok (VSome (VList [t_Text; s_optional]))).
Print Assumptions C15_audit_shipped_refuted.

(* ------------------------------------------------------------------ 7. the code as shipped (before proposed_fixes/C15-*.patch) *)
(* DEP-3 setters used Paragraph::insert: with the field present the getter keeps returning the
   old value and the field occurs twice *)
Definition row_forwarded_get : row := mk_row [] [] RGetter [s2l_Forwarded] OGet (CParse TForwarded true).
Definition row_forwarded_insert : row := mk_row [] [] RSetter [s2l_Forwarded] OInsert (CDisplay TForwarded).
Theorem C15_dep3_insert_refuted :
  let c := mk_ctx id_xparse [] in
  let p := [(s2l_Forwarded, l_no)] in
  exists p', setter c LI row_forwarded_insert [] (VList [t_NotNeeded]) p = Ok p' /\
    getter c LI row_forwarded_get [] p' = Ok (VSome (VList [t_No])) /\ count_key s2l_Forwarded p' = 2.
Proof. vm_compute. eexists. repeat split. Qed.
Check C15_dep3_insert_refuted :
  let c := mk_ctx id_xparse [] in
  let p := [(s2l_Forwarded, l_no)] in
  exists p', setter c LI row_forwarded_insert [] (VList [t_NotNeeded]) p = Ok p' /\
    getter c LI row_forwarded_get [] p' = Ok (VSome (VList [t_No])) /\ count_key s2l_Forwarded p' = 2.
Print Assumptions C15_dep3_insert_refuted.

(* DEP-3 set_description as shipped: with a Description field present the argument is ignored and a
   second Description field is appended *)
Theorem C15_dep3_set_description_shipped_refuted :
  let p := [(k_Description, [115; 10; 108]%N)] in                 (* "s\nl" *)
  let p' := dep3_set_description_shipped LI p [110%N] in         (* set_description("n") *)
  desc_raw p' = Some [115; 10; 108]%N /\ p_get_all LI p' k_Description = [[115; 10; 108]; [108; 10; 115; 10; 108]]%N.
Proof. vm_compute. repeat split. Qed.
Check C15_dep3_set_description_shipped_refuted :
  let p := [(k_Description, [115; 10; 108]%N)] in
  let p' := dep3_set_description_shipped LI p [110%N] in
  desc_raw p' = Some [115; 10; 108]%N /\ p_get_all LI p' k_Description = [[115; 10; 108]; [108; 10; 115; 10; 108]]%N.
Print Assumptions C15_dep3_set_description_shipped_refuted.

(* Source::vcs() as shipped never returns a value *)
Theorem C15_vcs_shipped_refuted : forall its, vcs_of_items true its = VNone.
Proof. exact vcs_shipped_never. Qed.
Check C15_vcs_shipped_refuted : forall its, vcs_of_items true its = VNone.
Print Assumptions C15_vcs_shipped_refuted.

(* lossless Buildinfo::binaries as shipped splits at single spaces: two blanks give an empty name, a
   folded line is not split *)
Theorem C15_buildinfo_binaries_shipped_refuted :
  let c := mk_ctx id_xparse [] in
  decode c (CSplit SpSpace true ANone) (Some [97; 32; 32; 98; 10; 99]%N) = Ok (VSome (VList [[97]; []; [98; 10; 99]]))%N /\
  decode c (CSplit SpWs false ANone) (Some [97; 32; 32; 98; 10; 99]%N) = Ok (VSome (VList [[97]; [98]; [99]]))%N.
Proof. vm_compute. split; reflexivity. Qed.
Check C15_buildinfo_binaries_shipped_refuted :
  let c := mk_ctx id_xparse [] in
  decode c (CSplit SpSpace true ANone) (Some [97; 32; 32; 98; 10; 99]%N) = Ok (VSome (VList [[97]; []; [98; 10; 99]]))%N /\
  decode c (CSplit SpWs false ANone) (Some [97; 32; 32; 98; 10; 99]%N) = Ok (VSome (VList [[97]; [98]; [99]]))%N.
Print Assumptions C15_buildinfo_binaries_shipped_refuted.

(* ------------------------------------------------------------------ non-vacuity *)
Module Examples.
  Definition c0 : ctx := mk_ctx id_xparse Accessors_gen.enums.
  Definition row_of (ty m : str) : row :=
    match find_row Accessors_gen.table ty m with Some r => r | None => mk_row [] [] ROther [] ONone (Unrecognised []) end.

  (* the table has getters and setters; some pairs, with valid values of several shapes *)
  Example ex_table_size :
    length Accessors_gen.table > 300 /\ length (filter (fun r => match r_role r with RSetter => true | _ => false end) Accessors_gen.table) > 100.
  Proof. vm_compute. split; lia. Qed.

  Example ex_pairs :
    let pr ty m := pair_ok (row_of ty m) (row_of ty (setter_name m)) [] in
    pr s_control_Source s_maintainer = true /\ pr s_control_Binary s_depends = true /\ pr s_control_Binary s_essential = true /\
    pr s_apt_Release s_architectures = true /\ pr s_apt_Source s_files = true /\ pr s_control_Source s_uploaders = true /\
    pr s_dep3 s_forwarded = true /\ pr s_dep3 s_origin = true /\ pr s_buildinfo s_binaries = true.
  Proof. vm_compute. repeat split. Qed.

  (* valid values exist for every shape: a relationship field (accepted by the model of the strict
     relations reader), a priority keyword, a list, checksum triples, an origin *)
  Example ex_valid :
    valid_typed c0 TRelations (VStr s_rel_example) = true /\
    valid_typed c0 (TEnum n_Priority) (VStr s_optional) = true /\
    valid_typed c0 (TEnum n_Priority) (VStr s_maintainer) = false /\
    valid_plain c0 (CSplit SpComma true ANone) (CJoin l_comma_sp) (VList [s_rel_example; s_optional]) = false /\
    valid_plain c0 (CSplit SpComma true ANone) (CJoin l_comma_sp) (VList [s_optional; s_maintainer]) = true /\
    valid_plain c0 (CLines RTriple true) (CLinesDisplay RTriple) (VRecs [[AS s_optional; AN 1234; AS s_maintainer]]) = true /\
    valid_origin (VList [l_upstream; t_Commit; s_optional]) = true /\
    valid_origin (VList [t_none; t_Other; l_vendor]) = false.
  Proof. vm_compute. repeat split. Qed.

  (* a whole run on a parsed paragraph with a comment: Source::set_maintainer, then maintainer() *)
  Example ex_run :
    match from_str s_para_example with
    | Ok t =>
        match paragraphs t with
        | P :: _ =>
            match setter c0 TI (row_of s_control_Source (setter_name s_maintainer)) [] (VStr s_optional) (children P) with
            | Ok cs' => getter c0 TI (row_of s_control_Source s_maintainer) [] cs' = Ok (VSome (VStr s_optional)) /\
                        text (Node PARAGRAPH cs') = s_para_after
            | _ => False
            end
        | [] => False
        end
    | _ => False
    end.
  Proof. vm_compute. split; reflexivity. Qed.

  (* a folded Uploaders field and a Release Architectures field read as lists *)
  Example ex_reading :
    decode c0 (CSplit SpComma true ANone) (Some s_uploaders_raw) = Ok (VSome (VList [s_up1; s_up2])) /\
    decode c0 (CSplit SpWs true ANone) (Some s_arch_raw) = Ok (VSome (VList [s_amd64; s_arm64])).
  Proof. vm_compute. split; reflexivity. Qed.

  (* Vcs-Git with branch and subpath *)
  Example ex_vcs :
    vcs_of_items false [(k_Vcs_Browser, s_up1); (s_Vcs_Git, s_vcs_raw)] = VSome (VList [v_Git; s_vcs_url; 43%N :: s_main; 43%N :: s_sub]).
  Proof. vm_compute. reflexivity. Qed.
End Examples.
