(* C13 — relation wrap-and-sort yields a canonical, sorted, meaning-preserving form.
   Statements only; proofs in proofs/RelWrapSortP.v, RelWrapP.v, RelWrapGrammarP.v.

   Quantifier: every well-formed relationship field of RelGrammar.v (the quantifier of C10: any
   layout of SP/TAB/LF in every whitespace slot, empty entries, trailing comma, every optional part,
   epochs, negated architectures, multi-term profile groups, substitution variables) whose versions
   are inside the domain where debversion 0.4.4 can compare (RelWrapSpec.field_safe: no digit run
   above 2^31-1; finding class c12-debversion-i32-digit-run, C13_i32_class_witness below).  No bound
   on the number of entries / alternatives / terms or on any length.

   The code is RelWrap.v with variant [fixed] = /repo HEAD 12709db + proposed_fixes/C13-*.patch.
   The code as shipped ([shipped]) violates the property in four ways; see the _refuted theorems.

   The names of the plan: rws_text = C13_text, rws_sorted = C13_sorted, rws_meaning = C13_meaning,
   rws_idem = C13_idem. *)
From Coq Require Import Permutation Sorted.
From V.model Require Import Base RelLex RelParse RelAcc RelGrammar RelWrap RelWrapSpec.
From V.model Require DebVersion Sat Deb822Wrap.
From V.proofs Require Import DebVersionP RelWrapSortP RelWrapP RelWrapGrammarP.

(* ---------------------------------------------------------------- the statement, for a variant of the code *)
Definition sorted_content_shape (es : list (list wrel)) : Prop :=
  Sorted (cmp_le wentry_cmp) es /\ Forall (fun e => e <> [] /\ Sorted (cmp_le wrel_cmp) e) es.
(* (= RelWrapGrammarP.sorted_shape, by definition) *)

Definition C13_statement (V : variant) : Prop :=
  forall (allow : bool) (f : rfield), wf_rfield allow f = true -> field_safe f = true ->
  exists t' : rtree,
    (* the field as read (C10), normalised *)
    parse_relaxed (rrender f) allow = Ok (rtree_of f, 0) /\
    relations_ws V (rtree_of f) = Ok t' /\
    (* 1. the text is the canonical single-line text of the sorted content: entries joined by
          ", ", alternatives by " | ", "name[:qual] (op version) [archs] <profiles>" with single
          spaces, the substitution variables after the entries, ordered by their text *)
    text t' = canon_text (map (map wrel_c) (sorted_content (field_wcontent f)))
                         (map subst_text_of (sorted_substs f)) /\
    (* 2. entries, and the alternatives inside each entry, are sorted w.r.t. the modelled Ord;
          no empty entry *)
    (exists es', wacc t' = Ok es' /\ sorted_content_shape es') /\
    (* 3. the result is the rendering of a well-formed field, so it parses without error
          (strictly when there is no substitution variable), the accessors report its content,
          and that content is f's: the same multiset of entries, each the same multiset of
          alternatives with identical name, qualifier, operator, version text, architectures with
          negations, profile groups; the same multiset of substitution variables *)
    (exists fc, wf_rfield allow fc = true /\ text t' = rrender fc /\
                parse_relaxed (text t') allow = Ok (rtree_of fc, 0) /\
                (allow = false -> relations_from_str (text t') = Ok (rtree_of fc)) /\
                (exists c, racc (rtree_of fc) = Ok c /\ racc_view c = rcontent fc) /\
                same_content (rcontent f) (rcontent fc)) /\
    (* 4. normalising again changes nothing -- applied to the returned object, to the re-read
          text, and through the formatter of Control::wrap_and_sort *)
    relations_ws V t' = Ok t' /\
    (exists tp, parse_relaxed (text t') allow = Ok (tp, 0) /\ relations_ws V tp = Ok t') /\
    ctl_rel V (rrender f) = Ok (text t') /\
    ctl_rel V (text t') = Ok (text t').

Definition C13_full : Prop := C13_statement fixed.

Theorem C13_full_holds : C13_full.
Proof. exact ws_full. Qed.
Check C13_full_holds : C13_full.
Print Assumptions C13_full_holds.

(* ---------------------------------------------------------------- the four clauses on their own *)
(* (1) rws_text: what wrap_and_sort prints for the text of a well-formed field *)
Theorem C13_text : forall f : rfield, wf_rfield true f = true -> field_safe f = true ->
  ws_text fixed (rrender f) =
    Ok (canon_text (map (map wrel_c) (sorted_content (field_wcontent f))) (map subst_text_of (sorted_substs f))) /\
  (* the content being sorted is what the accessors report for f (C10_lossless), with Version values *)
  wacc (rtree_of f) = Ok (field_wcontent f) /\
  map (map wrel_c) (field_wcontent f) = fst (rcontent_acc f).
Proof. exact ws_text_wf. Qed.
Check C13_text : forall f : rfield, wf_rfield true f = true -> field_safe f = true ->
  ws_text fixed (rrender f) =
    Ok (canon_text (map (map wrel_c) (sorted_content (field_wcontent f))) (map subst_text_of (sorted_substs f))) /\
  wacc (rtree_of f) = Ok (field_wcontent f) /\
  map (map wrel_c) (field_wcontent f) = fst (rcontent_acc f).
Print Assumptions C13_text.

(* (2) rws_sorted: the accessors of the returned object report the sorted content; consecutive
   alternatives / entries are in order for the modelled `impl Ord` evaluated on the returned trees *)
Theorem C13_sorted : forall allow (f : rfield), wf_rfield allow f = true -> field_safe f = true ->
  exists t' es', relations_ws fixed (rtree_of f) = Ok t' /\ wacc t' = Ok es' /\
    es' = sorted_content (field_wcontent f) /\ sorted_content_shape es' /\
    Permutation (concat (field_wcontent f)) (concat es') /\
    (forall e, In e es' -> forall a b, In a e -> In b e ->
       relation_cmp (wrel_tree fixed a) (wrel_tree fixed b) = Ok (wrel_cmp a b)) /\
    (forall x y, In x es' -> In y es' ->
       entry_cmp fixed (entry_tree fixed x) (entry_tree fixed y) = Ok (wentry_cmp x y)).
Proof. exact ws_sorted. Qed.
Check C13_sorted : forall allow (f : rfield), wf_rfield allow f = true -> field_safe f = true ->
  exists t' es', relations_ws fixed (rtree_of f) = Ok t' /\ wacc t' = Ok es' /\
    es' = sorted_content (field_wcontent f) /\ sorted_content_shape es' /\
    Permutation (concat (field_wcontent f)) (concat es') /\
    (forall e, In e es' -> forall a b, In a e -> In b e ->
       relation_cmp (wrel_tree fixed a) (wrel_tree fixed b) = Ok (wrel_cmp a b)) /\
    (forall x y, In x es' -> In y es' ->
       entry_cmp fixed (entry_tree fixed x) (entry_tree fixed y) = Ok (wentry_cmp x y)).
Print Assumptions C13_sorted.

(* (3) rws_meaning: the result is the rendering of the canonical field of f -- well-formed, so
   C10's theorems apply to it -- and denotes the same dependencies.  A version keeps its text:
   inside the grammar an epoch is canonical decimal, and debversion's print-after-parse only
   re-prints the epoch ("007:1" -> "7:1", outside the grammar; Example C13_ex_epoch). *)
Theorem C13_meaning : forall allow (f : rfield), wf_rfield allow f = true -> field_safe f = true ->
  exists t', relations_ws fixed (rtree_of f) = Ok t' /\
    wf_rfield allow (canon_field f) = true /\
    text t' = rrender (canon_field f) /\
    parse_relaxed (text t') allow = Ok (rtree_of (canon_field f), 0) /\
    (allow = false -> relations_from_str (text t') = Ok (rtree_of (canon_field f))) /\
    (exists c, racc (rtree_of (canon_field f)) = Ok c /\ racc_view c = rcontent (canon_field f)) /\
    same_content (rcontent f) (rcontent (canon_field f)).
Proof. exact ws_meaning. Qed.
Check C13_meaning : forall allow (f : rfield), wf_rfield allow f = true -> field_safe f = true ->
  exists t', relations_ws fixed (rtree_of f) = Ok t' /\
    wf_rfield allow (canon_field f) = true /\
    text t' = rrender (canon_field f) /\
    parse_relaxed (text t') allow = Ok (rtree_of (canon_field f), 0) /\
    (allow = false -> relations_from_str (text t') = Ok (rtree_of (canon_field f))) /\
    (exists c, racc (rtree_of (canon_field f)) = Ok c /\ racc_view c = rcontent (canon_field f)) /\
    same_content (rcontent f) (rcontent (canon_field f)).
Print Assumptions C13_meaning.

(* (4) rws_idem: on trees, not only on text; also through the re-read text, which is the path
   Control::wrap_and_sort takes, and through its formatter (the [rel] parameter of
   Deb822Wrap.format_field) for every relationship field name *)
Theorem C13_idem : forall allow (f : rfield), wf_rfield allow f = true -> field_safe f = true ->
  exists t', relations_ws fixed (rtree_of f) = Ok t' /\
    relations_ws fixed t' = Ok t' /\
    (exists tp, parse_relaxed (text t') allow = Ok (tp, 0) /\ relations_ws fixed tp = Ok t') /\
    (forall name, str_eqb name Deb822Wrap.Lit.k_Uploaders = false ->
       existsb (str_eqb name) (Deb822Wrap.Lit.relation_fields true) = true ->
       Deb822Wrap.format_field Deb822Wrap.fixed (ctl_rel fixed) name (rrender f) = Ok (text t') /\
       Deb822Wrap.format_field Deb822Wrap.fixed (ctl_rel fixed) name (text t') = Ok (text t')).
Proof. exact ws_idem_all. Qed.
Check C13_idem : forall allow (f : rfield), wf_rfield allow f = true -> field_safe f = true ->
  exists t', relations_ws fixed (rtree_of f) = Ok t' /\
    relations_ws fixed t' = Ok t' /\
    (exists tp, parse_relaxed (text t') allow = Ok (tp, 0) /\ relations_ws fixed tp = Ok t') /\
    (forall name, str_eqb name Deb822Wrap.Lit.k_Uploaders = false ->
       existsb (str_eqb name) (Deb822Wrap.Lit.relation_fields true) = true ->
       Deb822Wrap.format_field Deb822Wrap.fixed (ctl_rel fixed) name (rrender f) = Ok (text t') /\
       Deb822Wrap.format_field Deb822Wrap.fixed (ctl_rel fixed) name (text t') = Ok (text t')).
Print Assumptions C13_idem.

(* ---------------------------------------------------------------- beyond the grammar: ANY tree *)
(* For every tree -- e.g. what the tolerant reader returns for malformed text -- whose accessors do
   not panic and whose versions are i32-safe, wrap_and_sort returns the canonical tree of the
   sorted accessor content; its text is the canonical text; applying it again returns the same tree. *)
Theorem C13_any_tree : forall (t : rtree) (es : list (list wrel)),
  wacc t = Ok es -> content_safe es = true ->
  exists t', relations_ws fixed t = Ok t' /\
    t' = field_tree fixed (sorted_content es) (psort by_text (substvar_nodes t)) /\
    text t' = canon_text (map (map wrel_c) (sorted_content es)) (map text (psort by_text (substvar_nodes t))) /\
    wacc t' = Ok (sorted_content es) /\
    relations_ws fixed t' = Ok t'.
Proof. exact ws_any_tree. Qed.
Check C13_any_tree : forall (t : rtree) (es : list (list wrel)),
  wacc t = Ok es -> content_safe es = true ->
  exists t', relations_ws fixed t = Ok t' /\
    t' = field_tree fixed (sorted_content es) (psort by_text (substvar_nodes t)) /\
    text t' = canon_text (map (map wrel_c) (sorted_content es)) (map text (psort by_text (substvar_nodes t))) /\
    wacc t' = Ok (sorted_content es) /\
    relations_ws fixed t' = Ok t'.
Print Assumptions C13_any_tree.

(* ---------------------------------------------------------------- the order, and Rust's sort contract *)
(* impl Ord for Relation / Entry (fixed) on the safe domain is a total preorder: antisymmetric,
   "equal" is a congruence, "less" is transitive; hence <= is transitive and total *)
Theorem C13_order_total_preorder :
  cmp_ok wrel_cmp /\ cmp_ok wentry_cmp /\
  (forall x y z, cmp_le wentry_cmp x y -> cmp_le wentry_cmp y z -> cmp_le wentry_cmp x z) /\
  (forall x y, cmp_le wentry_cmp x y \/ cmp_le wentry_cmp y x) /\
  (* ... and it IS the modelled impl Ord, on any two nodes of the safe domain *)
  (forall a b wa wb, relation_wacc a = Ok wa -> relation_wacc b = Ok wb ->
     wrel_safe wa = true -> wrel_safe wb = true -> relation_cmp a b = Ok (wrel_cmp wa wb)) /\
  (forall ea eb wa wb, entry_wacc ea = Ok wa -> entry_wacc eb = Ok wb ->
     forallb wrel_safe wa = true -> forallb wrel_safe wb = true ->
     entry_cmp fixed ea eb = Ok (wentry_cmp wa wb)).
Proof. exact order_total_preorder. Qed.
Check C13_order_total_preorder :
  cmp_ok wrel_cmp /\ cmp_ok wentry_cmp /\
  (forall x y z, cmp_le wentry_cmp x y -> cmp_le wentry_cmp y z -> cmp_le wentry_cmp x z) /\
  (forall x y, cmp_le wentry_cmp x y \/ cmp_le wentry_cmp y x) /\
  (forall a b wa wb, relation_wacc a = Ok wa -> relation_wacc b = Ok wb ->
     wrel_safe wa = true -> wrel_safe wb = true -> relation_cmp a b = Ok (wrel_cmp wa wb)) /\
  (forall ea eb wa wb, entry_wacc ea = Ok wa -> entry_wacc eb = Ok wb ->
     forallb wrel_safe wa = true -> forallb wrel_safe wb = true ->
     entry_cmp fixed ea eb = Ok (wentry_cmp wa wb)).
Print Assumptions C13_order_total_preorder.

(* The model's sort is the insertion sort Rust uses up to 20 elements.  For a total preorder it
   returns a sorted permutation in which equal elements keep their order -- and there is only one
   such list, so any other stable sort (Rust's driftsort on longer slices) returns the same:
   slice::sort's contract needs exactly that the comparison is a total order. *)
Theorem C13_sort_contract : forall (A : Type) (cmp : A -> A -> comparison), cmp_ok cmp ->
  forall l,
  Permutation l (psort cmp l) /\ Sorted (cmp_le cmp) (psort cmp l) /\
  (forall a, filter (eqv cmp a) (psort cmp l) = filter (eqv cmp a) l) /\
  (forall l', Sorted (cmp_le cmp) l' -> (forall a, filter (eqv cmp a) l' = filter (eqv cmp a) l) -> l' = psort cmp l) /\
  (Sorted (cmp_le cmp) l -> psort cmp l = l).
Proof. exact psort_contract. Qed.
Check C13_sort_contract : forall (A : Type) (cmp : A -> A -> comparison), cmp_ok cmp ->
  forall l,
  Permutation l (psort cmp l) /\ Sorted (cmp_le cmp) (psort cmp l) /\
  (forall a, filter (eqv cmp a) (psort cmp l) = filter (eqv cmp a) l) /\
  (forall l', Sorted (cmp_le cmp) l' -> (forall a, filter (eqv cmp a) l' = filter (eqv cmp a) l) -> l' = psort cmp l) /\
  (Sorted (cmp_le cmp) l -> psort cmp l = l).
Print Assumptions C13_sort_contract.

(* ---------------------------------------------------------------- the shipped code (/repo 12709db) *)
From Coq Require Import String Ascii.
Fixpoint s2l (s : string) : str :=
  match s with EmptyString => [] | String a r => N_of_ascii a :: s2l r end.
Definition rel0 (n : string) : rel := mk_rel (s2l n) None None None [] [].
Definition fld (i : item) (more : list (str * item)) : rfield := mk_rfield [] i more.

(* 1. the qualifier is written outside an ARCHQUAL node: the returned object has no qualifier,
      and a second wrap_and_sort drops it:  "a:any" -> "a:any" -> "a" *)
Definition w_qual_f : rfield := fld (IEntry (mk_rel (s2l "a") (Some (mk_qual [] [] (s2l "any"))) None None [] []) []) [].
Theorem C13_shipped_archqual_refuted :
  wf_rfield false w_qual_f = true /\ field_safe w_qual_f = true /\ rrender w_qual_f = s2l "a:any" /\
  exists t1 t2, relations_ws shipped (rtree_of w_qual_f) = Ok t1 /\ text t1 = s2l "a:any" /\
                rmap (map (map w_qual)) (wacc t1) = Ok [[None]] /\
                relations_ws shipped t1 = Ok t2 /\ text t2 = s2l "a" /\
                ws_text fixed (s2l "a:any") = Ok (s2l "a:any").
Proof. split; [reflexivity|]. split; [reflexivity|]. split; [reflexivity|]. eexists _, _. repeat split; vm_compute; reflexivity. Qed.
Check C13_shipped_archqual_refuted :
  wf_rfield false w_qual_f = true /\ field_safe w_qual_f = true /\ rrender w_qual_f = s2l "a:any" /\
  exists t1 t2, relations_ws shipped (rtree_of w_qual_f) = Ok t1 /\ text t1 = s2l "a:any" /\
                rmap (map (map w_qual)) (wacc t1) = Ok [[None]] /\
                relations_ws shipped t1 = Ok t2 /\ text t2 = s2l "a" /\
                ws_text fixed (s2l "a:any") = Ok (s2l "a:any").
Print Assumptions C13_shipped_archqual_refuted.

(* 2. substitution variables vanish:  "${misc:Depends}, b" -> "b" *)
Definition w_subst_f : rfield := fld (ISubst (s2l "misc") [s2l "Depends"] []) [([32%N], IEntry (rel0 "b") [])].
Theorem C13_shipped_substvar_refuted :
  wf_rfield true w_subst_f = true /\ field_safe w_subst_f = true /\ rrender w_subst_f = s2l "${misc:Depends}, b" /\
  ws_text shipped (rrender w_subst_f) = Ok (s2l "b") /\
  ws_text fixed (rrender w_subst_f) = Ok (s2l "b, ${misc:Depends}").
Proof. repeat split; vm_compute; reflexivity. Qed.
Check C13_shipped_substvar_refuted :
  wf_rfield true w_subst_f = true /\ field_safe w_subst_f = true /\ rrender w_subst_f = s2l "${misc:Depends}, b" /\
  ws_text shipped (rrender w_subst_f) = Ok (s2l "b") /\
  ws_text fixed (rrender w_subst_f) = Ok (s2l "b, ${misc:Depends}").
Print Assumptions C13_shipped_substvar_refuted.

(* 3. impl Ord for Entry is not transitive: "a" = "a | b", "a | b" = "a | b | c", "a" < "a | b | c";
      "a | b | c, a | b, a" comes back as it is, although "a | b | c, a" is turned round *)
Definition w_ord_f : rfield :=
  fld (IEntry (mk_rel (s2l "a") None None None [] [32%N]) [([32%N], mk_rel (s2l "b") None None None [] [32%N]); ([32%N], rel0 "c")])
      [([32%N], IEntry (mk_rel (s2l "a") None None None [] [32%N]) [([32%N], rel0 "b")]); ([32%N], IEntry (rel0 "a") [])].
Theorem C13_shipped_entry_order_refuted :
  wf_rfield false w_ord_f = true /\ field_safe w_ord_f = true /\ rrender w_ord_f = s2l "a | b | c, a | b, a" /\
  (let e1 := entry_tree shipped [mk_wrel (s2l "a") None None None []] in
   let e2 := entry_tree shipped [mk_wrel (s2l "a") None None None []; mk_wrel (s2l "b") None None None []] in
   let e3 := entry_tree shipped [mk_wrel (s2l "a") None None None []; mk_wrel (s2l "b") None None None []; mk_wrel (s2l "c") None None None []] in
   entry_cmp shipped e1 e2 = Ok Eq /\ entry_cmp shipped e2 e3 = Ok Eq /\ entry_cmp shipped e1 e3 = Ok Lt /\
   entry_cmp fixed e1 e2 = Ok Lt /\ entry_cmp fixed e2 e3 = Ok Lt /\ entry_cmp fixed e1 e3 = Ok Lt) /\
  ws_text shipped (rrender w_ord_f) = Ok (s2l "a | b | c, a | b, a") /\
  ws_text shipped (s2l "a | b | c, a") = Ok (s2l "a, a | b | c") /\
  ws_text fixed (rrender w_ord_f) = Ok (s2l "a, a | b, a | b | c").
Proof. repeat split; vm_compute; reflexivity. Qed.
Check C13_shipped_entry_order_refuted :
  wf_rfield false w_ord_f = true /\ field_safe w_ord_f = true /\ rrender w_ord_f = s2l "a | b | c, a | b, a" /\
  (let e1 := entry_tree shipped [mk_wrel (s2l "a") None None None []] in
   let e2 := entry_tree shipped [mk_wrel (s2l "a") None None None []; mk_wrel (s2l "b") None None None []] in
   let e3 := entry_tree shipped [mk_wrel (s2l "a") None None None []; mk_wrel (s2l "b") None None None []; mk_wrel (s2l "c") None None None []] in
   entry_cmp shipped e1 e2 = Ok Eq /\ entry_cmp shipped e2 e3 = Ok Eq /\ entry_cmp shipped e1 e3 = Ok Lt /\
   entry_cmp fixed e1 e2 = Ok Lt /\ entry_cmp fixed e2 e3 = Ok Lt /\ entry_cmp fixed e1 e3 = Ok Lt) /\
  ws_text shipped (rrender w_ord_f) = Ok (s2l "a | b | c, a | b, a") /\
  ws_text shipped (s2l "a | b | c, a") = Ok (s2l "a, a | b | c") /\
  ws_text fixed (rrender w_ord_f) = Ok (s2l "a, a | b, a | b | c").
Print Assumptions C13_shipped_entry_order_refuted.

(* 4. the formatter of Control::wrap_and_sort reads the value without allowing substitution
      variables and unwraps: "Depends: ${misc:Depends}, b" panics *)
Theorem C13_shipped_control_substvar_refuted :
  ctl_rel shipped (rrender w_subst_f) = Panic 20%N /\
  Deb822Wrap.format_field Deb822Wrap.fixed (ctl_rel shipped) (s2l "Depends") (rrender w_subst_f) = Panic 20%N /\
  Deb822Wrap.format_field Deb822Wrap.fixed (ctl_rel fixed) (s2l "Depends") (rrender w_subst_f) = Ok (s2l "b, ${misc:Depends}").
Proof. repeat split; vm_compute; reflexivity. Qed.
Check C13_shipped_control_substvar_refuted :
  ctl_rel shipped (rrender w_subst_f) = Panic 20%N /\
  Deb822Wrap.format_field Deb822Wrap.fixed (ctl_rel shipped) (s2l "Depends") (rrender w_subst_f) = Panic 20%N /\
  Deb822Wrap.format_field Deb822Wrap.fixed (ctl_rel fixed) (s2l "Depends") (rrender w_subst_f) = Ok (s2l "b, ${misc:Depends}").
Print Assumptions C13_shipped_control_substvar_refuted.

(* hence the statement is false of the shipped code *)
Theorem C13_shipped_refuted : ~ C13_statement shipped.
Proof.
  intros H. destruct (H true w_subst_f eq_refl eq_refl) as (t' & _ & Hw & Ht & _).
  vm_compute in Hw. injection Hw as <-. vm_compute in Ht. discriminate.
Qed.
Check C13_shipped_refuted : ~ C13_statement shipped.
Print Assumptions C13_shipped_refuted.

(* ---------------------------------------------------------------- the safe domain is needed *)
(* class c12-debversion-i32-digit-run: sort() compares versions, debversion panics on a digit run
   above i32::MAX.  "a (= 1) | a (= 99999999999)" *)
Definition w_i32_f : rfield :=
  let v (s : string) := Some (mk_vclause [32%N] [] VEq [32%N] None (s2l s) [] []) in
  fld (IEntry (mk_rel (s2l "a") None (v "1"%string) None [] [32%N]) [([32%N], mk_rel (s2l "a") None (v "99999999999"%string) None [] [])]) [].
Theorem C13_i32_class_witness :
  wf_rfield false w_i32_f = true /\ field_safe w_i32_f = false /\
  rrender w_i32_f = s2l "a (= 1) | a (= 99999999999)" /\
  relations_ws fixed (rtree_of w_i32_f) = Panic 2%N.
Proof. repeat split; vm_compute; reflexivity. Qed.
Check C13_i32_class_witness :
  wf_rfield false w_i32_f = true /\ field_safe w_i32_f = false /\
  rrender w_i32_f = s2l "a (= 1) | a (= 99999999999)" /\
  relations_ws fixed (rtree_of w_i32_f) = Panic 2%N.
Print Assumptions C13_i32_class_witness.

(* ---------------------------------------------------------------- non-vacuity *)
(* C10's example field -- every construct, every whitespace slot, LF in slots, an epoch, "~", a
   substitution variable, empty entries, a trailing comma -- satisfies the hypotheses *)
From V.props Require C10.
Example C13_ex_hypotheses :
  wf_rfield true C10.C10_ex = true /\ field_safe C10.C10_ex = true /\
  ws_text fixed (rrender C10.C10_ex) =
    Ok (s2l "a:any | g++ (<< 4.9) | libc6:any (>= 1:2.0~rc1-1) [amd64 i386] <!nocheck> <cross !nocheck>, g++ (<< 4.9), ${misc:Depends}") /\
  rrender (canon_field C10.C10_ex) =
    s2l "a:any | g++ (<< 4.9) | libc6:any (>= 1:2.0~rc1-1) [amd64 i386] <!nocheck> <cross !nocheck>, g++ (<< 4.9), ${misc:Depends}".
Proof. repeat split; vm_compute; reflexivity. Qed.

(* tie-breaks: same name, every operator, versions in Debian order (2 < 10, 1.0~rc1 < 1.0), no
   constraint first; qualifier / architectures / profiles do not take part (stable) *)
Example C13_ex_order :
  ws_text fixed (s2l "a (>> 1) | a (<< 1) | a | a (= 10) | a (= 2) | a (>= 1) | a (<= 1.0) | a (<= 1.0~rc1) | a [y] | a:q | A") =
    Ok (s2l "A | a | a [y] | a:q | a (<< 1) | a (<= 1.0~rc1) | a (<= 1.0) | a (= 2) | a (= 10) | a (>> 1) | a (>= 1)").
Proof. vm_compute. reflexivity. Qed.

(* outside the grammar: a non-canonical epoch is re-printed by debversion's Display; empty
   architecture / profile lists, negated architectures are kept *)
Example C13_ex_epoch :
  ws_text fixed (s2l "b [ ] < > , a (>= 007:1) [!x]") = Ok (s2l "a (>= 7:1) [!x], b [] <>").
Proof. vm_compute. reflexivity. Qed.
