(* C09 — the lossless relationship-field reader reproduces every input byte-for-byte.
   Statements only; proofs in proofs/RelLexP.v and proofs/RelParseP.v.
   Quantifier: every s : list N, both settings of allow_substvar, no length bound. *)
From V.model Require Import Base RelLex RelParse.
From V.proofs Require Import RelLexP RelParseP SourceTablesP.
From V.gen Require Import Classes_gen.

Theorem C09_reader : forall s : str,
  (forall allow, exists t n, parse_relaxed s allow = Ok (t, n) /\ text t = s) /\
  (exists t n, parse_relaxed s false = Ok (t, n) /\
     (n = 0 -> relations_from_str s = Ok t) /\ (n <> 0 -> relations_from_str s = Err 1%N)) /\
  (forall e, entry_from_str s = Ok e -> exists a b, s = a ++ text e ++ b) /\
  (forall r, relation_from_str s = Ok r -> exists a b, s = a ++ text r ++ b).
Proof. exact C09_all. Qed.
Check C09_reader : forall s : str,
  (forall allow, exists t n, parse_relaxed s allow = Ok (t, n) /\ text t = s) /\
  (exists t n, parse_relaxed s false = Ok (t, n) /\
     (n = 0 -> relations_from_str s = Ok t) /\ (n <> 0 -> relations_from_str s = Err 1%N)) /\
  (forall e, entry_from_str s = Ok e -> exists a b, s = a ++ text e ++ b) /\
  (forall r, relation_from_str s = Ok r -> exists a b, s = a ++ text r ++ b).
Print Assumptions C09_reader.

Theorem C09_lex_partition : forall s, exists ts,
  rlex s = Ok ts /\ concat (map snd ts) = s /\ Forall (fun t => snd t <> []) ts /\ length ts <= length s.
Proof. exact rlex_total_partition. Qed.
Check C09_lex_partition : forall s, exists ts,
  rlex s = Ok ts /\ concat (map snd ts) = s /\ Forall (fun t => snd t <> []) ts /\ length ts <= length s.
Print Assumptions C09_lex_partition.

(* the parser alone, on any token list (not only lexer output) *)
Theorem C09_parser_conserves : forall allow ts, exists t n,
  parse_tokens allow ts = Ok (t, n) /\ text t = concat (map snd ts).
Proof. exact rparse_tokens_total. Qed.
Check C09_parser_conserves : forall allow ts, exists t n,
  parse_tokens allow ts = Ok (t, n) /\ text t = concat (map snd ts).
Print Assumptions C09_parser_conserves.

(* Tie to the source: character classes, single-character token arms and SyntaxKind numbering of
   the model are the ones translate/classes.py regenerated from debian-control/src/relations.rs. *)
Theorem C09_source_tables : classes_recognised = true /\
  (forall c, is_rel_ws c = is_whitespace_src c /\ is_ident_char c = is_valid_ident_char_src c) /\
  (forallb (fun ck => match single_char_kind (fst ck) with
                      | Some k => (rkind_code k =? snd ck)%N | None => false end) single_char_arms_src = true /\
   length single_char_arms_src = 15 /\ NoDup (map fst single_char_arms_src)) /\
  (forall c k, single_char_kind c = Some k -> In c (map fst single_char_arms_src)).
Proof.
  split; [exact classes_recognised_ok|]. split; [intros c; split; [apply is_rel_ws_src_eq|apply is_ident_char_src_eq]|].
  split; [exact single_char_arms_ok|exact single_char_only].
Qed.
Check C09_source_tables : classes_recognised = true /\
  (forall c, is_rel_ws c = is_whitespace_src c /\ is_ident_char c = is_valid_ident_char_src c) /\
  (forallb (fun ck => match single_char_kind (fst ck) with
                      | Some k => (rkind_code k =? snd ck)%N | None => false end) single_char_arms_src = true /\
   length single_char_arms_src = 15 /\ NoDup (map fst single_char_arms_src)) /\
  (forall c k, single_char_kind c = Some k -> In c (map fst single_char_arms_src)).
Print Assumptions C09_source_tables.

(* Non-vacuity: unterminated groups, stray characters; a single relation accepted. *)
Example C09_ex_unterminated :
  let s := [36; 123; 97; 44; 32; 98; 32; 91; 33; 10; 60; 64]%N in   (* "${a, b [!\n<@" *)
  exists t n, parse_relaxed s true = Ok (t, n) /\ n <> 0 /\ text t = s.
Proof. vm_compute. do 2 eexists. split; [reflexivity|]. split; [discriminate|reflexivity]. Qed.
Example C09_ex_relation :
  let s := [32; 97; 32; 40; 62; 61; 32; 49; 41; 32]%N in          (* " a (>= 1) " *)
  exists r, relation_from_str s = Ok r /\ text r = [97; 32; 40; 62; 61; 32; 49; 41]%N.
Proof. vm_compute. eexists. split; reflexivity. Qed.
