(* C11 — editing relationship fields keeps them well-formed and matches a list model.
   Statements only; proofs in proofs/RelEditP.v (lists, paths, texts, the pure parts),
   proofs/RelEditStP.v (the store: detach/attach/splice, every operation through handles),
   proofs/RelEditHistP.v (histories), proofs/RelEditReparseP.v (the bridge to C10's reader
   theorem), proofs/RelEditFullP.v (histories with re-read), proofs/RelEditRefuteP.v (witnesses by
   evaluation).

   The model (model/RelEdit.v) is the editing API of debian-control/src/lossless/relations.rs
   over a store of trees with re-based handles (rowan's red layer as the code experiences it);
   model/RelEditSpec.v holds the list-of-lists model [lfield], its operations [astep], how an
   abstract operation is issued to the register machine [compile] (every edit below the root
   goes through handles obtained from the current root right before it), the canonical trees
   the constructors build [cfield_tree] and the statement of the whole property [C11_full].

   The code violated the property in eleven places, each reproduced on the real code through the
   rel-edit stream.  Three (immutable re-root, add_profile replacing, the builder's "[]") were
   repaired in /repo by other cones; for the other eight this cone's patches
   (proposed_fixes/C11-0[1-8]-*.patch) were committed to /repo as 40d0dc3 f412265 a55af40
   548f939 198f3cc d30d94a aeb4417 12709db.  [fixed] is the code as it is now in /repo (all eight
   applied), [shipped] the code before them (c2fa7c8); the positive theorems are about [fixed];
   for every defect there is a `_refuted` theorem with the failing history on [shipped], on the
   variant that lacks only that fix, and the repaired outcome on [fixed].

   What is proved and what is not (C11_full stays a Definition, see C11_partial_note below):
   * PROVED, unbounded, at the level of the STORE (no-panic + refinement + visibility in the
     root + text): every in-range history of push / insert / replace / remove_entry /
     Entry::push / Entry::replace / remove_relation / set_version / drop_constraint /
     set_archqual, with operands built by Entry::from(vec![Relation::new(..)]) / Relation::new,
     from Relations::new() or from any field built by the constructors (and qualifiers added by
     set_archqual): C11_history_constructed,
     C11_history_from_constructors, C11_history_from_new.  After every step the root register
     holds exactly the constructor-built tree of the list model's field; its structure (read by
     the model of the accessors) is the list model; its text is the canonical rendering, so
     separators are never duplicated, dangling or fused.  With identifier texts in the operands
     the printed text is also proved to read back, strictly and without error, as the list
     model (C11_history_constructed_reread, through C10_lossless): this is C11_full restricted
     to constructor-built fields, these ten operations and constructor-built operands.
   * PROVED for ANY children list (any layout, empty entries, substitution variables, error
     nodes): the frame lemmas of the list surgery — Entry::remove / Relation::remove delete the
     node plus adjacent white space and at most one separator token and nothing else;
     insert/push add the entry plus separator tokens only; the entries after an insert are the
     list insert of the entries before (C11_insert_entries); an update below a path leaves all
     text outside that node alone (C11_frame_subtree); and the store-level effect of
     Entry::remove through a handle at any path of any tree (C11_entry_remove_store).
   * NOT PROVED (covered by the rel-edit stream and its oracle on every run): the history
     theorem for fields with layouts other than the constructors' (and with it the re-read
     clause for those layouts); operands built by parsing and by the builder;
     set_architectures, add_profile inside the history theorem; handles obtained earlier. *)
From V.model Require Import Base RelLex RelParse RelEdit RelEditSpec.
From V.proofs Require Import BaseP RelEditP RelEditStP RelEditHistP RelEditReparseP RelEditFullP RelEditRefuteP.

(* the whole property, as a statement about a variant of the code (model/RelEditSpec.v) *)
Definition C11_partial_note : Prop := C11_full fixed.

(* 1. Histories (the proved part of C11_full): no panic, refinement, visibility in the root, text *)
Theorem C11_history_constructed : forall ops f st,
  plain_field f = true -> forallb aop_plain ops = true -> hist_in_range f ops = true ->
  state_with_root st (cfield_tree f) ->
  let f' := fold_left astep ops f in
  exists st', run_ops fixed (compile_all ops) st = Ok st' /\
              state_with_root st' (cfield_tree f') /\
              root_tree st' = Ok (cfield_tree f') /\
              structure (cfield_tree f') = Ok f' /\
              root_text st' = Ok (render_field f').
Proof. exact history_constructed. Qed.
Check C11_history_constructed : forall ops f st,
  plain_field f = true -> forallb aop_plain ops = true -> hist_in_range f ops = true ->
  state_with_root st (cfield_tree f) ->
  let f' := fold_left astep ops f in
  exists st', run_ops fixed (compile_all ops) st = Ok st' /\
              state_with_root st' (cfield_tree f') /\
              root_tree st' = Ok (cfield_tree f') /\
              structure (cfield_tree f') = Ok f' /\
              root_text st' = Ok (render_field f').
Print Assumptions C11_history_constructed.

(* with identifier texts in the operands (names, versions, qualifiers) and non-empty entries, the printed text also READS BACK — strictly, without error — as the list model (through C10's reader theorem) *)
Theorem C11_history_constructed_reread : forall ops f st,
  lfield_ok f = true -> forallb aop_ok ops = true -> hist_in_range f ops = true ->
  state_with_root st (cfield_tree f) ->
  let f' := fold_left astep ops f in
  exists st', run_ops fixed (compile_all ops) st = Ok st' /\
              state_with_root st' (cfield_tree f') /\
              root_tree st' = Ok (cfield_tree f') /\
              structure (cfield_tree f') = Ok f' /\
              root_text st' = Ok (render_field f') /\
              exists t'', parse_relaxed (render_field f') true = Ok (t'', 0) /\
                          relations_from_str (render_field f') = Ok t'' /\
                          structure t'' = Ok f'.
Proof. exact history_constructed_full. Qed.
Check C11_history_constructed_reread : forall ops f st,
  lfield_ok f = true -> forallb aop_ok ops = true -> hist_in_range f ops = true ->
  state_with_root st (cfield_tree f) ->
  let f' := fold_left astep ops f in
  exists st', run_ops fixed (compile_all ops) st = Ok st' /\
              state_with_root st' (cfield_tree f') /\
              root_tree st' = Ok (cfield_tree f') /\
              structure (cfield_tree f') = Ok f' /\
              root_text st' = Ok (render_field f') /\
              exists t'', parse_relaxed (render_field f') true = Ok (t'', 0) /\
                          relations_from_str (render_field f') = Ok t'' /\
                          structure t'' = Ok f'.
Print Assumptions C11_history_constructed_reread.

Theorem C11_reparse_constructed : forall f, lfield_ok f = true ->
  exists t, parse_relaxed (render_field f) true = Ok (t, 0) /\
            relations_from_str (render_field f) = Ok t /\
            text t = render_field f /\
            structure t = Ok f.
Proof. exact reparse_constructed. Qed.
Check C11_reparse_constructed : forall f, lfield_ok f = true ->
  exists t, parse_relaxed (render_field f) true = Ok (t, 0) /\
            relations_from_str (render_field f) = Ok t /\
            text t = render_field f /\
            structure t = Ok f.
Print Assumptions C11_reparse_constructed.

(* the same from Relations::from(vec![Entry::from(vec![Relation::new(..), ..]), ..]) *)
Theorem C11_history_from_constructors : forall ops f,
  forallb (forallb new_only) f = true -> forallb aop_plain ops = true -> hist_in_range f ops = true ->
  let f' := fold_left astep ops f in
  exists st0 st', init_state fixed (IFromVec (map entry_spec f)) = Ok st0 /\
                  root_tree st0 = Ok (cfield_tree f) /\
                  run_ops fixed (compile_all ops) st0 = Ok st' /\
                  root_tree st' = Ok (cfield_tree f') /\
                  structure (cfield_tree f') = Ok f' /\
                  root_text st' = Ok (render_field f').
Proof. exact history_from_constructors. Qed.
Check C11_history_from_constructors : forall ops f,
  forallb (forallb new_only) f = true -> forallb aop_plain ops = true -> hist_in_range f ops = true ->
  let f' := fold_left astep ops f in
  exists st0 st', init_state fixed (IFromVec (map entry_spec f)) = Ok st0 /\
                  root_tree st0 = Ok (cfield_tree f) /\
                  run_ops fixed (compile_all ops) st0 = Ok st' /\
                  root_tree st' = Ok (cfield_tree f') /\
                  structure (cfield_tree f') = Ok f' /\
                  root_text st' = Ok (render_field f').
Print Assumptions C11_history_from_constructors.

(* and from the empty field, Relations::new() *)
Theorem C11_history_from_new : forall ops,
  forallb aop_plain ops = true -> hist_in_range [] ops = true ->
  let f' := fold_left astep ops [] in
  exists st0 st', init_state fixed INew = Ok st0 /\
                  run_ops fixed (compile_all ops) st0 = Ok st' /\
                  root_tree st' = Ok (cfield_tree f') /\
                  structure (cfield_tree f') = Ok f' /\
                  root_text st' = Ok (render_field f').
Proof. exact history_from_new. Qed.
Check C11_history_from_new : forall ops,
  forallb aop_plain ops = true -> hist_in_range [] ops = true ->
  let f' := fold_left astep ops [] in
  exists st0 st', init_state fixed INew = Ok st0 /\
                  run_ops fixed (compile_all ops) st0 = Ok st' /\
                  root_tree st' = Ok (cfield_tree f') /\
                  structure (cfield_tree f') = Ok f' /\
                  root_text st' = Ok (render_field f').
Print Assumptions C11_history_from_new.

(* 2. Constructor-built fields read back as the list they were built from, and print canonically *)
Theorem C11_structure_constructed : forall f, plain_field f = true -> structure (cfield_tree f) = Ok f.
Proof. exact structure_cfield. Qed.
Check C11_structure_constructed : forall f, plain_field f = true -> structure (cfield_tree f) = Ok f.
Print Assumptions C11_structure_constructed.

Theorem C11_text_constructed : forall f, text (cfield_tree f) = render_field f.
Proof. exact text_cfield. Qed.
Check C11_text_constructed : forall f, text (cfield_tree f) = render_field f.
Print Assumptions C11_text_constructed.

(* 3. Frame / text conservation of the list surgery, on ANY tree and ANY children list *)
Theorem C11_frame_subtree : forall t p f n, get_path t p = Some n ->
  exists a b, text t = a ++ text n ++ b /\ text (upd_path t p f) = a ++ text (f n) ++ b.
Proof. exact text_upd_path. Qed.
Check C11_frame_subtree : forall t p f n, get_path t p = Some n ->
  exists a b, text t = a ++ text n ++ b /\ text (upd_path t p f) = a ++ text (f n) ++ b.
Print Assumptions C11_frame_subtree.

Theorem C11_insert_frame : forall v cs idx eg,
  let '(pos, new) := insert_plan v cs idx eg in
  pos <= length cs /\ exists s1 s2, new = s1 ++ eg :: s2 /\ Forall sep_tok (s1 ++ s2).
Proof. exact insert_plan_frame. Qed.
Check C11_insert_frame : forall v cs idx eg,
  let '(pos, new) := insert_plan v cs idx eg in
  pos <= length cs /\ exists s1 s2, new = s1 ++ eg :: s2 /\ Forall sep_tok (s1 ++ s2).
Print Assumptions C11_insert_frame.

Theorem C11_insert_entries : forall v t idx eg, is_entry eg = true ->
  entries (relations_insert_green v t idx eg) = l_insert idx eg (entries t).
Proof. exact entries_insert_green. Qed.
Check C11_insert_entries : forall v t idx eg, is_entry eg = true ->
  entries (relations_insert_green v t idx eg) = l_insert idx eg (entries t).
Print Assumptions C11_insert_entries.

Theorem C11_push_relation_frame : forall cs rg,
  let '(pos, new) := entry_push_plan cs rg in
  exists s1, new = s1 ++ [rg] /\ Forall alt_sep_tok s1.
Proof. exact entry_push_plan_frame. Qed.
Check C11_push_relation_frame : forall cs rg,
  let '(pos, new) := entry_push_plan cs rg in
  exists s1, new = s1 ++ [rg] /\ Forall alt_sep_tok s1.
Print Assumptions C11_push_relation_frame.

Theorem C11_remove_entry_frame : forall v pre x post cs',
  entry_remove_cs v (pre ++ x :: post) (length pre) = Ok cs' ->
  exists a g1 g2 b, pre = a ++ g1 /\ post = g2 ++ b /\ cs' = a ++ b /\ Forall sep_tok (g1 ++ g2).
Proof. exact entry_remove_cs_frame. Qed.
Check C11_remove_entry_frame : forall v pre x post cs',
  entry_remove_cs v (pre ++ x :: post) (length pre) = Ok cs' ->
  exists a g1 g2 b, pre = a ++ g1 /\ post = g2 ++ b /\ cs' = a ++ b /\ Forall sep_tok (g1 ++ g2).
Print Assumptions C11_remove_entry_frame.

Theorem C11_remove_relation_frame : forall pre x post cs',
  relation_remove_cs (pre ++ x :: post) (length pre) = Ok cs' ->
  exists a g1 g2 b, pre = a ++ g1 /\ post = g2 ++ b /\ cs' = a ++ b /\ Forall alt_sep_tok (g1 ++ g2).
Proof. exact relation_remove_cs_frame. Qed.
Check C11_remove_relation_frame : forall pre x post cs',
  relation_remove_cs (pre ++ x :: post) (length pre) = Ok cs' ->
  exists a g1 g2 b, pre = a ++ g1 /\ post = g2 ++ b /\ cs' = a ++ b /\ Forall alt_sep_tok (g1 ++ g2).
Print Assumptions C11_remove_relation_frame.

(* 4. An edit through a handle is an edit of the tree the handle points into: Entry::remove through the handle at path p ++ [i] of ANY tree [tid] rewrites exactly the children of the node at p of that tree (visible through every other handle into it, in particular the root), moves the entry into a tree of its own, and leaves handles at or above p and all other trees alone *)
Theorem C11_entry_remove_store : forall ts rs r tid ri T p kd pre x post cs',
  nth_error rs r = Some (Some (mk_hnd tid (p ++ [length pre]))) ->
  nth_error ts tid = Some (mk_slot true ri T) ->
  get_path T p = Some (Node kd (pre ++ x :: post)) ->
  entry_remove_cs fixed (pre ++ x :: post) (length pre) = Ok cs' ->
  exists ts' F,
    runs (entry_remove fixed r) (mk_state ts rs) tt (mk_state ts' (map (option_map F) rs)) /\
    length ts <= length ts' /\
    nth_error ts' tid = Some (mk_slot true ri (upd_path T p (fun _ => Node kd cs'))) /\
    (forall j, j <> tid -> j < length ts -> nth_error ts' j = nth_error ts j) /\
    (exists tn rn, F (mk_hnd tid (p ++ [length pre])) = mk_hnd tn [] /\
                   nth_error ts' tn = Some (mk_slot true rn x)) /\
    (forall g, above tid p g -> F g = g).
Proof. exact entry_remove_spec. Qed.
Check C11_entry_remove_store : forall ts rs r tid ri T p kd pre x post cs',
  nth_error rs r = Some (Some (mk_hnd tid (p ++ [length pre]))) ->
  nth_error ts tid = Some (mk_slot true ri T) ->
  get_path T p = Some (Node kd (pre ++ x :: post)) ->
  entry_remove_cs fixed (pre ++ x :: post) (length pre) = Ok cs' ->
  exists ts' F,
    runs (entry_remove fixed r) (mk_state ts rs) tt (mk_state ts' (map (option_map F) rs)) /\
    length ts <= length ts' /\
    nth_error ts' tid = Some (mk_slot true ri (upd_path T p (fun _ => Node kd cs'))) /\
    (forall j, j <> tid -> j < length ts -> nth_error ts' j = nth_error ts j) /\
    (exists tn rn, F (mk_hnd tid (p ++ [length pre])) = mk_hnd tn [] /\
                   nth_error ts' tn = Some (mk_slot true rn x)) /\
    (forall g, above tid p g -> F g = g).
Print Assumptions C11_entry_remove_store.

(* 5. The defects of the code before this cone's fixes (/repo c2fa7c8): the failing history on
   [shipped], on the variant without that one fix, and the outcome on [fixed] *)
(* insert(0, b) into "a": the separator is left out, the names fuse *)
Theorem C11_insert_first_refuted : 
  run_text shipped (IStrict [97]%N) [ONewEntry 1 (ESParse [98]%N); OInsert 0 1] = Ok [98; 97]%N /\
  run_text without_insert_first (IStrict [97]%N) [ONewEntry 1 (ESParse [98]%N); OInsert 0 1] = Ok [98; 97]%N /\
  run_text fixed (IStrict [97]%N) [ONewEntry 1 (ESParse [98]%N); OInsert 0 1] = Ok [98; 44; 32; 97]%N.
Proof. exact (conj insert_first_shipped (conj insert_first_needed insert_first_fixed)). Qed.
Check C11_insert_first_refuted : 
  run_text shipped (IStrict [97]%N) [ONewEntry 1 (ESParse [98]%N); OInsert 0 1] = Ok [98; 97]%N /\
  run_text without_insert_first (IStrict [97]%N) [ONewEntry 1 (ESParse [98]%N); OInsert 0 1] = Ok [98; 97]%N /\
  run_text fixed (IStrict [97]%N) [ONewEntry 1 (ESParse [98]%N); OInsert 0 1] = Ok [98; 44; 32; 97]%N.
Print Assumptions C11_insert_first_refuted.

(* Entry::from(vec![a, b]).remove_relation(0): the '|' is stored under kind COMMA, "Unexpected node" *)
Theorem C11_pipe_refuted : 
  run_text shipped (IFromVec [ESFromVec [(RSSimple [97]%N); (RSSimple [98]%N)]]) [OGetEntry 0 0; OERemoveRel 0 0] = Panic 43%N /\
  run_text without_pipe (IFromVec [ESFromVec [(RSSimple [97]%N); (RSSimple [98]%N)]]) [OGetEntry 0 0; OERemoveRel 0 0] = Panic 43%N /\
  run_text fixed (IFromVec [ESFromVec [(RSSimple [97]%N); (RSSimple [98]%N)]]) [OGetEntry 0 0; OERemoveRel 0 0] = Ok [98]%N.
Proof. exact (conj pipe_shipped (conj pipe_needed pipe_fixed)). Qed.
Check C11_pipe_refuted : 
  run_text shipped (IFromVec [ESFromVec [(RSSimple [97]%N); (RSSimple [98]%N)]]) [OGetEntry 0 0; OERemoveRel 0 0] = Panic 43%N /\
  run_text without_pipe (IFromVec [ESFromVec [(RSSimple [97]%N); (RSSimple [98]%N)]]) [OGetEntry 0 0; OERemoveRel 0 0] = Panic 43%N /\
  run_text fixed (IFromVec [ESFromVec [(RSSimple [97]%N); (RSSimple [98]%N)]]) [OGetEntry 0 0; OERemoveRel 0 0] = Ok [98]%N.
Print Assumptions C11_pipe_refuted.

(* Entry::push through a handle: the entry is replaced by a copy of the whole ROOT *)
Theorem C11_entry_push_refuted : 
  run_text shipped (IStrict [97; 44; 32; 98]%N) [ONewRel 1 (RSSimple [99]%N); OGetEntry 0 0; OEPush 0 1] = Ok [97; 32; 124; 32; 99; 44; 32; 98; 44; 32; 98]%N /\
  run_text without_entry_push (IStrict [97; 44; 32; 98]%N) [ONewRel 1 (RSSimple [99]%N); OGetEntry 0 0; OEPush 0 1] = Ok [97; 32; 124; 32; 99; 44; 32; 98; 44; 32; 98]%N /\
  run_text fixed (IStrict [97; 44; 32; 98]%N) [ONewRel 1 (RSSimple [99]%N); OGetEntry 0 0; OEPush 0 1] = Ok [97; 32; 124; 32; 99; 44; 32; 98]%N.
Proof. exact (conj entry_push_shipped (conj entry_push_needed entry_push_fixed)). Qed.
Check C11_entry_push_refuted : 
  run_text shipped (IStrict [97; 44; 32; 98]%N) [ONewRel 1 (RSSimple [99]%N); OGetEntry 0 0; OEPush 0 1] = Ok [97; 32; 124; 32; 99; 44; 32; 98; 44; 32; 98]%N /\
  run_text without_entry_push (IStrict [97; 44; 32; 98]%N) [ONewRel 1 (RSSimple [99]%N); OGetEntry 0 0; OEPush 0 1] = Ok [97; 32; 124; 32; 99; 44; 32; 98; 44; 32; 98]%N /\
  run_text fixed (IStrict [97; 44; 32; 98]%N) [ONewRel 1 (RSSimple [99]%N); OGetEntry 0 0; OEPush 0 1] = Ok [97; 32; 124; 32; 99; 44; 32; 98]%N.
Print Assumptions C11_entry_push_refuted.

(* push after a trailing comma duplicates the separator *)
Theorem C11_append_sep_refuted : 
  run_text shipped (IStrict [97; 44; 32]%N) [ONewEntry 1 (ESParse [122]%N); OPush 1] = Ok [97; 44; 32; 44; 32; 122]%N /\
  run_text without_append_sep (IStrict [97; 44; 32]%N) [ONewEntry 1 (ESParse [122]%N); OPush 1] = Ok [97; 44; 32; 44; 32; 122]%N /\
  run_text fixed (IStrict [97; 44; 32]%N) [ONewEntry 1 (ESParse [122]%N); OPush 1] = Ok [97; 44; 32; 122]%N.
Proof. exact (conj append_sep_shipped (conj append_sep_needed append_sep_fixed)). Qed.
Check C11_append_sep_refuted : 
  run_text shipped (IStrict [97; 44; 32]%N) [ONewEntry 1 (ESParse [122]%N); OPush 1] = Ok [97; 44; 32; 44; 32; 122]%N /\
  run_text without_append_sep (IStrict [97; 44; 32]%N) [ONewEntry 1 (ESParse [122]%N); OPush 1] = Ok [97; 44; 32; 44; 32; 122]%N /\
  run_text fixed (IStrict [97; 44; 32]%N) [ONewEntry 1 (ESParse [122]%N); OPush 1] = Ok [97; 44; 32; 122]%N.
Print Assumptions C11_append_sep_refuted.

(* set_version puts the constraint between the name and its qualifier *)
Theorem C11_version_pos_refuted : 
  run_text shipped (IStrict [97; 58; 97; 110; 121]%N) [OGetEntry 0 0; OGetRel 0 0 0; OSetVersion 0 (Some (VGe, [49]%N))] = Ok [97; 32; 40; 62; 61; 32; 49; 41; 58; 97; 110; 121]%N /\
  run_text without_version_pos (IStrict [97; 58; 97; 110; 121]%N) [OGetEntry 0 0; OGetRel 0 0 0; OSetVersion 0 (Some (VGe, [49]%N))] = Ok [97; 32; 40; 62; 61; 32; 49; 41; 58; 97; 110; 121]%N /\
  run_text fixed (IStrict [97; 58; 97; 110; 121]%N) [OGetEntry 0 0; OGetRel 0 0 0; OSetVersion 0 (Some (VGe, [49]%N))] = Ok [97; 58; 97; 110; 121; 32; 40; 62; 61; 32; 49; 41]%N.
Proof. exact (conj version_pos_shipped (conj version_pos_needed version_pos_fixed)). Qed.
Check C11_version_pos_refuted : 
  run_text shipped (IStrict [97; 58; 97; 110; 121]%N) [OGetEntry 0 0; OGetRel 0 0 0; OSetVersion 0 (Some (VGe, [49]%N))] = Ok [97; 32; 40; 62; 61; 32; 49; 41; 58; 97; 110; 121]%N /\
  run_text without_version_pos (IStrict [97; 58; 97; 110; 121]%N) [OGetEntry 0 0; OGetRel 0 0 0; OSetVersion 0 (Some (VGe, [49]%N))] = Ok [97; 32; 40; 62; 61; 32; 49; 41; 58; 97; 110; 121]%N /\
  run_text fixed (IStrict [97; 58; 97; 110; 121]%N) [OGetEntry 0 0; OGetRel 0 0 0; OSetVersion 0 (Some (VGe, [49]%N))] = Ok [97; 58; 97; 110; 121; 32; 40; 62; 61; 32; 49; 41]%N.
Print Assumptions C11_version_pos_refuted.

(* removing the only alternative leaves an empty entry and its separator *)
Theorem C11_remove_last_refuted : 
  run_text shipped (IStrict [97; 44; 32; 98]%N) [OGetEntry 0 0; OGetRel 0 0 0; ORRemove 0] = Ok [44; 32; 98]%N /\
  run_text without_remove_last (IStrict [97; 44; 32; 98]%N) [OGetEntry 0 0; OGetRel 0 0 0; ORRemove 0] = Ok [44; 32; 98]%N /\
  run_text fixed (IStrict [97; 44; 32; 98]%N) [OGetEntry 0 0; OGetRel 0 0 0; ORRemove 0] = Ok [98]%N.
Proof. exact (conj remove_last_shipped (conj remove_last_needed remove_last_fixed)). Qed.
Check C11_remove_last_refuted : 
  run_text shipped (IStrict [97; 44; 32; 98]%N) [OGetEntry 0 0; OGetRel 0 0 0; ORRemove 0] = Ok [44; 32; 98]%N /\
  run_text without_remove_last (IStrict [97; 44; 32; 98]%N) [OGetEntry 0 0; OGetRel 0 0 0; ORRemove 0] = Ok [44; 32; 98]%N /\
  run_text fixed (IStrict [97; 44; 32; 98]%N) [OGetEntry 0 0; OGetRel 0 0 0; ORRemove 0] = Ok [98]%N.
Print Assumptions C11_remove_last_refuted.

(* removing the first entry after a substitution variable leaves the separator dangling *)
Theorem C11_first_substvar_refuted : 
  run_text shipped (IRelaxed [36; 123; 120; 125; 44; 32; 98]%N) [ORemoveEntry 0] = Ok [36; 123; 120; 125; 44; 32]%N /\
  run_text without_first_substvar (IRelaxed [36; 123; 120; 125; 44; 32; 98]%N) [ORemoveEntry 0] = Ok [36; 123; 120; 125; 44; 32]%N /\
  run_text fixed (IRelaxed [36; 123; 120; 125; 44; 32; 98]%N) [ORemoveEntry 0] = Ok [36; 123; 120; 125]%N.
Proof. exact (conj first_substvar_shipped (conj first_substvar_needed first_substvar_fixed)). Qed.
Check C11_first_substvar_refuted : 
  run_text shipped (IRelaxed [36; 123; 120; 125; 44; 32; 98]%N) [ORemoveEntry 0] = Ok [36; 123; 120; 125; 44; 32]%N /\
  run_text without_first_substvar (IRelaxed [36; 123; 120; 125; 44; 32; 98]%N) [ORemoveEntry 0] = Ok [36; 123; 120; 125; 44; 32]%N /\
  run_text fixed (IRelaxed [36; 123; 120; 125; 44; 32; 98]%N) [ORemoveEntry 0] = Ok [36; 123; 120; 125]%N.
Print Assumptions C11_first_substvar_refuted.

(* Entry::replace with a relation that ends in white space deletes its name *)
Theorem C11_replace_ws_refuted : 
  run_text shipped (IStrict [97; 32; 124; 32; 98]%N) [ONewRel 1 (RSParse [99; 32]%N); OGetEntry 0 0; OEReplace 0 1 1] = Ok [97; 32; 124; 32; 32]%N /\
  run_text without_replace_ws (IStrict [97; 32; 124; 32; 98]%N) [ONewRel 1 (RSParse [99; 32]%N); OGetEntry 0 0; OEReplace 0 1 1] = Ok [97; 32; 124; 32; 32]%N /\
  run_text fixed (IStrict [97; 32; 124; 32; 98]%N) [ONewRel 1 (RSParse [99; 32]%N); OGetEntry 0 0; OEReplace 0 1 1] = Ok [97; 32; 124; 32; 99]%N.
Proof. exact (conj replace_ws_shipped (conj replace_ws_needed replace_ws_fixed)). Qed.
Check C11_replace_ws_refuted : 
  run_text shipped (IStrict [97; 32; 124; 32; 98]%N) [ONewRel 1 (RSParse [99; 32]%N); OGetEntry 0 0; OEReplace 0 1 1] = Ok [97; 32; 124; 32; 32]%N /\
  run_text without_replace_ws (IStrict [97; 32; 124; 32; 98]%N) [ONewRel 1 (RSParse [99; 32]%N); OGetEntry 0 0; OEReplace 0 1 1] = Ok [97; 32; 124; 32; 32]%N /\
  run_text fixed (IStrict [97; 32; 124; 32; 98]%N) [ONewRel 1 (RSParse [99; 32]%N); OGetEntry 0 0; OEReplace 0 1 1] = Ok [97; 32; 124; 32; 99]%N.
Print Assumptions C11_replace_ws_refuted.

(* push after a substitution variable fuses the name with it *)
Theorem C11_append_sep_substvar_refuted : 
  run_text shipped (IRelaxed [36; 123; 120; 125]%N) [ONewEntry 1 (ESParse [98]%N); OPush 1] = Ok [36; 123; 120; 125; 98]%N /\
  run_text fixed (IRelaxed [36; 123; 120; 125]%N) [ONewEntry 1 (ESParse [98]%N); OPush 1] = Ok [36; 123; 120; 125; 44; 32; 98]%N.
Proof. exact (conj append_sep_substvar_shipped append_sep_substvar_fixed). Qed.
Check C11_append_sep_substvar_refuted : 
  run_text shipped (IRelaxed [36; 123; 120; 125]%N) [ONewEntry 1 (ESParse [98]%N); OPush 1] = Ok [36; 123; 120; 125; 98]%N /\
  run_text fixed (IRelaxed [36; 123; 120; 125]%N) [ONewEntry 1 (ESParse [98]%N); OPush 1] = Ok [36; 123; 120; 125; 44; 32; 98]%N.
Print Assumptions C11_append_sep_substvar_refuted.

Theorem C11_version_pos_unreadable : reads_clean [97; 32; 40; 62; 61; 32; 49; 41; 58; 97; 110; 121]%N = false /\ reads_clean [97; 58; 97; 110; 121; 32; 40; 62; 61; 32; 49; 41]%N = true.
Proof. exact version_pos_unreadable. Qed.
Check C11_version_pos_unreadable : reads_clean [97; 32; 40; 62; 61; 32; 49; 41; 58; 97; 110; 121]%N = false /\ reads_clean [97; 58; 97; 110; 121; 32; 40; 62; 61; 32; 49; 41]%N = true.
Print Assumptions C11_version_pos_unreadable.

(* 6. The recorded finding c11-handle-after-rebuild: the history theorems quantify over handles obtained from the CURRENT root; an entry handle obtained before Relations::push points into the old tree (push re-roots `self`), so pushing x through it is not visible in the field — with and without the fixes; obtained after the push it is *)
Theorem C11_stale_handle_witness : 
  run_text shipped (IStrict [97; 44; 32; 98]%N) [OGetEntry 0 0; ONewEntry 1 (ESParse [99]%N); OPush 1; ONewRel 1 (RSSimple [120]%N); OEPush 0 1] = Ok [97; 44; 32; 98; 44; 32; 99]%N /\
  run_text fixed (IStrict [97; 44; 32; 98]%N) [OGetEntry 0 0; ONewEntry 1 (ESParse [99]%N); OPush 1; ONewRel 1 (RSSimple [120]%N); OEPush 0 1] = Ok [97; 44; 32; 98; 44; 32; 99]%N /\
  run_text fixed (IStrict [97; 44; 32; 98]%N) [ONewEntry 1 (ESParse [99]%N); OPush 1; OGetEntry 0 0; ONewRel 1 (RSSimple [120]%N); OEPush 0 1] = Ok [97; 32; 124; 32; 120; 44; 32; 98; 44; 32; 99]%N.
Proof. exact (conj stale_handle_shipped (conj stale_handle_fixed fresh_handle_fixed)). Qed.
Check C11_stale_handle_witness : 
  run_text shipped (IStrict [97; 44; 32; 98]%N) [OGetEntry 0 0; ONewEntry 1 (ESParse [99]%N); OPush 1; ONewRel 1 (RSSimple [120]%N); OEPush 0 1] = Ok [97; 44; 32; 98; 44; 32; 99]%N /\
  run_text fixed (IStrict [97; 44; 32; 98]%N) [OGetEntry 0 0; ONewEntry 1 (ESParse [99]%N); OPush 1; ONewRel 1 (RSSimple [120]%N); OEPush 0 1] = Ok [97; 44; 32; 98; 44; 32; 99]%N /\
  run_text fixed (IStrict [97; 44; 32; 98]%N) [ONewEntry 1 (ESParse [99]%N); OPush 1; OGetEntry 0 0; ONewRel 1 (RSSimple [120]%N); OEPush 0 1] = Ok [97; 32; 124; 32; 120; 44; 32; 98; 44; 32; 99]%N.
Print Assumptions C11_stale_handle_witness.

(* Non-vacuity: a field of two entries, a history that uses all ten operations in range; the
   hypotheses of C11_history_from_constructors hold and the final text is computed. *)
Example C11_ex :
  let r n v := mk_relrec n None v None [] in
  let f := [[r [97]%N (Some (VGe, [49]%N)); r [98]%N None]; [r [99]%N None]] in
  let ops := [APush [r [100]%N None]; AInsert 0 [r [101]%N (Some (VEq, [50]%N))]; AReplace 1 [r [120]%N None; r [121]%N None];
              ASetArchqual 1 0 [97; 110; 121]%N; ASetVersion 1 0 (Some (VLt, [51]%N)); ADropConstraint 0 0;
              ARemoveRelation 1 1; ARemoveRelation 2 0; ARemoveEntry 0;
              AEPush 1 (r [122]%N None); AEReplace 1 0 (r [119]%N (Some (VGt, [52]%N)))] in
  lfield_ok f = true /\ forallb aop_ok ops = true /\
  forallb (forallb new_only) f = true /\ forallb aop_plain ops = true /\ hist_in_range f ops = true /\
  run_text fixed (IFromVec (map entry_spec f)) (compile_all ops) = Ok [120; 58; 97; 110; 121; 32; 40; 60; 60; 32; 51; 41; 44; 32; 119; 32; 40; 62; 62; 32; 52; 41; 32; 124; 32; 122]%N /\
  fold_left astep ops f = [[mk_relrec [120]%N (Some [97; 110; 121]%N) (Some (VLt, [51]%N)) None []]; [r [119]%N (Some (VGt, [52]%N)); r [122]%N None]].
Proof. vm_compute. repeat split; reflexivity. Qed.
