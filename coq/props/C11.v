(* C11 — editing relationship fields keeps them well-formed and matches a list model.
   Statements only; proofs in proofs/RelEditP.v (lists, paths, texts, the pure parts),
   proofs/RelEditStP.v (the store: detach/attach/splice, every operation through handles),
   proofs/RelEditHistP.v (histories), proofs/RelEditReparseP.v (the bridge to C10's reader
   theorem), proofs/RelEditFullP.v (histories with re-read), proofs/RelEditRefuteP.v (witnesses by
   evaluation); for any well-formed field: proofs/RelEditTreeP.v + RelEditReplaceP.v (the machine
   computes the tree functions of model/RelEditTree.v on any tree), RelLiveP.v (those functions on
   the trees of the live layouts of model/RelLive.v), RelLiveStepP.v (entries, contents),
   RelLiveWfP.v (well-formedness, totality), RelLiveNormP.v (the bridges to C10's fields),
   RelLiveHistP.v (one operation, histories, re-read), RelEditParsedP.v + RelLiveParsedP.v (operands
   obtained by parsing), RelHandlesP.v (handles obtained at any earlier time: model/RelHandles.v).

   The model (model/RelEdit.v) is the editing API of debian-control/src/lossless/relations.rs
   over a store of trees with re-based handles (rowan's red layer as the code experiences it);
   model/RelEditSpec.v holds the list-of-lists model [lfield], its operations [astep], how an
   abstract operation is issued to the register machine [compile] (every edit below the root
   goes through handles obtained from the current root right before it; section 1d lifts this:
   any program through any registers), the canonical trees
   the constructors build [cfield_tree] and the statement of the whole property [C11_full].

   The code violated the property in eleven places, each reproduced on the real code through the
   rel-edit stream.  Three (immutable re-root, add_profile replacing, the builder's "[]") were
   repaired in /repo by other cones; for the other eight this cone's patches
   (proposed_fixes/C11-0[1-8]-*.patch) were committed to /repo as 40d0dc3 f412265 a55af40
   548f939 198f3cc d30d94a aeb4417 12709db.  [fixed] is the code as it is now in /repo (all eight
   applied), [shipped] the code before them (c2fa7c8); the positive theorems are about [fixed];
   for every defect there is a `_refuted` theorem with the failing history on [shipped], on the
   variant that lacks only that fix, and the repaired outcome on [fixed].
   A twelfth, the recorded finding c11-handle-after-rebuild (six operations re-built the green tree
   and re-rooted `self`, so a handle taken earlier went stale), is repaired by
   proposed_fixes/C11-10-in-place-splice.patch (committed to /repo as 5517d72): every edit is now an in-place
   splice_children on the live node.  [fixed] includes it (flag fx_in_place); the variants
   without_* of the eight earlier fixes are "that fix and C11-10 missing", [without_in_place] is the
   code with the eight fixes only.

   What is proved:
   * Audit follow-up (cone-c11f), now part of the statements:
     - SEPARATORS ("never duplicated, left dangling or fused with a name") were not in C11_full — the
       code without fix C11-02 or C11-07 satisfied every conjunct.  RelEditSpec now has a slot model
       (tree_slots: the commas cut the root's children into slots holding an entry, a substitution
       variable or nothing; field_shape: no slot holds two items; sstep: what each operation does to
       the slots) and C11_full, C11_all_step / _history, C11_all_mixed_*, C11_any_history,
       C11_any_mixed_history have the conjunct; C11_full_needs_append_sep / _first_substvar refute the
       two variants; C11_seps_never_grow is the oracle's count.
     - THE DOMAIN: Relation::version() also parses the version text with debversion.  RelEdit.structure
       reads version texts as written; RelEdit.structure_d is what the accessors return (Panic 12).
       C11_full is stated with structure_d (C11_full_raw with structure); C11_full_version_domain_witness.
     - BUILT OPERANDS: wf_operands asks identifier texts of versions and architecture names too
       (C11_built_operand_domain_witness); OUT OF RANGE positions panic (C11_out_of_range_panics).
   * C11_full ITSELF (RelEditSpec.C11_full, the property as first stated plus the separator conjunct,
     contents as the accessors show them, for the code as it is in
     /repo): C11_full_theorem in section 1e.  From any text that is read without error and whose
     accessors do not panic (`structure_d t0 = Ok f0`: every version operator is one of the five and
     every version text is a debversion::Version; C11_full_domain_witness and
     C11_full_version_domain_witness show that this hypothesis is needed), every in-range history of the
     twelve operations with well-formed operands — any record, built by Relation::new or by
     RelationBuilder — runs without panic, leaves exactly the list model's field in the root, keeps
     the substitution variables, and prints a text that is read again without error to that same
     field.  One correction of the STATEMENT was needed (not of the code): `compile` builds an operand
     record that has architectures or profiles through RelationBuilder also when it has no qualifier
     (C11_builder_operand_witness); nothing was removed from the statement.
     How: C10's image theorem (every error-free text is the rendering of a LIBERAL layout,
     RelGrammarAll.afield: any operator run, versions like 5::, "[]", "<>", "[!! x !]", "<! a>", CR as
     white space) + model/RelLiveAll.v, the mirror of RelLive.v with liberal parts (the editing
     operations only look at the KINDS of a relation's children; the inside of a part is carried along
     unchanged) + proofs/RelLiveAll*P.v (the mirrors of RelLive*P.v; new: the token list of a
     normalised live layout is a lexer output, RelLiveAllNormP.lexable_norm; the content of a layout
     is what RelEdit.structure reads, structure_ltree) + proofs/RelEditBuildP.v (RelationBuilder at
     store level).  C11_all_step / _history / _reread / _start are the single-step, history, re-read
     and embedding theorems of that development; C11_all_handles_* lift the handle theorems of
     section 1d to it (model/RelHandlesAll.v, proofs/RelHandlesAllP.v).
   * The same with operands obtained by PARSING (section 1f, model/RelLiveAllParsed.v,
     proofs/RelEditParsedAllP.v + RelLiveAllParsedP.v + RelEditSubXP.v): Entry::from_str /
     Relation::from_str of ANY text they accept (C11_all_parsed_cover_entry, _relation) whose accessors do not panic,
     mixed with built operands: C11_all_mixed_step / _history / _full; and in the handle theorems
     (C11_all_handles_*: a register may hold a handle INTO a parsed tree, RelHandlesAll.EParsed /
     RParsed; Relations::replace and Entry::replace move the node out of that tree).
   * Sections 1, 1b, 1c, 1d (earlier): the same for constructor-built fields with the canonical tree
     spelled out, for Policy-shaped fields (RelGrammar.wf_rfield) with contents stated through C10's
     racc, for operands obtained by PARSING (Entry::from_str / Relation::from_str), and for handles
     obtained at any earlier time.  Sections 2-4: canonical shapes, frame lemmas on ANY children
     list, the store-level effect of Entry::remove.  Sections 5, 6: for every defect of the code
     before this cone's fixes a `_refuted` theorem.
   * What is NOT proved (covered by the rel-edit stream and its oracle on every run): in the handle
     theorems (1d, 1e): operations issued through a handle into an operand not yet handed over, or
     through a handle whose node has left the field. *)
From V.model Require Import Base RelLex RelParse RelAcc RelGrammar RelEdit RelEditSpec RelEditTree RelLive RelHandles.
From V.model Require RelGrammarAll RelLiveAll RelLiveAllParsed RelHandlesAll.
From V.proofs Require Import BaseP RelEditP RelEditStP RelEditHistP RelEditReparseP RelEditFullP RelEditRefuteP.
From V.proofs Require Import RelEditTreeP RelEditReplaceP RelEditParsedP RelLiveP RelLiveStepP RelLiveWfP RelLiveNormP RelLiveHistP RelLiveParsedP RelHandlesP RelEditBuildP.
From V.proofs Require RelLiveAllStepP RelLiveAllHistP RelHandlesAllP RelEditParsedAllP RelLiveAllParsedP.
From V.proofs Require RelSepsP RelEditVersionP RelEditRangeP RelLiveHistSepsP.

(* the whole property is RelEditSpec.C11_full, a statement about a variant of the code; it is proved
   for the code as it is in /repo: C11_full_theorem (section 1e) *)

(* 1. Histories (the proved part of C11_full): no panic, refinement, visibility in the root, text *)
Theorem C11_history_constructed : forall ops f st,
  plain_field f = true -> forallb aop_plain ops = true -> hist_in_range f ops = true ->
  state_with_root st (cfield_tree f) ->
  let f' := fold_left astep ops f in
  exists st', run_ops fixed (compile_all ops) st = Ok st' /\
              state_with_root st' (cfield_tree f') /\
              root_tree st' = Ok (cfield_tree f') /\
              structure (cfield_tree f') = Ok f' /\
              root_text st' = Ok (render_field f').
Proof. exact history_constructed. Qed.
Check C11_history_constructed : forall ops f st,
  plain_field f = true -> forallb aop_plain ops = true -> hist_in_range f ops = true ->
  state_with_root st (cfield_tree f) ->
  let f' := fold_left astep ops f in
  exists st', run_ops fixed (compile_all ops) st = Ok st' /\
              state_with_root st' (cfield_tree f') /\
              root_tree st' = Ok (cfield_tree f') /\
              structure (cfield_tree f') = Ok f' /\
              root_text st' = Ok (render_field f').
Print Assumptions C11_history_constructed.

(* with identifier texts in the operands (names, versions, qualifiers) and non-empty entries, the printed text also READS BACK — strictly, without error — as the list model (through C10's reader theorem) *)
Theorem C11_history_constructed_reread : forall ops f st,
  lfield_ok f = true -> forallb aop_ok ops = true -> hist_in_range f ops = true ->
  state_with_root st (cfield_tree f) ->
  let f' := fold_left astep ops f in
  exists st', run_ops fixed (compile_all ops) st = Ok st' /\
              state_with_root st' (cfield_tree f') /\
              root_tree st' = Ok (cfield_tree f') /\
              structure (cfield_tree f') = Ok f' /\
              root_text st' = Ok (render_field f') /\
              exists t'', parse_relaxed (render_field f') true = Ok (t'', 0) /\
                          relations_from_str (render_field f') = Ok t'' /\
                          structure t'' = Ok f'.
Proof. exact history_constructed_full. Qed.
Check C11_history_constructed_reread : forall ops f st,
  lfield_ok f = true -> forallb aop_ok ops = true -> hist_in_range f ops = true ->
  state_with_root st (cfield_tree f) ->
  let f' := fold_left astep ops f in
  exists st', run_ops fixed (compile_all ops) st = Ok st' /\
              state_with_root st' (cfield_tree f') /\
              root_tree st' = Ok (cfield_tree f') /\
              structure (cfield_tree f') = Ok f' /\
              root_text st' = Ok (render_field f') /\
              exists t'', parse_relaxed (render_field f') true = Ok (t'', 0) /\
                          relations_from_str (render_field f') = Ok t'' /\
                          structure t'' = Ok f'.
Print Assumptions C11_history_constructed_reread.

Theorem C11_reparse_constructed : forall f, lfield_ok f = true ->
  exists t, parse_relaxed (render_field f) true = Ok (t, 0) /\
            relations_from_str (render_field f) = Ok t /\
            text t = render_field f /\
            structure t = Ok f.
Proof. exact reparse_constructed. Qed.
Check C11_reparse_constructed : forall f, lfield_ok f = true ->
  exists t, parse_relaxed (render_field f) true = Ok (t, 0) /\
            relations_from_str (render_field f) = Ok t /\
            text t = render_field f /\
            structure t = Ok f.
Print Assumptions C11_reparse_constructed.

(* the same from Relations::from(vec![Entry::from(vec![Relation::new(..), ..]), ..]) *)
Theorem C11_history_from_constructors : forall ops f,
  forallb (forallb new_only) f = true -> forallb aop_plain ops = true -> hist_in_range f ops = true ->
  let f' := fold_left astep ops f in
  exists st0 st', init_state fixed (IFromVec (map entry_spec f)) = Ok st0 /\
                  root_tree st0 = Ok (cfield_tree f) /\
                  run_ops fixed (compile_all ops) st0 = Ok st' /\
                  root_tree st' = Ok (cfield_tree f') /\
                  structure (cfield_tree f') = Ok f' /\
                  root_text st' = Ok (render_field f').
Proof. exact history_from_constructors. Qed.
Check C11_history_from_constructors : forall ops f,
  forallb (forallb new_only) f = true -> forallb aop_plain ops = true -> hist_in_range f ops = true ->
  let f' := fold_left astep ops f in
  exists st0 st', init_state fixed (IFromVec (map entry_spec f)) = Ok st0 /\
                  root_tree st0 = Ok (cfield_tree f) /\
                  run_ops fixed (compile_all ops) st0 = Ok st' /\
                  root_tree st' = Ok (cfield_tree f') /\
                  structure (cfield_tree f') = Ok f' /\
                  root_text st' = Ok (render_field f').
Print Assumptions C11_history_from_constructors.

(* and from the empty field, Relations::new() *)
Theorem C11_history_from_new : forall ops,
  forallb aop_plain ops = true -> hist_in_range [] ops = true ->
  let f' := fold_left astep ops [] in
  exists st0 st', init_state fixed INew = Ok st0 /\
                  run_ops fixed (compile_all ops) st0 = Ok st' /\
                  root_tree st' = Ok (cfield_tree f') /\
                  structure (cfield_tree f') = Ok f' /\
                  root_text st' = Ok (render_field f').
Proof. exact history_from_new. Qed.
Check C11_history_from_new : forall ops,
  forallb aop_plain ops = true -> hist_in_range [] ops = true ->
  let f' := fold_left astep ops [] in
  exists st0 st', init_state fixed INew = Ok st0 /\
                  run_ops fixed (compile_all ops) st0 = Ok st' /\
                  root_tree st' = Ok (cfield_tree f') /\
                  structure (cfield_tree f') = Ok f' /\
                  root_text st' = Ok (render_field f').
Print Assumptions C11_history_from_new.

(* 1b. ANY well-formed field (C10's RelGrammar.wf_rfield: every white space slot arbitrary, empty
   entries, trailing comma, substitution variables), all twelve operations.
   model/RelLive.v: live layouts [lroot] (which node owns which white space is explicit: an edit
   does not move white space between nodes, the parser would), [ltree], [lwf], [lcontent], the
   abstract operations [a_op] (which separators and white space come and go, by position), the
   list model on contents [xstep], [live_of : rfield -> lroot], [norm : lroot -> rfield].
   An exact  op (rtree_of f) = rtree_of f'  is false in general (after removing the last entry of
   "a , b " the white space stays a child of the ROOT; the parser puts it into the RELATION), so
   the single-step statement is on live layouts and comes back to fields through [norm]:
   same text, well-formed, same content. *)
(* every well-formed field is a live layout: same tree, well-formed, same content *)
Theorem C11_any_layout : forall b f, wf_rfield b f = true ->
  ltree (live_of f) = rtree_of f /\ lwf b (live_of f) = true /\ lcontent (live_of f) = rcontent f.
Proof. exact (fun b f H => conj (ltree_live_of f) (conj (lwf_live_of b f H) (lcontent_live_of f))). Qed.
Check C11_any_layout : forall b f, wf_rfield b f = true ->
  ltree (live_of f) = rtree_of f /\ lwf b (live_of f) = true /\ lcontent (live_of f) = rcontent f.
Print Assumptions C11_any_layout.

(* every well-formed live layout reads as a well-formed field: same text, same content *)
Theorem C11_any_norm : forall b l, lwf b l = true ->
  rrender (norm l) = text (ltree l) /\ wf_rfield b (norm l) = true /\ rcontent (norm l) = lcontent l.
Proof. exact (fun b l H => conj (rrender_norm b l H) (conj (wf_norm b l H) (rcontent_norm b l H))). Qed.
Check C11_any_norm : forall b l, lwf b l = true ->
  rrender (norm l) = text (ltree l) /\ wf_rfield b (norm l) = true /\ rcontent (norm l) = lcontent l.
Print Assumptions C11_any_norm.

(* (1) one operation, on trees: defined (no panic), the tree of the abstract operation's layout, well-formed, the list model on contents, substitution variables kept, the other entries the very same layouts (estep: a list operation on the entries) *)
Theorem C11_any_step_tree : forall b o l, lwf b l = true -> operands_ok o = true -> x_in_range (fst (lcontent l)) o = true ->
  exists l', a_op o l = Some l' /\
             t_op o (ltree l) = Ok (ltree l') /\
             lwf b l' = true /\
             lcontent l' = (xstep (fst (lcontent l)) o, snd (lcontent l)) /\
             lentries l' = estep (lentries l) o.
Proof. exact live_step_tree. Qed.
Check C11_any_step_tree : forall b o l, lwf b l = true -> operands_ok o = true -> x_in_range (fst (lcontent l)) o = true ->
  exists l', a_op o l = Some l' /\
             t_op o (ltree l) = Ok (ltree l') /\
             lwf b l' = true /\
             lcontent l' = (xstep (fst (lcontent l)) o, snd (lcontent l)) /\
             lentries l' = estep (lentries l) o.
Print Assumptions C11_any_step_tree.

(* (1) one operation, on the store: the register machine, started with the tree of ANY well-formed live layout in the root register, does not panic and ends with the tree of the abstract operation's layout in the root register *)
Theorem C11_any_step : forall b o l st, lwf b l = true -> operands_ok o = true ->
  x_in_range (fst (lcontent l)) o = true -> holds st (ltree l) ->
  exists l' st', a_op o l = Some l' /\
                 run_ops fixed (compile o) st = Ok st' /\ holds st' (ltree l') /\
                 lwf b l' = true /\
                 lcontent l' = (xstep (fst (lcontent l)) o, snd (lcontent l)) /\
                 lentries l' = estep (lentries l) o.
Proof. exact live_step. Qed.
Check C11_any_step : forall b o l st, lwf b l = true -> operands_ok o = true ->
  x_in_range (fst (lcontent l)) o = true -> holds st (ltree l) ->
  exists l' st', a_op o l = Some l' /\
                 run_ops fixed (compile o) st = Ok st' /\ holds st' (ltree l') /\
                 lwf b l' = true /\
                 lcontent l' = (xstep (fst (lcontent l)) o, snd (lcontent l)) /\
                 lentries l' = estep (lentries l) o.
Print Assumptions C11_any_step.

(* (1) the same stated on fields: f_op o = norm . a_op o . live_of *)
Theorem C11_any_field_step : forall b o f, wf_rfield b f = true -> operands_ok o = true -> x_in_range (fst (rcontent f)) o = true ->
  exists f' T', f_op o f = Some f' /\
                t_op o (rtree_of f) = Ok T' /\ text T' = rrender f' /\
                wf_rfield b f' = true /\
                rcontent f' = (xstep (fst (rcontent f)) o, snd (rcontent f)).
Proof. exact field_step. Qed.
Check C11_any_field_step : forall b o f, wf_rfield b f = true -> operands_ok o = true -> x_in_range (fst (rcontent f)) o = true ->
  exists f' T', f_op o f = Some f' /\
                t_op o (rtree_of f) = Ok T' /\ text T' = rrender f' /\
                wf_rfield b f' = true /\
                rcontent f' = (xstep (fst (rcontent f)) o, snd (rcontent f)).
Print Assumptions C11_any_field_step.

(* frame: whenever an abstract operation is defined (any layout, well-formed or not) the entries change by the list operation and the substitution variables stay *)
Theorem C11_any_step_frame : forall o l l', a_op o l = Some l' ->
  lentries l' = estep (lentries l) o /\ lsubsts l' = lsubsts l /\ e_in_range (lentries l) o = true.
Proof. exact entries_step. Qed.
Check C11_any_step_frame : forall o l l', a_op o l = Some l' ->
  lentries l' = estep (lentries l) o /\ lsubsts l' = lsubsts l /\ e_in_range (lentries l) o = true.
Print Assumptions C11_any_step_frame.

(* (3) the text of a well-formed live layout reads back, without error, to its content (through C10) *)
Theorem C11_any_reread : forall b l, lwf b l = true ->
  exists a, parse_relaxed (text (ltree l)) b = Ok (rtree_of (norm l), 0) /\
            text (rtree_of (norm l)) = text (ltree l) /\
            racc (rtree_of (norm l)) = Ok a /\ racc_view a = lcontent l.
Proof. exact live_reread. Qed.
Check C11_any_reread : forall b l, lwf b l = true ->
  exists a, parse_relaxed (text (ltree l)) b = Ok (rtree_of (norm l), 0) /\
            text (rtree_of (norm l)) = text (ltree l) /\
            racc (rtree_of (norm l)) = Ok a /\ racc_view a = lcontent l.
Print Assumptions C11_any_reread.

(* (2)+(3) histories: from the tree of ANY well-formed field, every in-range history of the twelve operations (operands built by the constructors, identifier texts) runs without panic; the root then prints a well-formed field whose content is the list model's, substitution variables unchanged, the SEPARATORS are the slot model's (RelEditSpec.tree_slots / sstep, RelLive.xslots_after: no slot holds two items, a new entry gets exactly one separator, an appended one fills a trailing empty slot, a removed one takes its separator along), and that text reads back without error to exactly that content.  (Apply it to every prefix of a history for the statement after every step; C11_any_history_all gives all intermediate layouts at once.) *)
Theorem C11_any_history : forall b ops f st, wf_rfield b f = true -> forallb operands_ok ops = true ->
  xsteps_in_range (fst (rcontent f)) ops = true -> holds st (rtree_of f) ->
  exists l' st',
    a_ops ops (live_of f) = Some l' /\
    run_ops fixed (compile_all ops) st = Ok st' /\
    root_tree st' = Ok (ltree l') /\ root_text st' = Ok (rrender (norm l')) /\
    wf_rfield b (norm l') = true /\
    rcontent (norm l') = (fold_left xstep ops (fst (rcontent f)), snd (rcontent f)) /\
    field_shape (ltree l') = true /\
    tree_slots (ltree l') = xslots_after ops (fst (rcontent f)) (tree_slots (rtree_of f)) /\
    exists a, parse_relaxed (rrender (norm l')) b = Ok (rtree_of (norm l'), 0) /\
              racc (rtree_of (norm l')) = Ok a /\
              racc_view a = (fold_left xstep ops (fst (rcontent f)), snd (rcontent f)).
Proof. exact RelLiveHistSepsP.history_any_field_seps. Qed.
Check C11_any_history : forall b ops f st, wf_rfield b f = true -> forallb operands_ok ops = true ->
  xsteps_in_range (fst (rcontent f)) ops = true -> holds st (rtree_of f) ->
  exists l' st',
    a_ops ops (live_of f) = Some l' /\
    run_ops fixed (compile_all ops) st = Ok st' /\
    root_tree st' = Ok (ltree l') /\ root_text st' = Ok (rrender (norm l')) /\
    wf_rfield b (norm l') = true /\
    rcontent (norm l') = (fold_left xstep ops (fst (rcontent f)), snd (rcontent f)) /\
    field_shape (ltree l') = true /\
    tree_slots (ltree l') = xslots_after ops (fst (rcontent f)) (tree_slots (rtree_of f)) /\
    exists a, parse_relaxed (rrender (norm l')) b = Ok (rtree_of (norm l'), 0) /\
              racc (rtree_of (norm l')) = Ok a /\
              racc_view a = (fold_left xstep ops (fst (rcontent f)), snd (rcontent f)).
Print Assumptions C11_any_history.

Theorem C11_any_history_all : forall b ops l, lwf b l = true -> forallb operands_ok ops = true ->
  xsteps_in_range (fst (lcontent l)) ops = true ->
  exists tr, a_trace ops l = Some tr /\ length tr = length ops /\
             Forall (fun l' => lwf b l' = true /\ snd (lcontent l') = snd (lcontent l)) tr.
Proof. exact live_history_all. Qed.
Check C11_any_history_all : forall b ops l, lwf b l = true -> forallb operands_ok ops = true ->
  xsteps_in_range (fst (lcontent l)) ops = true ->
  exists tr, a_trace ops l = Some tr /\ length tr = length ops /\
             Forall (fun l' => lwf b l' = true /\ snd (lcontent l') = snd (lcontent l)) tr.
Print Assumptions C11_any_history_all.

(* the same from the parsed text of the field (Relations::parse_relaxed(text, true)), ... *)
Theorem C11_any_history_from_text : forall ops f, wf_rfield true f = true -> forallb operands_ok ops = true ->
  xsteps_in_range (fst (rcontent f)) ops = true ->
  exists st0 l' st',
    init_state fixed (IRelaxed (rrender f)) = Ok st0 /\
    a_ops ops (live_of f) = Some l' /\
    run_ops fixed (compile_all ops) st0 = Ok st' /\
    root_tree st' = Ok (ltree l') /\ root_text st' = Ok (rrender (norm l')) /\
    wf_rfield true (norm l') = true /\
    rcontent (norm l') = (fold_left xstep ops (fst (rcontent f)), snd (rcontent f)) /\
    exists a, parse_relaxed (rrender (norm l')) true = Ok (rtree_of (norm l'), 0) /\
              racc (rtree_of (norm l')) = Ok a /\
              racc_view a = (fold_left xstep ops (fst (rcontent f)), snd (rcontent f)).
Proof. exact history_from_text. Qed.
Check C11_any_history_from_text : forall ops f, wf_rfield true f = true -> forallb operands_ok ops = true ->
  xsteps_in_range (fst (rcontent f)) ops = true ->
  exists st0 l' st',
    init_state fixed (IRelaxed (rrender f)) = Ok st0 /\
    a_ops ops (live_of f) = Some l' /\
    run_ops fixed (compile_all ops) st0 = Ok st' /\
    root_tree st' = Ok (ltree l') /\ root_text st' = Ok (rrender (norm l')) /\
    wf_rfield true (norm l') = true /\
    rcontent (norm l') = (fold_left xstep ops (fst (rcontent f)), snd (rcontent f)) /\
    exists a, parse_relaxed (rrender (norm l')) true = Ok (rtree_of (norm l'), 0) /\
              racc (rtree_of (norm l')) = Ok a /\
              racc_view a = (fold_left xstep ops (fst (rcontent f)), snd (rcontent f)).
Print Assumptions C11_any_history_from_text.

(* ... from text.parse::<Relations>() with the STRICT re-read (Relations::from_str) of the result, ... *)
Theorem C11_any_history_from_strict_text : forall ops f, wf_rfield false f = true -> forallb operands_ok ops = true ->
  xsteps_in_range (fst (rcontent f)) ops = true ->
  exists st0 l' st',
    init_state fixed (IStrict (rrender f)) = Ok st0 /\
    a_ops ops (live_of f) = Some l' /\
    run_ops fixed (compile_all ops) st0 = Ok st' /\
    root_text st' = Ok (rrender (norm l')) /\
    wf_rfield false (norm l') = true /\
    relations_from_str (rrender (norm l')) = Ok (rtree_of (norm l')) /\
    exists a, racc (rtree_of (norm l')) = Ok a /\
              racc_view a = (fold_left xstep ops (fst (rcontent f)), snd (rcontent f)).
Proof. exact history_from_strict_text. Qed.
Check C11_any_history_from_strict_text : forall ops f, wf_rfield false f = true -> forallb operands_ok ops = true ->
  xsteps_in_range (fst (rcontent f)) ops = true ->
  exists st0 l' st',
    init_state fixed (IStrict (rrender f)) = Ok st0 /\
    a_ops ops (live_of f) = Some l' /\
    run_ops fixed (compile_all ops) st0 = Ok st' /\
    root_text st' = Ok (rrender (norm l')) /\
    wf_rfield false (norm l') = true /\
    relations_from_str (rrender (norm l')) = Ok (rtree_of (norm l')) /\
    exists a, racc (rtree_of (norm l')) = Ok a /\
              racc_view a = (fold_left xstep ops (fst (rcontent f)), snd (rcontent f)).
Print Assumptions C11_any_history_from_strict_text.

(* ... and from the empty field, Relations::new() *)
Theorem C11_any_history_from_empty : forall ops, forallb operands_ok ops = true -> xsteps_in_range [] ops = true ->
  exists st0 l' st',
    init_state fixed INew = Ok st0 /\
    a_ops ops [] = Some l' /\
    run_ops fixed (compile_all ops) st0 = Ok st' /\
    root_text st' = Ok (rrender (norm l')) /\
    wf_rfield false (norm l') = true /\
    relations_from_str (rrender (norm l')) = Ok (rtree_of (norm l')) /\
    exists a, racc (rtree_of (norm l')) = Ok a /\ racc_view a = (fold_left xstep ops [], []).
Proof. exact history_from_empty. Qed.
Check C11_any_history_from_empty : forall ops, forallb operands_ok ops = true -> xsteps_in_range [] ops = true ->
  exists st0 l' st',
    init_state fixed INew = Ok st0 /\
    a_ops ops [] = Some l' /\
    run_ops fixed (compile_all ops) st0 = Ok st' /\
    root_text st' = Ok (rrender (norm l')) /\
    wf_rfield false (norm l') = true /\
    relations_from_str (rrender (norm l')) = Ok (rtree_of (norm l')) /\
    exists a, racc (rtree_of (norm l')) = Ok a /\ racc_view a = (fold_left xstep ops [], []).
Print Assumptions C11_any_history_from_empty.

(* the store level on ANY tree (no assumption on the layout; for Entry::replace: the replaced alternative does not begin with white space): the register machine computes the pure tree function t_op of model/RelEditTree.v *)
Theorem C11_any_machine_step : forall o T T' st,
  operands_new_all o = true -> is_node T = true -> ereplace_ready o T -> holds st T -> t_op o T = Ok T' ->
  exists st', run_ops fixed (compile o) st = Ok st' /\ holds st' T'.
Proof. exact op_step_tree_all. Qed.
Check C11_any_machine_step : forall o T T' st,
  operands_new_all o = true -> is_node T = true -> ereplace_ready o T -> holds st T -> t_op o T = Ok T' ->
  exists st', run_ops fixed (compile o) st = Ok st' /\ holds st' T'.
Print Assumptions C11_any_machine_step.

(* 1c. Operands obtained by PARSING (Entry::from_str / Relation::from_str of the text of any
   well-formed entry / relation: the operand handle points INTO the parsed tree, and an edit that
   attaches it detaches it from there first), model/RelLive.v [pop], [pcompile], [a_pop], [pxstep];
   [gop] = either kind of operand. *)
(* the store level on ANY tree: parse the operand, obtain the handle into the parsed tree, run the operation = the tree function tt_op with the operand's node *)
Theorem C11_any_parsed_machine_step : forall o T T' st,
  poperands_ok o = true -> is_node T = true -> preplace_ready o T -> holds st T -> tt_op (ptop o) T = Ok T' ->
  exists st', run_ops fixed (pcompile o) st = Ok st' /\ holds st' T'.
Proof. exact pop_step_tree. Qed.
Check C11_any_parsed_machine_step : forall o T T' st,
  poperands_ok o = true -> is_node T = true -> preplace_ready o T -> holds st T -> tt_op (ptop o) T = Ok T' ->
  exists st', run_ops fixed (pcompile o) st = Ok st' /\ holds st' T'.
Print Assumptions C11_any_parsed_machine_step.

(* (1) one operation with either kind of operand on ANY well-formed live layout *)
Theorem C11_any_mixed_step : forall b o l st, lwf b l = true -> goperands_ok o = true ->
  g_in_range (fst (lcontent l)) o = true -> holds st (ltree l) ->
  exists l' st', g_op o l = Some l' /\
                 run_ops fixed (gcompile o) st = Ok st' /\ holds st' (ltree l') /\
                 lwf b l' = true /\
                 lcontent l' = (gxstep (fst (lcontent l)) o, snd (lcontent l)).
Proof. exact g_step. Qed.
Check C11_any_mixed_step : forall b o l st, lwf b l = true -> goperands_ok o = true ->
  g_in_range (fst (lcontent l)) o = true -> holds st (ltree l) ->
  exists l' st', g_op o l = Some l' /\
                 run_ops fixed (gcompile o) st = Ok st' /\ holds st' (ltree l') /\
                 lwf b l' = true /\
                 lcontent l' = (gxstep (fst (lcontent l)) o, snd (lcontent l)).
Print Assumptions C11_any_mixed_step.

(* (2)+(3) histories mixing constructor-built and parsed operands, from any well-formed field, with the separators and the re-read *)
Theorem C11_any_mixed_history : forall b ops f st, wf_rfield b f = true -> forallb goperands_ok ops = true ->
  gsteps_in_range (fst (rcontent f)) ops = true -> holds st (rtree_of f) ->
  exists l' st',
    g_ops ops (live_of f) = Some l' /\
    run_ops fixed (gcompile_all ops) st = Ok st' /\
    root_tree st' = Ok (ltree l') /\ root_text st' = Ok (rrender (norm l')) /\
    wf_rfield b (norm l') = true /\
    rcontent (norm l') = (fold_left gxstep ops (fst (rcontent f)), snd (rcontent f)) /\
    field_shape (ltree l') = true /\
    tree_slots (ltree l') = gslots_after ops (fst (rcontent f)) (tree_slots (rtree_of f)) /\
    exists a, parse_relaxed (rrender (norm l')) b = Ok (rtree_of (norm l'), 0) /\
              racc (rtree_of (norm l')) = Ok a /\
              racc_view a = (fold_left gxstep ops (fst (rcontent f)), snd (rcontent f)).
Proof. exact RelLiveHistSepsP.g_history_any_field_seps. Qed.
Check C11_any_mixed_history : forall b ops f st, wf_rfield b f = true -> forallb goperands_ok ops = true ->
  gsteps_in_range (fst (rcontent f)) ops = true -> holds st (rtree_of f) ->
  exists l' st',
    g_ops ops (live_of f) = Some l' /\
    run_ops fixed (gcompile_all ops) st = Ok st' /\
    root_tree st' = Ok (ltree l') /\ root_text st' = Ok (rrender (norm l')) /\
    wf_rfield b (norm l') = true /\
    rcontent (norm l') = (fold_left gxstep ops (fst (rcontent f)), snd (rcontent f)) /\
    field_shape (ltree l') = true /\
    tree_slots (ltree l') = gslots_after ops (fst (rcontent f)) (tree_slots (rtree_of f)) /\
    exists a, parse_relaxed (rrender (norm l')) b = Ok (rtree_of (norm l'), 0) /\
              racc (rtree_of (norm l')) = Ok a /\
              racc_view a = (fold_left gxstep ops (fst (rcontent f)), snd (rcontent f)).
Print Assumptions C11_any_mixed_history.

(* the separator conjunct for the other history theorems of this section (C11_any_history_from_text, _from_strict_text, _from_empty: they give `a_ops ops (live_of f) = Some l'` and the root holding `ltree l'`) *)
Theorem C11_any_history_seps : forall b ops f l', wf_rfield b f = true -> forallb operands_ok ops = true ->
  xsteps_in_range (fst (rcontent f)) ops = true -> a_ops ops (live_of f) = Some l' ->
  field_shape (ltree l') = true /\
  tree_slots (ltree l') = xslots_after ops (fst (rcontent f)) (tree_slots (rtree_of f)).
Proof. exact RelLiveHistSepsP.any_history_slots. Qed.
Check C11_any_history_seps : forall b ops f l', wf_rfield b f = true -> forallb operands_ok ops = true ->
  xsteps_in_range (fst (rcontent f)) ops = true -> a_ops ops (live_of f) = Some l' ->
  field_shape (ltree l') = true /\
  tree_slots (ltree l') = xslots_after ops (fst (rcontent f)) (tree_slots (rtree_of f)).
Print Assumptions C11_any_history_seps.

(* and for C11_any_mixed_history_from_text *)
Theorem C11_any_mixed_history_seps : forall b ops f l', wf_rfield b f = true -> forallb goperands_ok ops = true ->
  gsteps_in_range (fst (rcontent f)) ops = true -> g_ops ops (live_of f) = Some l' ->
  field_shape (ltree l') = true /\
  tree_slots (ltree l') = gslots_after ops (fst (rcontent f)) (tree_slots (rtree_of f)).
Proof. exact RelLiveHistSepsP.any_mixed_history_slots. Qed.
Check C11_any_mixed_history_seps : forall b ops f l', wf_rfield b f = true -> forallb goperands_ok ops = true ->
  gsteps_in_range (fst (rcontent f)) ops = true -> g_ops ops (live_of f) = Some l' ->
  field_shape (ltree l') = true /\
  tree_slots (ltree l') = gslots_after ops (fst (rcontent f)) (tree_slots (rtree_of f)).
Print Assumptions C11_any_mixed_history_seps.

Theorem C11_any_mixed_history_from_text : forall ops f, wf_rfield true f = true -> forallb goperands_ok ops = true ->
  gsteps_in_range (fst (rcontent f)) ops = true ->
  exists st0 l' st',
    init_state fixed (IRelaxed (rrender f)) = Ok st0 /\
    g_ops ops (live_of f) = Some l' /\
    run_ops fixed (gcompile_all ops) st0 = Ok st' /\
    root_tree st' = Ok (ltree l') /\ root_text st' = Ok (rrender (norm l')) /\
    wf_rfield true (norm l') = true /\
    rcontent (norm l') = (fold_left gxstep ops (fst (rcontent f)), snd (rcontent f)) /\
    exists a, parse_relaxed (rrender (norm l')) true = Ok (rtree_of (norm l'), 0) /\
              racc (rtree_of (norm l')) = Ok a /\
              racc_view a = (fold_left gxstep ops (fst (rcontent f)), snd (rcontent f)).
Proof. exact g_history_from_text. Qed.
Check C11_any_mixed_history_from_text : forall ops f, wf_rfield true f = true -> forallb goperands_ok ops = true ->
  gsteps_in_range (fst (rcontent f)) ops = true ->
  exists st0 l' st',
    init_state fixed (IRelaxed (rrender f)) = Ok st0 /\
    g_ops ops (live_of f) = Some l' /\
    run_ops fixed (gcompile_all ops) st0 = Ok st' /\
    root_tree st' = Ok (ltree l') /\ root_text st' = Ok (rrender (norm l')) /\
    wf_rfield true (norm l') = true /\
    rcontent (norm l') = (fold_left gxstep ops (fst (rcontent f)), snd (rcontent f)) /\
    exists a, parse_relaxed (rrender (norm l')) true = Ok (rtree_of (norm l'), 0) /\
              racc (rtree_of (norm l')) = Ok a /\
              racc_view a = (fold_left gxstep ops (fst (rcontent f)), snd (rcontent f)).
Print Assumptions C11_any_mixed_history_from_text.

(* 1d. Handles obtained at ANY earlier time (the former finding c11-handle-after-rebuild, turned
   into theorems by proposed_fixes/C11-10).  model/RelHandles.v reads ANY program of the eighteen
   operations of the register machine, issued through ANY registers (as the rel-edit stream issues
   them: handles are kept and used after other edits), on the list model: a register holds a
   REFERENCE — the root, the i-th entry, the j-th alternative of the i-th entry, an operand not yet
   handed over, or a node that has left the field — and [h_op] says what the operation does to
   the content (one step of xstep, or nothing) and how every reference moves (insert in front:
   +1; remove in front: -1; the removed / replaced node: Gone).  [Rel b sv st a]: the root
   register of the machine state st holds the tree of a well-formed live layout with content
   (h_f a, sv) and EVERY register holds what the abstract state a says: a handle to that very
   entry / alternative of the current tree.  Scope (h_op = None otherwise): operands built by
   Entry::from(vec![Relation::new(..)..]) / Relation::new(..) and handed over as built; no
   operation is issued through a handle whose node has left the field or through a handle into
   an operand; positions in range. *)
(* one operation, through whatever registers it names: no panic, and the relation holds again — the root holds the layout with the list model's content, every handle (obtained at any earlier time) denotes the entry / alternative the abstract state says *)
Theorem C11_handles_step : forall b sv st a o a' tr,
  Rel b sv st a -> h_op o a = Some (a', tr) -> forallb operands_ok tr = true ->
  exists out st', run_op fixed o st = Ok (out, st') /\ Rel b sv st' a'.
Proof. exact handles_step. Qed.
Check C11_handles_step : forall b sv st a o a' tr,
  Rel b sv st a -> h_op o a = Some (a', tr) -> forallb operands_ok tr = true ->
  exists out st', run_op fixed o st = Ok (out, st') /\ Rel b sv st' a'.
Print Assumptions C11_handles_step.

(* programs, by induction *)
Theorem C11_handles_history : forall b sv ops st a a' tr,
  Rel b sv st a -> h_ops ops a = Some (a', tr) -> forallb operands_ok tr = true ->
  exists st', run_ops fixed ops st = Ok st' /\ Rel b sv st' a'.
Proof. exact handles_history. Qed.
Check C11_handles_history : forall b sv ops st a a' tr,
  Rel b sv st a -> h_ops ops a = Some (a', tr) -> forallb operands_ok tr = true ->
  exists st', run_ops fixed ops st = Ok st' /\ Rel b sv st' a'.
Print Assumptions C11_handles_history.

(* (1)-(3) for handles obtained at any time — the analogue of C04H_history: from ANY well-formed field, ANY in-scope program of the eighteen operations through ANY registers runs without panic; the root then holds a well-formed layout whose content is the list model's history [tr] folded over the content of the field, substitution variables unchanged; its text reads back without error to exactly that content; and every register denotes what the abstract state says (Rel) *)
Theorem C11_handles_history_field : forall b f st ops a' tr,
  wf_rfield b f = true -> holds st (rtree_of f) ->
  h_ops ops (mk_hstate (fst (rcontent f)) (h_of st)) = Some (a', tr) -> forallb operands_ok tr = true ->
  exists st' l',
    run_ops fixed ops st = Ok st' /\
    Rel b (snd (rcontent f)) st' a' /\
    h_f a' = fold_left xstep tr (fst (rcontent f)) /\
    root_tree st' = Ok (ltree l') /\ root_text st' = Ok (text (ltree l')) /\
    lwf b l' = true /\ lcontent l' = (fold_left xstep tr (fst (rcontent f)), snd (rcontent f)) /\
    exists acc, parse_relaxed (text (ltree l')) b = Ok (rtree_of (norm l'), 0) /\
                text (rtree_of (norm l')) = text (ltree l') /\
                racc (rtree_of (norm l')) = Ok acc /\
                racc_view acc = (fold_left xstep tr (fst (rcontent f)), snd (rcontent f)).
Proof. exact handles_history_field. Qed.
Check C11_handles_history_field : forall b f st ops a' tr,
  wf_rfield b f = true -> holds st (rtree_of f) ->
  h_ops ops (mk_hstate (fst (rcontent f)) (h_of st)) = Some (a', tr) -> forallb operands_ok tr = true ->
  exists st' l',
    run_ops fixed ops st = Ok st' /\
    Rel b (snd (rcontent f)) st' a' /\
    h_f a' = fold_left xstep tr (fst (rcontent f)) /\
    root_tree st' = Ok (ltree l') /\ root_text st' = Ok (text (ltree l')) /\
    lwf b l' = true /\ lcontent l' = (fold_left xstep tr (fst (rcontent f)), snd (rcontent f)) /\
    exists acc, parse_relaxed (text (ltree l')) b = Ok (rtree_of (norm l'), 0) /\
                text (rtree_of (norm l')) = text (ltree l') /\
                racc (rtree_of (norm l')) = Ok acc /\
                racc_view acc = (fold_left xstep tr (fst (rcontent f)), snd (rcontent f)).
Print Assumptions C11_handles_history_field.

(* what the relation says about the root *)
Theorem C11_handles_reread : forall b sv st a, Rel b sv st a ->
  exists l, root_tree st = Ok (ltree l) /\ root_text st = Ok (text (ltree l)) /\
            lwf b l = true /\ lcontent l = (h_f a, sv) /\
            exists acc, parse_relaxed (text (ltree l)) b = Ok (rtree_of (norm l), 0) /\
                        text (rtree_of (norm l)) = text (ltree l) /\
                        racc (rtree_of (norm l)) = Ok acc /\ racc_view acc = (h_f a, sv).
Proof. exact Rel_reread. Qed.
Check C11_handles_reread : forall b sv st a, Rel b sv st a ->
  exists l, root_tree st = Ok (ltree l) /\ root_text st = Ok (text (ltree l)) /\
            lwf b l = true /\ lcontent l = (h_f a, sv) /\
            exists acc, parse_relaxed (text (ltree l)) b = Ok (rtree_of (norm l), 0) /\
                        text (rtree_of (norm l)) = text (ltree l) /\
                        racc (rtree_of (norm l)) = Ok acc /\ racc_view acc = (h_f a, sv).
Print Assumptions C11_handles_reread.

(* what it says about an Entry handle: Entry::to_string() through the (old) handle is the text of the i-th entry of the field as it is now *)
Theorem C11_handles_entry : forall b sv st a k i, Rel b sv st a -> h_reg a (ereg k) = Some (ELive i) ->
  exists l e, root_tree st = Ok (ltree l) /\ lcontent l = (h_f a, sv) /\
              nth_error (lentries l) i = Some e /\
              reg_text (ereg k) st = Ok (Some (text (lentry_tree e)), st).
Proof. exact Rel_entry_handle. Qed.
Check C11_handles_entry : forall b sv st a k i, Rel b sv st a -> h_reg a (ereg k) = Some (ELive i) ->
  exists l e, root_tree st = Ok (ltree l) /\ lcontent l = (h_f a, sv) /\
              nth_error (lentries l) i = Some e /\
              reg_text (ereg k) st = Ok (Some (text (lentry_tree e)), st).
Print Assumptions C11_handles_entry.

(* and about a Relation handle *)
Theorem C11_handles_relation : forall b sv st a m i j, Rel b sv st a -> h_reg a (rreg m) = Some (RLive i j) ->
  exists l e r, root_tree st = Ok (ltree l) /\ lcontent l = (h_f a, sv) /\
                nth_error (lentries l) i = Some e /\ nth_rel e j = Some r /\
                reg_text (rreg m) st = Ok (Some (text (lrel_tree r)), st).
Proof. exact Rel_relation_handle. Qed.
Check C11_handles_relation : forall b sv st a m i j, Rel b sv st a -> h_reg a (rreg m) = Some (RLive i j) ->
  exists l e r, root_tree st = Ok (ltree l) /\ lcontent l = (h_f a, sv) /\
                nth_error (lentries l) i = Some e /\ nth_rel e j = Some r /\
                reg_text (rreg m) st = Ok (Some (text (lrel_tree r)), st).
Print Assumptions C11_handles_relation.

(* the relation holds at the start, whatever the other registers hold (h_of: Gone) *)
Theorem C11_handles_start : forall b st l, holds st (ltree l) -> lwf b l = true ->
  Rel b (snd (lcontent l)) st (mk_hstate (fst (lcontent l)) (h_of st)).
Proof. exact Rel_of_holds. Qed.
Check C11_handles_start : forall b st l, holds st (ltree l) -> lwf b l = true ->
  Rel b (snd (lcontent l)) st (mk_hstate (fst (lcontent l)) (h_of st)).
Print Assumptions C11_handles_start.

(* 1e. From ANY text the reader accepts without error, and operands built by RelationBuilder: C11_full.
   model/RelLiveAll.v mirrors RelLive.v name by name with LIBERAL parts (RelGrammarAll's aqual / aver /
   agroup / pgroup: any operator run, versions like 5::, [], <>, [!! x !], <! a>, CR as white space):
   the editing operations only look at the KINDS of a relation's children, the inside of a part is
   carried along unchanged.  Content = the record RelEdit.structure reads (relrec), list model =
   RelEditSpec.astep, operands = what Relation::new / RelationBuilder build (RelEditSpec.brel_tree).
   Names of that development are written qualified here. *)
(* every text read without error whose accessors do not panic (structure = Ok: every operator is one of the five) is the tree of a well-formed liberal live layout with that content (through C10_image) *)
Theorem C11_all_start : forall b s t0 f0, parse_relaxed s b = Ok (t0, 0) -> structure t0 = Ok f0 ->
  exists l0, RelLiveAll.ltree l0 = t0 /\ RelLiveAll.lwf b l0 = true /\ fst (RelLiveAll.lcontent l0) = f0.
Proof. exact RelLiveAllHistP.start_layout. Qed.
Check C11_all_start : forall b s t0 f0, parse_relaxed s b = Ok (t0, 0) -> structure t0 = Ok f0 ->
  exists l0, RelLiveAll.ltree l0 = t0 /\ RelLiveAll.lwf b l0 = true /\ fst (RelLiveAll.lcontent l0) = f0.
Print Assumptions C11_all_start.

(* (1) one operation (all twelve; operands_ok = RelEditSpec.wf_operands: any record with identifier texts, built by Relation::new or RelationBuilder) on ANY well-formed liberal layout: no panic, the tree of the abstract operation's layout, well-formed, list model astep on contents, substitution variables and the other entries untouched *)
Theorem C11_all_step : forall b o l st, RelLiveAll.lwf b l = true -> RelLiveAll.operands_ok o = true ->
  RelLiveAll.x_in_range (fst (RelLiveAll.lcontent l)) o = true -> holds st (RelLiveAll.ltree l) ->
  exists l' st', RelLiveAll.a_op o l = Some l' /\
                 run_ops fixed (compile o) st = Ok st' /\ holds st' (RelLiveAll.ltree l') /\
                 RelLiveAll.lwf b l' = true /\
                 RelLiveAll.lcontent l' = (RelLiveAll.xstep (fst (RelLiveAll.lcontent l)) o, snd (RelLiveAll.lcontent l)) /\
                 RelLiveAllStepP.lentries l' = RelLiveAllStepP.estep (RelLiveAllStepP.lentries l) o /\
                 field_shape (RelLiveAll.ltree l') = true /\
                 tree_slots (RelLiveAll.ltree l') = sstep (fst (RelLiveAll.lcontent l)) (tree_slots (RelLiveAll.ltree l)) o.
Proof. exact RelLiveAllHistP.live_step_seps. Qed.
Check C11_all_step : forall b o l st, RelLiveAll.lwf b l = true -> RelLiveAll.operands_ok o = true ->
  RelLiveAll.x_in_range (fst (RelLiveAll.lcontent l)) o = true -> holds st (RelLiveAll.ltree l) ->
  exists l' st', RelLiveAll.a_op o l = Some l' /\
                 run_ops fixed (compile o) st = Ok st' /\ holds st' (RelLiveAll.ltree l') /\
                 RelLiveAll.lwf b l' = true /\
                 RelLiveAll.lcontent l' = (RelLiveAll.xstep (fst (RelLiveAll.lcontent l)) o, snd (RelLiveAll.lcontent l)) /\
                 RelLiveAllStepP.lentries l' = RelLiveAllStepP.estep (RelLiveAllStepP.lentries l) o /\
                 field_shape (RelLiveAll.ltree l') = true /\
                 tree_slots (RelLiveAll.ltree l') = sstep (fst (RelLiveAll.lcontent l)) (tree_slots (RelLiveAll.ltree l)) o.
Print Assumptions C11_all_step.

(* (2) histories, with the separators *)
Theorem C11_all_history : forall b ops l st, RelLiveAll.lwf b l = true -> forallb RelLiveAll.operands_ok ops = true ->
  hist_in_range (fst (RelLiveAll.lcontent l)) ops = true -> holds st (RelLiveAll.ltree l) ->
  exists l' st', RelLiveAll.a_ops ops l = Some l' /\
                 run_ops fixed (compile_all ops) st = Ok st' /\ holds st' (RelLiveAll.ltree l') /\
                 RelLiveAll.lwf b l' = true /\
                 RelLiveAll.lcontent l' = (fold_left astep ops (fst (RelLiveAll.lcontent l)), snd (RelLiveAll.lcontent l)) /\
                 field_shape (RelLiveAll.ltree l') = true /\
                 tree_slots (RelLiveAll.ltree l') = slots_after ops (fst (RelLiveAll.lcontent l)) (tree_slots (RelLiveAll.ltree l)).
Proof. exact RelLiveAllHistP.live_history_seps. Qed.
Check C11_all_history : forall b ops l st, RelLiveAll.lwf b l = true -> forallb RelLiveAll.operands_ok ops = true ->
  hist_in_range (fst (RelLiveAll.lcontent l)) ops = true -> holds st (RelLiveAll.ltree l) ->
  exists l' st', RelLiveAll.a_ops ops l = Some l' /\
                 run_ops fixed (compile_all ops) st = Ok st' /\ holds st' (RelLiveAll.ltree l') /\
                 RelLiveAll.lwf b l' = true /\
                 RelLiveAll.lcontent l' = (fold_left astep ops (fst (RelLiveAll.lcontent l)), snd (RelLiveAll.lcontent l)) /\
                 field_shape (RelLiveAll.ltree l') = true /\
                 tree_slots (RelLiveAll.ltree l') = slots_after ops (fst (RelLiveAll.lcontent l)) (tree_slots (RelLiveAll.ltree l)).
Print Assumptions C11_all_history.

(* (3) the re-read through C10_image_sound: the text of a well-formed liberal live layout is the rendering of a liberal layout (RelLiveAll.norm: white space that an edit left in several tokens or in another node is one slot again; the token list is a lexer output), so it is read without error, to a tree whose structure is the content *)
Theorem C11_all_reread : forall b l, RelLiveAll.lwf b l = true ->
  exists t'', parse_relaxed (text (RelLiveAll.ltree l)) b = Ok (t'', 0) /\ text t'' = text (RelLiveAll.ltree l) /\
              structure t'' = Ok (fst (RelLiveAll.lcontent l)) /\ substvar_texts t'' = snd (RelLiveAll.lcontent l).
Proof. exact RelLiveAllHistP.live_reread. Qed.
Check C11_all_reread : forall b l, RelLiveAll.lwf b l = true ->
  exists t'', parse_relaxed (text (RelLiveAll.ltree l)) b = Ok (t'', 0) /\ text t'' = text (RelLiveAll.ltree l) /\
              structure t'' = Ok (fst (RelLiveAll.lcontent l)) /\ substvar_texts t'' = snd (RelLiveAll.lcontent l).
Print Assumptions C11_all_reread.

(* the content of a layout is what the accessors read from its tree *)
Theorem C11_all_structure : forall b l, RelLiveAll.lwf b l = true ->
  structure (RelLiveAll.ltree l) = Ok (fst (RelLiveAll.lcontent l)) /\ substvar_texts (RelLiveAll.ltree l) = snd (RelLiveAll.lcontent l).
Proof. exact RelLiveAllHistP.structure_live. Qed.
Check C11_all_structure : forall b l, RelLiveAll.lwf b l = true ->
  structure (RelLiveAll.ltree l) = Ok (fst (RelLiveAll.lcontent l)) /\ substvar_texts (RelLiveAll.ltree l) = snd (RelLiveAll.lcontent l).
Print Assumptions C11_all_structure.

(* layer A with operands built by RelationBuilder, on ANY tree: the machine computes bt_op (operand trees RelEditSpec.brel_tree / bentry_tree) *)
Theorem C11_all_machine_step : forall o T T' st,
  is_node T = true -> ereplace_ready o T -> holds st T -> bt_op o T = Ok T' ->
  exists st', run_ops fixed (compile o) st = Ok st' /\ holds st' T'.
Proof. exact RelEditBuildP.bop_step_tree. Qed.
Check C11_all_machine_step : forall o T T' st,
  is_node T = true -> ereplace_ready o T -> holds st T -> bt_op o T = Ok T' ->
  exists st', run_ops fixed (compile o) st = Ok st' /\ holds st' T'.
Print Assumptions C11_all_machine_step.

(* handles obtained at ANY earlier time, on liberal layouts, with operands built by Relation::new or RelationBuilder OR obtained by parsing any text Entry::from_str / Relation::from_str accept (model/RelHandlesAll.v, the mirror of RelHandles.v: the content is a list of relrec records, the list model is astep; a step of the trace is marked HB = operand built, it has to satisfy wf_operands, or HP = operand parsed, nothing more is asked): one operation through whatever registers it names *)
Theorem C11_all_handles_step : forall b sv st a o a' tr,
  RelHandlesAllP.Rel b sv st a -> RelHandlesAll.h_op o a = Some (a', tr) -> forallb RelHandlesAll.hoperands_ok tr = true ->
  exists out st', run_op fixed o st = Ok (out, st') /\ RelHandlesAllP.Rel b sv st' a'.
Proof. exact RelHandlesAllP.handles_step. Qed.
Check C11_all_handles_step : forall b sv st a o a' tr,
  RelHandlesAllP.Rel b sv st a -> RelHandlesAll.h_op o a = Some (a', tr) -> forallb RelHandlesAll.hoperands_ok tr = true ->
  exists out st', run_op fixed o st = Ok (out, st') /\ RelHandlesAllP.Rel b sv st' a'.
Print Assumptions C11_all_handles_step.

(* programs *)
Theorem C11_all_handles_history : forall b sv ops st a a' tr,
  RelHandlesAllP.Rel b sv st a -> RelHandlesAll.h_ops ops a = Some (a', tr) -> forallb RelHandlesAll.hoperands_ok tr = true ->
  exists st', run_ops fixed ops st = Ok st' /\ RelHandlesAllP.Rel b sv st' a'.
Proof. exact RelHandlesAllP.handles_history. Qed.
Check C11_all_handles_history : forall b sv ops st a a' tr,
  RelHandlesAllP.Rel b sv st a -> RelHandlesAll.h_ops ops a = Some (a', tr) -> forallb RelHandlesAll.hoperands_ok tr = true ->
  exists st', run_ops fixed ops st = Ok st' /\ RelHandlesAllP.Rel b sv st' a'.
Print Assumptions C11_all_handles_history.

(* from ANY text read without error (accessors not panicking), ANY in-scope program of the eighteen operations through ANY registers, operands built or parsed: no panic; every register denotes what the abstract reading says (Rel); the root's structure is the list model's history folded over the structure of the text, substitution variables unchanged; the printed text is read again without error to that same structure *)
Theorem C11_all_handles_history_text : forall b s t0 f0 st ops a' tr,
  parse_relaxed s b = Ok (t0, 0) -> structure t0 = Ok f0 -> holds st t0 ->
  RelHandlesAll.h_ops ops (RelHandlesAll.mk_hstate f0 (RelHandlesAllP.h_of st)) = Some (a', tr) ->
  forallb RelHandlesAll.hoperands_ok tr = true ->
  exists st' l',
    run_ops fixed ops st = Ok st' /\
    RelHandlesAllP.Rel b (substvar_texts t0) st' a' /\
    RelHandlesAll.h_f a' = fold_left RelHandlesAll.hxstep tr f0 /\
    root_tree st' = Ok (RelLiveAll.ltree l') /\ root_text st' = Ok (text (RelLiveAll.ltree l')) /\
    structure (RelLiveAll.ltree l') = Ok (fold_left RelHandlesAll.hxstep tr f0) /\
    substvar_texts (RelLiveAll.ltree l') = substvar_texts t0 /\
    exists t'', parse_relaxed (text (RelLiveAll.ltree l')) b = Ok (t'', 0) /\ text t'' = text (RelLiveAll.ltree l') /\
                structure t'' = Ok (fold_left RelHandlesAll.hxstep tr f0) /\ substvar_texts t'' = substvar_texts t0.
Proof. exact RelHandlesAllP.handles_history_text. Qed.
Check C11_all_handles_history_text : forall b s t0 f0 st ops a' tr,
  parse_relaxed s b = Ok (t0, 0) -> structure t0 = Ok f0 -> holds st t0 ->
  RelHandlesAll.h_ops ops (RelHandlesAll.mk_hstate f0 (RelHandlesAllP.h_of st)) = Some (a', tr) ->
  forallb RelHandlesAll.hoperands_ok tr = true ->
  exists st' l',
    run_ops fixed ops st = Ok st' /\
    RelHandlesAllP.Rel b (substvar_texts t0) st' a' /\
    RelHandlesAll.h_f a' = fold_left RelHandlesAll.hxstep tr f0 /\
    root_tree st' = Ok (RelLiveAll.ltree l') /\ root_text st' = Ok (text (RelLiveAll.ltree l')) /\
    structure (RelLiveAll.ltree l') = Ok (fold_left RelHandlesAll.hxstep tr f0) /\
    substvar_texts (RelLiveAll.ltree l') = substvar_texts t0 /\
    exists t'', parse_relaxed (text (RelLiveAll.ltree l')) b = Ok (t'', 0) /\ text t'' = text (RelLiveAll.ltree l') /\
                structure t'' = Ok (fold_left RelHandlesAll.hxstep tr f0) /\ substvar_texts t'' = substvar_texts t0.
Print Assumptions C11_all_handles_history_text.

(* an Entry handle that denotes entry i shows the i-th entry of the field as it is now *)
Theorem C11_all_handles_entry : forall b sv st a k i, RelHandlesAllP.Rel b sv st a -> RelHandlesAll.h_reg a (ereg k) = Some (RelHandlesAll.ELive i) ->
  exists l e, root_tree st = Ok (RelLiveAll.ltree l) /\ RelLiveAll.lcontent l = (RelHandlesAll.h_f a, sv) /\
              nth_error (RelLiveAllStepP.lentries l) i = Some e /\
              reg_text (ereg k) st = Ok (Some (text (RelLiveAll.lentry_tree e)), st).
Proof. exact RelHandlesAllP.Rel_entry_handle. Qed.
Check C11_all_handles_entry : forall b sv st a k i, RelHandlesAllP.Rel b sv st a -> RelHandlesAll.h_reg a (ereg k) = Some (RelHandlesAll.ELive i) ->
  exists l e, root_tree st = Ok (RelLiveAll.ltree l) /\ RelLiveAll.lcontent l = (RelHandlesAll.h_f a, sv) /\
              nth_error (RelLiveAllStepP.lentries l) i = Some e /\
              reg_text (ereg k) st = Ok (Some (text (RelLiveAll.lentry_tree e)), st).
Print Assumptions C11_all_handles_entry.

(* and a Relation handle the j-th alternative of the i-th entry *)
Theorem C11_all_handles_relation : forall b sv st a m i j, RelHandlesAllP.Rel b sv st a -> RelHandlesAll.h_reg a (rreg m) = Some (RelHandlesAll.RLive i j) ->
  exists l e r, root_tree st = Ok (RelLiveAll.ltree l) /\ RelLiveAll.lcontent l = (RelHandlesAll.h_f a, sv) /\
                nth_error (RelLiveAllStepP.lentries l) i = Some e /\ RelLiveAll.nth_rel e j = Some r /\
                reg_text (rreg m) st = Ok (Some (text (RelLiveAll.lrel_tree r)), st).
Proof. exact RelHandlesAllP.Rel_relation_handle. Qed.
Check C11_all_handles_relation : forall b sv st a m i j, RelHandlesAllP.Rel b sv st a -> RelHandlesAll.h_reg a (rreg m) = Some (RelHandlesAll.RLive i j) ->
  exists l e r, root_tree st = Ok (RelLiveAll.ltree l) /\ RelLiveAll.lcontent l = (RelHandlesAll.h_f a, sv) /\
                nth_error (RelLiveAllStepP.lentries l) i = Some e /\ RelLiveAll.nth_rel e j = Some r /\
                reg_text (rreg m) st = Ok (Some (text (RelLiveAll.lrel_tree r)), st).
Print Assumptions C11_all_handles_relation.

(* C11, IN FULL (RelEditSpec.C11_full, for the code as it is in /repo): from any text that parses without error and whose accessors do not panic (structure_d = Ok: every operator is one of the five AND every version text is a debversion::Version), every in-range history with well-formed operands runs without panic, the root holds exactly the list model's field (as the accessors show it: versions through debversion), the substitution variables keep their text, the SEPARATORS are the slot model's (field_shape: no slot holds two items; tree_slots = slots_after: a new entry gets exactly one separator, an appended one fills a trailing empty slot, a removed one takes its separator along, nothing else moves), and the printed text parses again without error to that same field *)
Theorem C11_full_theorem : C11_full fixed.
Proof. exact RelLiveAllHistP.C11_full_fixed. Qed.
Check C11_full_theorem : C11_full fixed.
Print Assumptions C11_full_theorem.

(* the same with the version texts as written (RelEdit.structure: no debversion parse; the domain is then only `every operator is one of the five`) *)
Theorem C11_full_raw_theorem : C11_full_raw fixed.
Proof. exact RelLiveAllHistP.C11_full_raw_fixed. Qed.
Check C11_full_raw_theorem : C11_full_raw fixed.
Print Assumptions C11_full_raw_theorem.

(* the separator conjunct is not implied by the others: the code as it is in /repo but without fix C11-02 satisfies all the other conjuncts on "a, " + push z = "a, , z" (C11_full_needs_append_sep_others) and violates this one *)
Theorem C11_full_needs_append_sep : ~ C11_full fixed_without_append_sep.
Proof. exact C11_full_needs_append_sep. Qed.
Check C11_full_needs_append_sep : ~ C11_full fixed_without_append_sep.
Print Assumptions C11_full_needs_append_sep.

(* and without fix C11-07 on "${x}, b" - entry 0 = "${x}, " (C11_full_needs_first_substvar_others) *)
Theorem C11_full_needs_first_substvar : ~ C11_full fixed_without_first_substvar.
Proof. exact C11_full_needs_first_substvar. Qed.
Check C11_full_needs_first_substvar : ~ C11_full fixed_without_first_substvar.
Print Assumptions C11_full_needs_first_substvar.

(* a consequence of the slot model, the measure the oracle of the rel-edit stream uses (vlib/props/c11.py empty_slots): the number of separators the field could do without never grows *)
Theorem C11_seps_never_grow : forall ops f s, n_empty_slots (slots_after ops f s) <= n_empty_slots s.
Proof. exact RelSepsP.slots_after_never_more. Qed.
Check C11_seps_never_grow : forall ops f s, n_empty_slots (slots_after ops f s) <= n_empty_slots s.
Print Assumptions C11_seps_never_grow.

(* the two green-level functions that touch separators, on ANY children list with the shape of a field: Relations::insert / push *)
Theorem C11_seps_insert : forall cs idx eg, sep_from SEmpty cs = true -> is_entry eg = true ->
  slots_from SEmpty (insert_at (fst (insert_plan fixed cs idx eg)) (snd (insert_plan fixed cs idx eg)) cs)
  = s_insert idx (slots_from SEmpty cs).
Proof. exact RelSepsP.insert_slots. Qed.
Check C11_seps_insert : forall cs idx eg, sep_from SEmpty cs = true -> is_entry eg = true ->
  slots_from SEmpty (insert_at (fst (insert_plan fixed cs idx eg)) (snd (insert_plan fixed cs idx eg)) cs)
  = s_insert idx (slots_from SEmpty cs).
Print Assumptions C11_seps_insert.

(* and Entry::remove (remove_entry; Relation::remove of an only alternative) *)
Theorem C11_seps_remove : forall cs idx ci cs', sep_from SEmpty cs = true -> nth_index is_entry idx cs = Some ci ->
  entry_remove_cs fixed cs ci = Ok cs' ->
  slots_from SEmpty cs' = s_remove idx (slots_from SEmpty cs).
Proof. exact RelSepsP.remove_slots. Qed.
Check C11_seps_remove : forall cs idx ci cs', sep_from SEmpty cs = true -> nth_index is_entry idx cs = Some ci ->
  entry_remove_cs fixed cs ci = Ok cs' ->
  slots_from SEmpty cs' = s_remove idx (slots_from SEmpty cs).
Print Assumptions C11_seps_remove.

(* the domain hypothesis of C11_full is needed, first half: "a (> 1), b" is read without error but Relation::version() panics on its first relation (the reader accepts any run of < > = as an operator: C12's class c12-nonstandard-operator), so the field has no list-model reading; the edits themselves do not use the accessors and still work next to it *)
Theorem C11_full_domain_witness : reads_clean [97; 32; 40; 62; 32; 49; 41; 44; 32; 98]%N = true /\
  match parse_relaxed [97; 32; 40; 62; 32; 49; 41; 44; 32; 98]%N true with Ok (t, _) => structure t | _ => Err 0%N end = Panic 51%N /\
  run_text fixed (IRelaxed [97; 32; 40; 62; 32; 49; 41; 44; 32; 98]%N) (compile (ASetVersion 1 0 (Some (VGe, [50]%N)))) = Ok [97; 32; 40; 62; 32; 49; 41; 44; 32; 98; 32; 40; 62; 61; 32; 50; 41]%N.
Proof. exact nonstandard_operator_structure. Qed.
Check C11_full_domain_witness : reads_clean [97; 32; 40; 62; 32; 49; 41; 44; 32; 98]%N = true /\
  match parse_relaxed [97; 32; 40; 62; 32; 49; 41; 44; 32; 98]%N true with Ok (t, _) => structure t | _ => Err 0%N end = Panic 51%N /\
  run_text fixed (IRelaxed [97; 32; 40; 62; 32; 49; 41; 44; 32; 98]%N) (compile (ASetVersion 1 0 (Some (VGe, [50]%N)))) = Ok [97; 32; 40; 62; 32; 49; 41; 44; 32; 98; 32; 40; 62; 61; 32; 50; 41]%N.
Print Assumptions C11_full_domain_witness.

(* second half: Relation::version() also unwraps Version::from_str of the version text; an epoch above u32::MAX is read without error, RelEdit.structure (texts as written) is Ok, and the accessors (structure_d) panic.  So the no-panic domain is `structure_d = Ok`, not `structure = Ok` *)
Theorem C11_full_version_domain_witness : reads_clean [97; 32; 40; 61; 32; 57; 57; 57; 57; 57; 57; 57; 57; 57; 57; 57; 58; 49; 41; 44; 32; 98]%N = true /\
  match parse_relaxed [97; 32; 40; 61; 32; 57; 57; 57; 57; 57; 57; 57; 57; 57; 57; 57; 58; 49; 41; 44; 32; 98]%N true with Ok (t, _) => (match structure t with Ok _ => true | _ => false end, structure_d t) | _ => (false, Err 0%N) end = (true, Panic 12%N) /\
  run_text fixed (IRelaxed [97; 32; 40; 61; 32; 57; 57; 57; 57; 57; 57; 57; 57; 57; 57; 57; 58; 49; 41; 44; 32; 98]%N) (compile (ASetVersion 1 0 (Some (VGe, [50]%N)))) = Ok [97; 32; 40; 61; 32; 57; 57; 57; 57; 57; 57; 57; 57; 57; 57; 57; 58; 49; 41; 44; 32; 98; 32; 40; 62; 61; 32; 50; 41]%N.
Proof. exact unparsable_version_structure. Qed.
Check C11_full_version_domain_witness : reads_clean [97; 32; 40; 61; 32; 57; 57; 57; 57; 57; 57; 57; 57; 57; 57; 57; 58; 49; 41; 44; 32; 98]%N = true /\
  match parse_relaxed [97; 32; 40; 61; 32; 57; 57; 57; 57; 57; 57; 57; 57; 57; 57; 57; 58; 49; 41; 44; 32; 98]%N true with Ok (t, _) => (match structure t with Ok _ => true | _ => false end, structure_d t) | _ => (false, Err 0%N) end = (true, Panic 12%N) /\
  run_text fixed (IRelaxed [97; 32; 40; 61; 32; 57; 57; 57; 57; 57; 57; 57; 57; 57; 57; 57; 58; 49; 41; 44; 32; 98]%N) (compile (ASetVersion 1 0 (Some (VGe, [50]%N)))) = Ok [97; 32; 40; 61; 32; 57; 57; 57; 57; 57; 57; 57; 57; 57; 57; 57; 58; 49; 41; 44; 32; 98; 32; 40; 62; 61; 32; 50; 41]%N.
Print Assumptions C11_full_version_domain_witness.

(* what the accessors return = RelEdit.structure with every version through debversion (RelEditSpec.field_display: Panic 12 when one is not a Version, the epoch re-printed) *)
Theorem C11_structure_d_of : forall t f, structure t = Ok f -> structure_d t = field_display f.
Proof. exact RelEditVersionP.structure_d_of. Qed.
Check C11_structure_d_of : forall t f, structure t = Ok f -> structure_d t = field_display f.
Print Assumptions C11_structure_d_of.

Theorem C11_structure_d_inv : forall t f', structure_d t = Ok f' -> exists f, structure t = Ok f /\ field_display f = Ok f'.
Proof. exact RelEditVersionP.structure_d_inv. Qed.
Check C11_structure_d_inv : forall t f', structure_d t = Ok f' -> exists f, structure t = Ok f /\ field_display f = Ok f'.
Print Assumptions C11_structure_d_inv.

(* a version OPERAND is a debversion::Version; what an operation is given is its Display.  The identifier texts of wf_operands are versions that print as they are written *)
Theorem C11_version_operand : forall v, ident_text v = true -> version_operand v = Ok v.
Proof. exact RelEditVersionP.ident_version_operand. Qed.
Check C11_version_operand : forall v, ident_text v = true -> version_operand v = Ok v.
Print Assumptions C11_version_operand.

(* the domain of BUILT operands, precisely (RelEditSpec.wf_operands): versions and architecture names too are identifier texts [A-Za-z0-9.+~-]; a version with an epoch and a negated architecture are outside the theorems about built operands (the code writes each as ONE IDENT token, which is not a lexer token, so the tree is not a live layout) — by evaluation they come out right; parsed operands have no such restriction *)
Theorem C11_built_operand_domain_witness : wf_operands (ASetVersion 0 0 (Some (VGe, [49; 58; 50; 46; 48]%N))) = false /\
  run_text fixed (IRelaxed [97]%N) (compile (ASetVersion 0 0 (Some (VGe, [49; 58; 50; 46; 48]%N)))) = Ok [97; 32; 40; 62; 61; 32; 49; 58; 50; 46; 48; 41]%N /\
  match parse_relaxed [97; 32; 40; 62; 61; 32; 49; 58; 50; 46; 48; 41]%N true with Ok (t, 0) => structure_d t | _ => Err 0%N end = Ok [[mk_relrec [97]%N None (Some (VGe, [49; 58; 50; 46; 48]%N)) None []]].
Proof. exact built_epoch_version. Qed.
Check C11_built_operand_domain_witness : wf_operands (ASetVersion 0 0 (Some (VGe, [49; 58; 50; 46; 48]%N))) = false /\
  run_text fixed (IRelaxed [97]%N) (compile (ASetVersion 0 0 (Some (VGe, [49; 58; 50; 46; 48]%N)))) = Ok [97; 32; 40; 62; 61; 32; 49; 58; 50; 46; 48; 41]%N /\
  match parse_relaxed [97; 32; 40; 62; 61; 32; 49; 58; 50; 46; 48; 41]%N true with Ok (t, 0) => structure_d t | _ => Err 0%N end = Ok [[mk_relrec [97]%N None (Some (VGe, [49; 58; 50; 46; 48]%N)) None []]].
Print Assumptions C11_built_operand_domain_witness.

Theorem C11_built_operand_domain_witness_arch : wf_operands (ASetArchs 0 0 [[33; 97; 114; 109; 101; 108]%N; [105; 51; 56; 54]%N]) = false /\
  run_text fixed (IRelaxed [97]%N) (compile (ASetArchs 0 0 [[33; 97; 114; 109; 101; 108]%N; [105; 51; 56; 54]%N])) = Ok [97; 32; 91; 33; 97; 114; 109; 101; 108; 32; 105; 51; 56; 54; 93]%N /\
  match parse_relaxed [97; 32; 91; 33; 97; 114; 109; 101; 108; 32; 105; 51; 56; 54; 93]%N true with Ok (t, 0) => structure_d t | _ => Err 0%N end = Ok [[mk_relrec [97]%N None None (Some [[33; 97; 114; 109; 101; 108]%N; [105; 51; 56; 54]%N]) []]].
Proof. exact built_negated_architecture. Qed.
Check C11_built_operand_domain_witness_arch : wf_operands (ASetArchs 0 0 [[33; 97; 114; 109; 101; 108]%N; [105; 51; 56; 54]%N]) = false /\
  run_text fixed (IRelaxed [97]%N) (compile (ASetArchs 0 0 [[33; 97; 114; 109; 101; 108]%N; [105; 51; 56; 54]%N])) = Ok [97; 32; 91; 33; 97; 114; 109; 101; 108; 32; 105; 51; 56; 54; 93]%N /\
  match parse_relaxed [97; 32; 91; 33; 97; 114; 109; 101; 108; 32; 105; 51; 56; 54; 93]%N true with Ok (t, 0) => structure_d t | _ => Err 0%N end = Ok [[mk_relrec [97]%N None None (Some [[33; 97; 114; 109; 101; 108]%N; [105; 51; 56; 54]%N]) []]].
Print Assumptions C11_built_operand_domain_witness_arch.

(* positions out of range: where the API unwraps a position — Relations::replace, remove_entry, Entry::replace, Entry::remove_relation — the code PANICS, and so does the model (get_entry(idx).unwrap(), get_relation(idx).unwrap()): a documented behaviour of the code, outside the list model (aop_in_range), not a gap of the model.  (insert / push accept any index; an operation through an Entry handle that does not exist cannot be issued.)  On any tree: RelEditRangeP.remove_entry_out_of_range, replace_out_of_range, ereplace_out_of_range, remove_relation_out_of_range *)
Theorem C11_out_of_range_panics : forall l st f sv, RelLiveAll.lcontent l = (f, sv) -> holds st (RelLiveAll.ltree l) ->
  (forall i, length f <= i -> run_ops fixed (compile (ARemoveEntry i)) st = Panic 41%N) /\
  (forall i e, length f <= i -> run_ops fixed (compile (AReplace i e)) st = Panic 40%N) /\
  (forall i j r, i < length f -> RelHandlesAll.n_alts f i <= j -> run_ops fixed (compile (AEReplace i j r)) st = Panic 46%N) /\
  (forall i j, i < length f -> RelHandlesAll.n_alts f i <= j -> run_ops fixed (compile (ARemoveRelation i j)) st = Panic 48%N).
Proof. exact RelEditRangeP.out_of_range_panics. Qed.
Check C11_out_of_range_panics : forall l st f sv, RelLiveAll.lcontent l = (f, sv) -> holds st (RelLiveAll.ltree l) ->
  (forall i, length f <= i -> run_ops fixed (compile (ARemoveEntry i)) st = Panic 41%N) /\
  (forall i e, length f <= i -> run_ops fixed (compile (AReplace i e)) st = Panic 40%N) /\
  (forall i j r, i < length f -> RelHandlesAll.n_alts f i <= j -> run_ops fixed (compile (AEReplace i j r)) st = Panic 46%N) /\
  (forall i j, i < length f -> RelHandlesAll.n_alts f i <= j -> run_ops fixed (compile (ARemoveRelation i j)) st = Panic 48%N).
Print Assumptions C11_out_of_range_panics.

(* the one correction of the STATEMENT: compile builds an operand record that has architectures or profiles but no qualifier with RelationBuilder (rel_spec); as first written it used Relation::new for every record without qualifier, which drops them *)
Theorem C11_builder_operand_witness : 
  run_text fixed INew [ONewEntry 1 (ESFromVec [RSNew [97]%N None]); OPush 1] = Ok [97]%N /\
  run_text fixed INew (compile (APush [(mk_relrec [97]%N None None (Some [[97; 109; 100; 54; 52]%N]) [])])) = Ok [97; 32; 91; 97; 109; 100; 54; 52; 93]%N.
Proof. exact (conj builder_operand_old builder_operand_new). Qed.
Check C11_builder_operand_witness : 
  run_text fixed INew [ONewEntry 1 (ESFromVec [RSNew [97]%N None]); OPush 1] = Ok [97]%N /\
  run_text fixed INew (compile (APush [(mk_relrec [97]%N None None (Some [[97; 109; 100; 54; 52]%N]) [])])) = Ok [97; 32; 91; 97; 109; 100; 54; 52; 93]%N.
Print Assumptions C11_builder_operand_witness.

(* 1f. Operands obtained by PARSING, in the liberal development (model/RelLiveAllParsed.v): the text
   is ANY text Entry::from_str / Relation::from_str accept — read strictly without error, exactly
   one entry (with exactly one relation): white space, empty items, the entry, empty items
   (C11_all_parsed_cover_*: these are all of them) — whose accessors do not panic (arel_readable;
   C11_all_parsed_read_*: exactly then).  The operand handle points INTO the parsed tree.  [gop] =
   an operation with operands built (GA) or parsed (GP).  The handle theorems of 1e cover them too
   (RelHandlesAll.EParsed / RParsed; C11_all_handles_parsed_*: what h_op accepts as parsed operand
   is exactly these texts). *)
(* the store level on ANY tree: parse the operand, obtain the handle into the parsed tree, run the operation = the tree function tt_op with the operand's node *)
Theorem C11_all_parsed_machine_step : forall o T T' st,
  RelEditParsedAllP.popen_ok o = true -> is_node T = true -> RelEditParsedAllP.preplace_ready o T -> holds st T ->
  tt_op (RelLiveAllParsed.ptop o) T = Ok T' ->
  exists st', run_ops fixed (RelLiveAllParsed.pcompile o) st = Ok st' /\ holds st' T'.
Proof. exact RelEditParsedAllP.pop_step_tree. Qed.
Check C11_all_parsed_machine_step : forall o T T' st,
  RelEditParsedAllP.popen_ok o = true -> is_node T = true -> RelEditParsedAllP.preplace_ready o T -> holds st T ->
  tt_op (RelLiveAllParsed.ptop o) T = Ok T' ->
  exists st', run_ops fixed (RelLiveAllParsed.pcompile o) st = Ok st' /\ holds st' T'.
Print Assumptions C11_all_parsed_machine_step.

(* (1) one operation with either kind of operand on ANY well-formed liberal layout *)
Theorem C11_all_mixed_step : forall b o l st, RelLiveAll.lwf b l = true -> RelLiveAllParsed.goperands_ok o = true ->
  RelLiveAllParsed.g_in_range (fst (RelLiveAll.lcontent l)) o = true -> holds st (RelLiveAll.ltree l) ->
  exists l' st', RelLiveAllParsed.g_op o l = Some l' /\
                 run_ops fixed (RelLiveAllParsed.gcompile o) st = Ok st' /\ holds st' (RelLiveAll.ltree l') /\
                 RelLiveAll.lwf b l' = true /\
                 RelLiveAll.lcontent l' = (RelLiveAllParsed.gxstep (fst (RelLiveAll.lcontent l)) o, snd (RelLiveAll.lcontent l)).
Proof. exact RelLiveAllParsedP.g_step. Qed.
Check C11_all_mixed_step : forall b o l st, RelLiveAll.lwf b l = true -> RelLiveAllParsed.goperands_ok o = true ->
  RelLiveAllParsed.g_in_range (fst (RelLiveAll.lcontent l)) o = true -> holds st (RelLiveAll.ltree l) ->
  exists l' st', RelLiveAllParsed.g_op o l = Some l' /\
                 run_ops fixed (RelLiveAllParsed.gcompile o) st = Ok st' /\ holds st' (RelLiveAll.ltree l') /\
                 RelLiveAll.lwf b l' = true /\
                 RelLiveAll.lcontent l' = (RelLiveAllParsed.gxstep (fst (RelLiveAll.lcontent l)) o, snd (RelLiveAll.lcontent l)).
Print Assumptions C11_all_mixed_step.

(* (2) histories mixing built and parsed operands, with the separators *)
Theorem C11_all_mixed_history : forall b ops l st, RelLiveAll.lwf b l = true -> forallb RelLiveAllParsed.goperands_ok ops = true ->
  RelLiveAllParsed.gsteps_in_range (fst (RelLiveAll.lcontent l)) ops = true -> holds st (RelLiveAll.ltree l) ->
  exists l' st', RelLiveAllParsed.g_ops ops l = Some l' /\
                 run_ops fixed (RelLiveAllParsed.gcompile_all ops) st = Ok st' /\ holds st' (RelLiveAll.ltree l') /\
                 RelLiveAll.lwf b l' = true /\
                 RelLiveAll.lcontent l' = (fold_left RelLiveAllParsed.gxstep ops (fst (RelLiveAll.lcontent l)), snd (RelLiveAll.lcontent l)) /\
                 field_shape (RelLiveAll.ltree l') = true /\
                 tree_slots (RelLiveAll.ltree l') = RelLiveAllParsed.gslots_after ops (fst (RelLiveAll.lcontent l)) (tree_slots (RelLiveAll.ltree l)).
Proof. exact RelLiveAllParsedP.g_history_seps. Qed.
Check C11_all_mixed_history : forall b ops l st, RelLiveAll.lwf b l = true -> forallb RelLiveAllParsed.goperands_ok ops = true ->
  RelLiveAllParsed.gsteps_in_range (fst (RelLiveAll.lcontent l)) ops = true -> holds st (RelLiveAll.ltree l) ->
  exists l' st', RelLiveAllParsed.g_ops ops l = Some l' /\
                 run_ops fixed (RelLiveAllParsed.gcompile_all ops) st = Ok st' /\ holds st' (RelLiveAll.ltree l') /\
                 RelLiveAll.lwf b l' = true /\
                 RelLiveAll.lcontent l' = (fold_left RelLiveAllParsed.gxstep ops (fst (RelLiveAll.lcontent l)), snd (RelLiveAll.lcontent l)) /\
                 field_shape (RelLiveAll.ltree l') = true /\
                 tree_slots (RelLiveAll.ltree l') = RelLiveAllParsed.gslots_after ops (fst (RelLiveAll.lcontent l)) (tree_slots (RelLiveAll.ltree l)).
Print Assumptions C11_all_mixed_history.

(* C11_full_raw (version texts as written) with operands of either kind: from any text read without error (accessors not panicking), every in-range history whose operands are well-formed records (built) or accepted, readable texts (parsed) runs without panic, leaves exactly the list model's field in the root, keeps the substitution variables, and prints a text that is read again without error to that field *)
Theorem C11_all_mixed_full : forall (s : str) (t0 : rtree) (f0 : lfield) (ops : list RelLiveAllParsed.gop),
  parse_relaxed s true = Ok (t0, 0) -> structure t0 = Ok f0 ->
  RelLiveAllParsed.gsteps_in_range f0 ops = true -> forallb RelLiveAllParsed.goperands_ok ops = true ->
  exists st', run_ops fixed (RelLiveAllParsed.gcompile_all ops) (start_state t0) = Ok st' /\
  exists t', root_tree st' = Ok t' /\
    structure t' = Ok (fold_left RelLiveAllParsed.gxstep ops f0) /\
    substvar_texts t' = substvar_texts t0 /\
    field_shape t' = true /\ tree_slots t' = RelLiveAllParsed.gslots_after ops f0 (tree_slots t0) /\
    exists t'', parse_relaxed (text t') true = Ok (t'', 0) /\
                structure t'' = Ok (fold_left RelLiveAllParsed.gxstep ops f0).
Proof. exact RelLiveAllParsedP.g_history_full_seps. Qed.
Check C11_all_mixed_full : forall (s : str) (t0 : rtree) (f0 : lfield) (ops : list RelLiveAllParsed.gop),
  parse_relaxed s true = Ok (t0, 0) -> structure t0 = Ok f0 ->
  RelLiveAllParsed.gsteps_in_range f0 ops = true -> forallb RelLiveAllParsed.goperands_ok ops = true ->
  exists st', run_ops fixed (RelLiveAllParsed.gcompile_all ops) (start_state t0) = Ok st' /\
  exists t', root_tree st' = Ok t' /\
    structure t' = Ok (fold_left RelLiveAllParsed.gxstep ops f0) /\
    substvar_texts t' = substvar_texts t0 /\
    field_shape t' = true /\ tree_slots t' = RelLiveAllParsed.gslots_after ops f0 (tree_slots t0) /\
    exists t'', parse_relaxed (text t') true = Ok (t'', 0) /\
                structure t'' = Ok (fold_left RelLiveAllParsed.gxstep ops f0).
Print Assumptions C11_all_mixed_full.

(* every text Entry::from_str accepts (the conditions of RelEdit.entry_parse) is one of the operand texts *)
Theorem C11_all_parsed_cover_entry : forall s t k, relations_from_str s = Ok t ->
  nth_index is_entry 0 (children t) = Some k -> nth_index is_entry 1 (children t) = None ->
  exists x r alts, s = RelLiveAllParsed.ptext_text x r alts /\ RelGrammarAll.awf false (RelLiveAllParsed.ptext_field x r alts) = true /\
                   t = RelGrammarAll.atree_of (RelLiveAllParsed.ptext_field x r alts) /\
                   k = RelLiveAllParsed.entry_at (RelLiveAllParsed.p_lead x) (RelLiveAllParsed.p_pre x).
Proof. exact RelLiveAllParsedP.entry_text_cover. Qed.
Check C11_all_parsed_cover_entry : forall s t k, relations_from_str s = Ok t ->
  nth_index is_entry 0 (children t) = Some k -> nth_index is_entry 1 (children t) = None ->
  exists x r alts, s = RelLiveAllParsed.ptext_text x r alts /\ RelGrammarAll.awf false (RelLiveAllParsed.ptext_field x r alts) = true /\
                   t = RelGrammarAll.atree_of (RelLiveAllParsed.ptext_field x r alts) /\
                   k = RelLiveAllParsed.entry_at (RelLiveAllParsed.p_lead x) (RelLiveAllParsed.p_pre x).
Print Assumptions C11_all_parsed_cover_entry.

(* and every text Relation::from_str accepts (RelEdit.relation_parse) *)
Theorem C11_all_parsed_cover_relation : forall s t k e, relations_from_str s = Ok t ->
  nth_index is_entry 0 (children t) = Some k -> nth_index is_entry 1 (children t) = None ->
  nth_error (children t) k = Some e -> nth_index is_relation 1 (children e) = None ->
  exists x r, s = RelLiveAllParsed.ptext_text x r [] /\ RelGrammarAll.awf false (RelLiveAllParsed.ptext_field x r []) = true /\
              t = RelGrammarAll.atree_of (RelLiveAllParsed.ptext_field x r []) /\
              k = RelLiveAllParsed.entry_at (RelLiveAllParsed.p_lead x) (RelLiveAllParsed.p_pre x) /\
              nth_index is_relation 0 (children e) = Some 0.
Proof. exact RelLiveAllParsedP.relation_text_cover. Qed.
Check C11_all_parsed_cover_relation : forall s t k e, relations_from_str s = Ok t ->
  nth_index is_entry 0 (children t) = Some k -> nth_index is_entry 1 (children t) = None ->
  nth_error (children t) k = Some e -> nth_index is_relation 1 (children e) = None ->
  exists x r, s = RelLiveAllParsed.ptext_text x r [] /\ RelGrammarAll.awf false (RelLiveAllParsed.ptext_field x r []) = true /\
              t = RelGrammarAll.atree_of (RelLiveAllParsed.ptext_field x r []) /\
              k = RelLiveAllParsed.entry_at (RelLiveAllParsed.p_lead x) (RelLiveAllParsed.p_pre x) /\
              nth_index is_relation 0 (children e) = Some 0.
Print Assumptions C11_all_parsed_cover_relation.

(* the second condition on a parsed operand (arel_readable: every version operator is one of the five) is exactly `the accessors do not panic on it`; otherwise the field would have no list-model reading afterwards (as C11_full_domain_witness) *)
Theorem C11_all_parsed_read_entry : forall x r alts, RelGrammarAll.awf false (RelLiveAllParsed.ptext_field x r alts) = true ->
  mapM relrec_of (relations (Node ENTRY (RelGrammarAll.arels_elems r alts (RelLiveAllParsed.p_last x)))) =
  if RelLiveAllParsed.arel_readable r && forallb (fun wr => RelLiveAllParsed.arel_readable (snd wr)) alts
  then Ok (RelLiveAllParsed.entry_content r alts) else Panic 51%N.
Proof. exact RelLiveAllParsedP.ptext_entry_read. Qed.
Check C11_all_parsed_read_entry : forall x r alts, RelGrammarAll.awf false (RelLiveAllParsed.ptext_field x r alts) = true ->
  mapM relrec_of (relations (Node ENTRY (RelGrammarAll.arels_elems r alts (RelLiveAllParsed.p_last x)))) =
  if RelLiveAllParsed.arel_readable r && forallb (fun wr => RelLiveAllParsed.arel_readable (snd wr)) alts
  then Ok (RelLiveAllParsed.entry_content r alts) else Panic 51%N.
Print Assumptions C11_all_parsed_read_entry.

(* what the handle-level reading accepts as a parsed operand (from_str succeeds, the accessors read it) is an operand text of this section with that content *)
Theorem C11_all_handles_parsed_entry : forall s e, RelHandlesAll.parsed_entry s = Some e ->
  exists x r alts, s = RelLiveAllParsed.ptext_text x r alts /\ RelLiveAllParsed.poperands_ok (RelLiveAllParsed.PPush x r alts) = true /\
                   e = RelLiveAllParsed.entry_content r alts.
Proof. exact RelHandlesAllP.parsed_entry_inv. Qed.
Check C11_all_handles_parsed_entry : forall s e, RelHandlesAll.parsed_entry s = Some e ->
  exists x r alts, s = RelLiveAllParsed.ptext_text x r alts /\ RelLiveAllParsed.poperands_ok (RelLiveAllParsed.PPush x r alts) = true /\
                   e = RelLiveAllParsed.entry_content r alts.
Print Assumptions C11_all_handles_parsed_entry.

Theorem C11_all_handles_parsed_relation : forall s r0, RelHandlesAll.parsed_relation s = Some r0 ->
  exists x r, s = RelLiveAllParsed.ptext_text x r [] /\ RelLiveAllParsed.poperands_ok (RelLiveAllParsed.PEPush 0 x r) = true /\
              r0 = RelLiveAllParsed.arel_content r.
Proof. exact RelHandlesAllP.parsed_relation_inv. Qed.
Check C11_all_handles_parsed_relation : forall s r0, RelHandlesAll.parsed_relation s = Some r0 ->
  exists x r, s = RelLiveAllParsed.ptext_text x r [] /\ RelLiveAllParsed.poperands_ok (RelLiveAllParsed.PEPush 0 x r) = true /\
              r0 = RelLiveAllParsed.arel_content r.
Print Assumptions C11_all_handles_parsed_relation.

(* 2. Constructor-built fields read back as the list they were built from, and print canonically *)
Theorem C11_structure_constructed : forall f, plain_field f = true -> structure (cfield_tree f) = Ok f.
Proof. exact structure_cfield. Qed.
Check C11_structure_constructed : forall f, plain_field f = true -> structure (cfield_tree f) = Ok f.
Print Assumptions C11_structure_constructed.

Theorem C11_text_constructed : forall f, text (cfield_tree f) = render_field f.
Proof. exact text_cfield. Qed.
Check C11_text_constructed : forall f, text (cfield_tree f) = render_field f.
Print Assumptions C11_text_constructed.

(* 3. Frame / text conservation of the list surgery, on ANY tree and ANY children list *)
Theorem C11_frame_subtree : forall t p f n, get_path t p = Some n ->
  exists a b, text t = a ++ text n ++ b /\ text (upd_path t p f) = a ++ text (f n) ++ b.
Proof. exact text_upd_path. Qed.
Check C11_frame_subtree : forall t p f n, get_path t p = Some n ->
  exists a b, text t = a ++ text n ++ b /\ text (upd_path t p f) = a ++ text (f n) ++ b.
Print Assumptions C11_frame_subtree.

Theorem C11_insert_frame : forall v cs idx eg,
  let '(pos, new) := insert_plan v cs idx eg in
  pos <= length cs /\ exists s1 s2, new = s1 ++ eg :: s2 /\ Forall sep_tok (s1 ++ s2).
Proof. exact insert_plan_frame. Qed.
Check C11_insert_frame : forall v cs idx eg,
  let '(pos, new) := insert_plan v cs idx eg in
  pos <= length cs /\ exists s1 s2, new = s1 ++ eg :: s2 /\ Forall sep_tok (s1 ++ s2).
Print Assumptions C11_insert_frame.

Theorem C11_insert_entries : forall v t idx eg, is_entry eg = true ->
  entries (relations_insert_green v t idx eg) = l_insert idx eg (entries t).
Proof. exact entries_insert_green. Qed.
Check C11_insert_entries : forall v t idx eg, is_entry eg = true ->
  entries (relations_insert_green v t idx eg) = l_insert idx eg (entries t).
Print Assumptions C11_insert_entries.

Theorem C11_push_relation_frame : forall cs rg,
  let '(pos, new) := entry_push_plan cs rg in
  exists s1, new = s1 ++ [rg] /\ Forall alt_sep_tok s1.
Proof. exact entry_push_plan_frame. Qed.
Check C11_push_relation_frame : forall cs rg,
  let '(pos, new) := entry_push_plan cs rg in
  exists s1, new = s1 ++ [rg] /\ Forall alt_sep_tok s1.
Print Assumptions C11_push_relation_frame.

Theorem C11_remove_entry_frame : forall v pre x post cs',
  entry_remove_cs v (pre ++ x :: post) (length pre) = Ok cs' ->
  exists a g1 g2 b, pre = a ++ g1 /\ post = g2 ++ b /\ cs' = a ++ b /\ Forall sep_tok (g1 ++ g2).
Proof. exact entry_remove_cs_frame. Qed.
Check C11_remove_entry_frame : forall v pre x post cs',
  entry_remove_cs v (pre ++ x :: post) (length pre) = Ok cs' ->
  exists a g1 g2 b, pre = a ++ g1 /\ post = g2 ++ b /\ cs' = a ++ b /\ Forall sep_tok (g1 ++ g2).
Print Assumptions C11_remove_entry_frame.

Theorem C11_remove_relation_frame : forall pre x post cs',
  relation_remove_cs (pre ++ x :: post) (length pre) = Ok cs' ->
  exists a g1 g2 b, pre = a ++ g1 /\ post = g2 ++ b /\ cs' = a ++ b /\ Forall alt_sep_tok (g1 ++ g2).
Proof. exact relation_remove_cs_frame. Qed.
Check C11_remove_relation_frame : forall pre x post cs',
  relation_remove_cs (pre ++ x :: post) (length pre) = Ok cs' ->
  exists a g1 g2 b, pre = a ++ g1 /\ post = g2 ++ b /\ cs' = a ++ b /\ Forall alt_sep_tok (g1 ++ g2).
Print Assumptions C11_remove_relation_frame.

(* 4. An edit through a handle is an edit of the tree the handle points into: Entry::remove through the handle at path p ++ [i] of ANY tree [tid] rewrites exactly the children of the node at p of that tree (visible through every other handle into it, in particular the root), moves the entry into a tree of its own, and leaves handles at or above p and all other trees alone *)
Theorem C11_entry_remove_store : forall ts rs r tid ri T p kd pre x post cs',
  nth_error rs r = Some (Some (mk_hnd tid (p ++ [length pre]))) ->
  nth_error ts tid = Some (mk_slot true ri T) ->
  get_path T p = Some (Node kd (pre ++ x :: post)) ->
  entry_remove_cs fixed (pre ++ x :: post) (length pre) = Ok cs' ->
  exists ts' F,
    runs (entry_remove fixed r) (mk_state ts rs) tt (mk_state ts' (map (option_map F) rs)) /\
    length ts <= length ts' /\
    nth_error ts' tid = Some (mk_slot true ri (upd_path T p (fun _ => Node kd cs'))) /\
    (forall j, j <> tid -> j < length ts -> nth_error ts' j = nth_error ts j) /\
    (exists tn rn, F (mk_hnd tid (p ++ [length pre])) = mk_hnd tn [] /\
                   nth_error ts' tn = Some (mk_slot true rn x)) /\
    (forall g, above tid p g -> F g = g).
Proof. exact entry_remove_spec. Qed.
Check C11_entry_remove_store : forall ts rs r tid ri T p kd pre x post cs',
  nth_error rs r = Some (Some (mk_hnd tid (p ++ [length pre]))) ->
  nth_error ts tid = Some (mk_slot true ri T) ->
  get_path T p = Some (Node kd (pre ++ x :: post)) ->
  entry_remove_cs fixed (pre ++ x :: post) (length pre) = Ok cs' ->
  exists ts' F,
    runs (entry_remove fixed r) (mk_state ts rs) tt (mk_state ts' (map (option_map F) rs)) /\
    length ts <= length ts' /\
    nth_error ts' tid = Some (mk_slot true ri (upd_path T p (fun _ => Node kd cs'))) /\
    (forall j, j <> tid -> j < length ts -> nth_error ts' j = nth_error ts j) /\
    (exists tn rn, F (mk_hnd tid (p ++ [length pre])) = mk_hnd tn [] /\
                   nth_error ts' tn = Some (mk_slot true rn x)) /\
    (forall g, above tid p g -> F g = g).
Print Assumptions C11_entry_remove_store.

(* 5. The defects of the code before this cone's fixes (/repo c2fa7c8): the failing history on
   [shipped], on the variant without that one fix, and the outcome on [fixed] *)
(* insert(0, b) into "a": the separator is left out, the names fuse *)
Theorem C11_insert_first_refuted : 
  run_text shipped (IStrict [97]%N) [ONewEntry 1 (ESParse [98]%N); OInsert 0 1] = Ok [98; 97]%N /\
  run_text without_insert_first (IStrict [97]%N) [ONewEntry 1 (ESParse [98]%N); OInsert 0 1] = Ok [98; 97]%N /\
  run_text fixed (IStrict [97]%N) [ONewEntry 1 (ESParse [98]%N); OInsert 0 1] = Ok [98; 44; 32; 97]%N.
Proof. exact (conj insert_first_shipped (conj insert_first_needed insert_first_fixed)). Qed.
Check C11_insert_first_refuted : 
  run_text shipped (IStrict [97]%N) [ONewEntry 1 (ESParse [98]%N); OInsert 0 1] = Ok [98; 97]%N /\
  run_text without_insert_first (IStrict [97]%N) [ONewEntry 1 (ESParse [98]%N); OInsert 0 1] = Ok [98; 97]%N /\
  run_text fixed (IStrict [97]%N) [ONewEntry 1 (ESParse [98]%N); OInsert 0 1] = Ok [98; 44; 32; 97]%N.
Print Assumptions C11_insert_first_refuted.

(* Entry::from(vec![a, b]).remove_relation(0): the '|' is stored under kind COMMA, "Unexpected node" *)
Theorem C11_pipe_refuted : 
  run_text shipped (IFromVec [ESFromVec [(RSSimple [97]%N); (RSSimple [98]%N)]]) [OGetEntry 0 0; OERemoveRel 0 0] = Panic 43%N /\
  run_text without_pipe (IFromVec [ESFromVec [(RSSimple [97]%N); (RSSimple [98]%N)]]) [OGetEntry 0 0; OERemoveRel 0 0] = Panic 43%N /\
  run_text fixed (IFromVec [ESFromVec [(RSSimple [97]%N); (RSSimple [98]%N)]]) [OGetEntry 0 0; OERemoveRel 0 0] = Ok [98]%N.
Proof. exact (conj pipe_shipped (conj pipe_needed pipe_fixed)). Qed.
Check C11_pipe_refuted : 
  run_text shipped (IFromVec [ESFromVec [(RSSimple [97]%N); (RSSimple [98]%N)]]) [OGetEntry 0 0; OERemoveRel 0 0] = Panic 43%N /\
  run_text without_pipe (IFromVec [ESFromVec [(RSSimple [97]%N); (RSSimple [98]%N)]]) [OGetEntry 0 0; OERemoveRel 0 0] = Panic 43%N /\
  run_text fixed (IFromVec [ESFromVec [(RSSimple [97]%N); (RSSimple [98]%N)]]) [OGetEntry 0 0; OERemoveRel 0 0] = Ok [98]%N.
Print Assumptions C11_pipe_refuted.

(* Entry::push through a handle: the entry is replaced by a copy of the whole ROOT *)
Theorem C11_entry_push_refuted : 
  run_text shipped (IStrict [97; 44; 32; 98]%N) [ONewRel 1 (RSSimple [99]%N); OGetEntry 0 0; OEPush 0 1] = Ok [97; 32; 124; 32; 99; 44; 32; 98; 44; 32; 98]%N /\
  run_text without_entry_push (IStrict [97; 44; 32; 98]%N) [ONewRel 1 (RSSimple [99]%N); OGetEntry 0 0; OEPush 0 1] = Ok [97; 32; 124; 32; 99; 44; 32; 98; 44; 32; 98]%N /\
  run_text fixed (IStrict [97; 44; 32; 98]%N) [ONewRel 1 (RSSimple [99]%N); OGetEntry 0 0; OEPush 0 1] = Ok [97; 32; 124; 32; 99; 44; 32; 98]%N.
Proof. exact (conj entry_push_shipped (conj entry_push_needed entry_push_fixed)). Qed.
Check C11_entry_push_refuted : 
  run_text shipped (IStrict [97; 44; 32; 98]%N) [ONewRel 1 (RSSimple [99]%N); OGetEntry 0 0; OEPush 0 1] = Ok [97; 32; 124; 32; 99; 44; 32; 98; 44; 32; 98]%N /\
  run_text without_entry_push (IStrict [97; 44; 32; 98]%N) [ONewRel 1 (RSSimple [99]%N); OGetEntry 0 0; OEPush 0 1] = Ok [97; 32; 124; 32; 99; 44; 32; 98; 44; 32; 98]%N /\
  run_text fixed (IStrict [97; 44; 32; 98]%N) [ONewRel 1 (RSSimple [99]%N); OGetEntry 0 0; OEPush 0 1] = Ok [97; 32; 124; 32; 99; 44; 32; 98]%N.
Print Assumptions C11_entry_push_refuted.

(* push after a trailing comma duplicates the separator *)
Theorem C11_append_sep_refuted : 
  run_text shipped (IStrict [97; 44; 32]%N) [ONewEntry 1 (ESParse [122]%N); OPush 1] = Ok [97; 44; 32; 44; 32; 122]%N /\
  run_text without_append_sep (IStrict [97; 44; 32]%N) [ONewEntry 1 (ESParse [122]%N); OPush 1] = Ok [97; 44; 32; 44; 32; 122]%N /\
  run_text fixed (IStrict [97; 44; 32]%N) [ONewEntry 1 (ESParse [122]%N); OPush 1] = Ok [97; 44; 32; 122]%N.
Proof. exact (conj append_sep_shipped (conj append_sep_needed append_sep_fixed)). Qed.
Check C11_append_sep_refuted : 
  run_text shipped (IStrict [97; 44; 32]%N) [ONewEntry 1 (ESParse [122]%N); OPush 1] = Ok [97; 44; 32; 44; 32; 122]%N /\
  run_text without_append_sep (IStrict [97; 44; 32]%N) [ONewEntry 1 (ESParse [122]%N); OPush 1] = Ok [97; 44; 32; 44; 32; 122]%N /\
  run_text fixed (IStrict [97; 44; 32]%N) [ONewEntry 1 (ESParse [122]%N); OPush 1] = Ok [97; 44; 32; 122]%N.
Print Assumptions C11_append_sep_refuted.

(* set_version puts the constraint between the name and its qualifier *)
Theorem C11_version_pos_refuted : 
  run_text shipped (IStrict [97; 58; 97; 110; 121]%N) [OGetEntry 0 0; OGetRel 0 0 0; OSetVersion 0 (Some (VGe, [49]%N))] = Ok [97; 32; 40; 62; 61; 32; 49; 41; 58; 97; 110; 121]%N /\
  run_text without_version_pos (IStrict [97; 58; 97; 110; 121]%N) [OGetEntry 0 0; OGetRel 0 0 0; OSetVersion 0 (Some (VGe, [49]%N))] = Ok [97; 32; 40; 62; 61; 32; 49; 41; 58; 97; 110; 121]%N /\
  run_text fixed (IStrict [97; 58; 97; 110; 121]%N) [OGetEntry 0 0; OGetRel 0 0 0; OSetVersion 0 (Some (VGe, [49]%N))] = Ok [97; 58; 97; 110; 121; 32; 40; 62; 61; 32; 49; 41]%N.
Proof. exact (conj version_pos_shipped (conj version_pos_needed version_pos_fixed)). Qed.
Check C11_version_pos_refuted : 
  run_text shipped (IStrict [97; 58; 97; 110; 121]%N) [OGetEntry 0 0; OGetRel 0 0 0; OSetVersion 0 (Some (VGe, [49]%N))] = Ok [97; 32; 40; 62; 61; 32; 49; 41; 58; 97; 110; 121]%N /\
  run_text without_version_pos (IStrict [97; 58; 97; 110; 121]%N) [OGetEntry 0 0; OGetRel 0 0 0; OSetVersion 0 (Some (VGe, [49]%N))] = Ok [97; 32; 40; 62; 61; 32; 49; 41; 58; 97; 110; 121]%N /\
  run_text fixed (IStrict [97; 58; 97; 110; 121]%N) [OGetEntry 0 0; OGetRel 0 0 0; OSetVersion 0 (Some (VGe, [49]%N))] = Ok [97; 58; 97; 110; 121; 32; 40; 62; 61; 32; 49; 41]%N.
Print Assumptions C11_version_pos_refuted.

(* removing the only alternative leaves an empty entry and its separator *)
Theorem C11_remove_last_refuted : 
  run_text shipped (IStrict [97; 44; 32; 98]%N) [OGetEntry 0 0; OGetRel 0 0 0; ORRemove 0] = Ok [44; 32; 98]%N /\
  run_text without_remove_last (IStrict [97; 44; 32; 98]%N) [OGetEntry 0 0; OGetRel 0 0 0; ORRemove 0] = Ok [44; 32; 98]%N /\
  run_text fixed (IStrict [97; 44; 32; 98]%N) [OGetEntry 0 0; OGetRel 0 0 0; ORRemove 0] = Ok [98]%N.
Proof. exact (conj remove_last_shipped (conj remove_last_needed remove_last_fixed)). Qed.
Check C11_remove_last_refuted : 
  run_text shipped (IStrict [97; 44; 32; 98]%N) [OGetEntry 0 0; OGetRel 0 0 0; ORRemove 0] = Ok [44; 32; 98]%N /\
  run_text without_remove_last (IStrict [97; 44; 32; 98]%N) [OGetEntry 0 0; OGetRel 0 0 0; ORRemove 0] = Ok [44; 32; 98]%N /\
  run_text fixed (IStrict [97; 44; 32; 98]%N) [OGetEntry 0 0; OGetRel 0 0 0; ORRemove 0] = Ok [98]%N.
Print Assumptions C11_remove_last_refuted.

(* removing the first entry after a substitution variable leaves the separator dangling *)
Theorem C11_first_substvar_refuted : 
  run_text shipped (IRelaxed [36; 123; 120; 125; 44; 32; 98]%N) [ORemoveEntry 0] = Ok [36; 123; 120; 125; 44; 32]%N /\
  run_text without_first_substvar (IRelaxed [36; 123; 120; 125; 44; 32; 98]%N) [ORemoveEntry 0] = Ok [36; 123; 120; 125; 44; 32]%N /\
  run_text fixed (IRelaxed [36; 123; 120; 125; 44; 32; 98]%N) [ORemoveEntry 0] = Ok [36; 123; 120; 125]%N.
Proof. exact (conj first_substvar_shipped (conj first_substvar_needed first_substvar_fixed)). Qed.
Check C11_first_substvar_refuted : 
  run_text shipped (IRelaxed [36; 123; 120; 125; 44; 32; 98]%N) [ORemoveEntry 0] = Ok [36; 123; 120; 125; 44; 32]%N /\
  run_text without_first_substvar (IRelaxed [36; 123; 120; 125; 44; 32; 98]%N) [ORemoveEntry 0] = Ok [36; 123; 120; 125; 44; 32]%N /\
  run_text fixed (IRelaxed [36; 123; 120; 125; 44; 32; 98]%N) [ORemoveEntry 0] = Ok [36; 123; 120; 125]%N.
Print Assumptions C11_first_substvar_refuted.

(* Entry::replace with a relation that ends in white space deletes its name *)
Theorem C11_replace_ws_refuted : 
  run_text shipped (IStrict [97; 32; 124; 32; 98]%N) [ONewRel 1 (RSParse [99; 32]%N); OGetEntry 0 0; OEReplace 0 1 1] = Ok [97; 32; 124; 32; 32]%N /\
  run_text without_replace_ws (IStrict [97; 32; 124; 32; 98]%N) [ONewRel 1 (RSParse [99; 32]%N); OGetEntry 0 0; OEReplace 0 1 1] = Ok [97; 32; 124; 32; 32]%N /\
  run_text fixed (IStrict [97; 32; 124; 32; 98]%N) [ONewRel 1 (RSParse [99; 32]%N); OGetEntry 0 0; OEReplace 0 1 1] = Ok [97; 32; 124; 32; 99]%N.
Proof. exact (conj replace_ws_shipped (conj replace_ws_needed replace_ws_fixed)). Qed.
Check C11_replace_ws_refuted : 
  run_text shipped (IStrict [97; 32; 124; 32; 98]%N) [ONewRel 1 (RSParse [99; 32]%N); OGetEntry 0 0; OEReplace 0 1 1] = Ok [97; 32; 124; 32; 32]%N /\
  run_text without_replace_ws (IStrict [97; 32; 124; 32; 98]%N) [ONewRel 1 (RSParse [99; 32]%N); OGetEntry 0 0; OEReplace 0 1 1] = Ok [97; 32; 124; 32; 32]%N /\
  run_text fixed (IStrict [97; 32; 124; 32; 98]%N) [ONewRel 1 (RSParse [99; 32]%N); OGetEntry 0 0; OEReplace 0 1 1] = Ok [97; 32; 124; 32; 99]%N.
Print Assumptions C11_replace_ws_refuted.

(* push after a substitution variable fuses the name with it *)
Theorem C11_append_sep_substvar_refuted : 
  run_text shipped (IRelaxed [36; 123; 120; 125]%N) [ONewEntry 1 (ESParse [98]%N); OPush 1] = Ok [36; 123; 120; 125; 98]%N /\
  run_text fixed (IRelaxed [36; 123; 120; 125]%N) [ONewEntry 1 (ESParse [98]%N); OPush 1] = Ok [36; 123; 120; 125; 44; 32; 98]%N.
Proof. exact (conj append_sep_substvar_shipped append_sep_substvar_fixed). Qed.
Check C11_append_sep_substvar_refuted : 
  run_text shipped (IRelaxed [36; 123; 120; 125]%N) [ONewEntry 1 (ESParse [98]%N); OPush 1] = Ok [36; 123; 120; 125; 98]%N /\
  run_text fixed (IRelaxed [36; 123; 120; 125]%N) [ONewEntry 1 (ESParse [98]%N); OPush 1] = Ok [36; 123; 120; 125; 44; 32; 98]%N.
Print Assumptions C11_append_sep_substvar_refuted.

Theorem C11_version_pos_unreadable : reads_clean [97; 32; 40; 62; 61; 32; 49; 41; 58; 97; 110; 121]%N = false /\ reads_clean [97; 58; 97; 110; 121; 32; 40; 62; 61; 32; 49; 41]%N = true.
Proof. exact version_pos_unreadable. Qed.
Check C11_version_pos_unreadable : reads_clean [97; 32; 40; 62; 61; 32; 49; 41; 58; 97; 110; 121]%N = false /\ reads_clean [97; 58; 97; 110; 121; 32; 40; 62; 61; 32; 49; 41]%N = true.
Print Assumptions C11_version_pos_unreadable.

(* 6. The former finding c11-handle-after-rebuild, repaired by proposed_fixes/C11-10 (in-place splices): an entry handle obtained BEFORE Relations::push pointed into the old tree (push re-rooted `self`), so pushing x through it was not visible in the field — on the shipped code and on the code with the eight earlier fixes; with C11-10 it is *)
Theorem C11_in_place_refuted : 
  run_text shipped (IStrict [97; 44; 32; 98]%N) [OGetEntry 0 0; ONewEntry 1 (ESParse [99]%N); OPush 1; ONewRel 1 (RSSimple [120]%N); OEPush 0 1] = Ok [97; 44; 32; 98; 44; 32; 99]%N /\
  run_text without_in_place (IStrict [97; 44; 32; 98]%N) [OGetEntry 0 0; ONewEntry 1 (ESParse [99]%N); OPush 1; ONewRel 1 (RSSimple [120]%N); OEPush 0 1] = Ok [97; 44; 32; 98; 44; 32; 99]%N /\
  run_text fixed (IStrict [97; 44; 32; 98]%N) [OGetEntry 0 0; ONewEntry 1 (ESParse [99]%N); OPush 1; ONewRel 1 (RSSimple [120]%N); OEPush 0 1] = Ok [97; 32; 124; 32; 120; 44; 32; 98; 44; 32; 99]%N.
Proof. exact (conj in_place_shipped (conj in_place_needed in_place_fixed)). Qed.
Check C11_in_place_refuted : 
  run_text shipped (IStrict [97; 44; 32; 98]%N) [OGetEntry 0 0; ONewEntry 1 (ESParse [99]%N); OPush 1; ONewRel 1 (RSSimple [120]%N); OEPush 0 1] = Ok [97; 44; 32; 98; 44; 32; 99]%N /\
  run_text without_in_place (IStrict [97; 44; 32; 98]%N) [OGetEntry 0 0; ONewEntry 1 (ESParse [99]%N); OPush 1; ONewRel 1 (RSSimple [120]%N); OEPush 0 1] = Ok [97; 44; 32; 98; 44; 32; 99]%N /\
  run_text fixed (IStrict [97; 44; 32; 98]%N) [OGetEntry 0 0; ONewEntry 1 (ESParse [99]%N); OPush 1; ONewRel 1 (RSSimple [120]%N); OEPush 0 1] = Ok [97; 32; 124; 32; 120; 44; 32; 98; 44; 32; 99]%N.
Print Assumptions C11_in_place_refuted.

(* the same for two handles to one relation: set_version through the first re-built the relation, set_archqual through the second then edited the detached old node *)
Theorem C11_in_place_relation_refuted : 
  run_text without_in_place (IStrict [97; 44; 32; 98]%N) [OGetEntry 0 0; OGetRel 0 0 0; OGetRel 1 0 0; OSetVersion 0 (Some (VGe, [49]%N)); OSetArchqual 1 [97; 110; 121]%N] = Ok [97; 32; 40; 62; 61; 32; 49; 41; 44; 32; 98]%N /\
  run_text fixed (IStrict [97; 44; 32; 98]%N) [OGetEntry 0 0; OGetRel 0 0 0; OGetRel 1 0 0; OSetVersion 0 (Some (VGe, [49]%N)); OSetArchqual 1 [97; 110; 121]%N] = Ok [97; 58; 97; 110; 121; 32; 40; 62; 61; 32; 49; 41; 44; 32; 98]%N.
Proof. exact (conj in_place_rel_needed in_place_rel_fixed). Qed.
Check C11_in_place_relation_refuted : 
  run_text without_in_place (IStrict [97; 44; 32; 98]%N) [OGetEntry 0 0; OGetRel 0 0 0; OGetRel 1 0 0; OSetVersion 0 (Some (VGe, [49]%N)); OSetArchqual 1 [97; 110; 121]%N] = Ok [97; 32; 40; 62; 61; 32; 49; 41; 44; 32; 98]%N /\
  run_text fixed (IStrict [97; 44; 32; 98]%N) [OGetEntry 0 0; OGetRel 0 0 0; OGetRel 1 0 0; OSetVersion 0 (Some (VGe, [49]%N)); OSetArchqual 1 [97; 110; 121]%N] = Ok [97; 58; 97; 110; 121; 32; 40; 62; 61; 32; 49; 41; 44; 32; 98]%N.
Print Assumptions C11_in_place_relation_refuted.

(* Non-vacuity: a field of two entries, a history that uses all ten operations in range; the
   hypotheses of C11_history_from_constructors hold and the final text is computed. *)
Example C11_ex :
  let r n v := mk_relrec n None v None [] in
  let f := [[r [97]%N (Some (VGe, [49]%N)); r [98]%N None]; [r [99]%N None]] in
  let ops := [APush [r [100]%N None]; AInsert 0 [r [101]%N (Some (VEq, [50]%N))]; AReplace 1 [r [120]%N None; r [121]%N None];
              ASetArchqual 1 0 [97; 110; 121]%N; ASetVersion 1 0 (Some (VLt, [51]%N)); ADropConstraint 0 0;
              ARemoveRelation 1 1; ARemoveRelation 2 0; ARemoveEntry 0;
              AEPush 1 (r [122]%N None); AEReplace 1 0 (r [119]%N (Some (VGt, [52]%N)))] in
  lfield_ok f = true /\ forallb aop_ok ops = true /\
  forallb (forallb new_only) f = true /\ forallb aop_plain ops = true /\ hist_in_range f ops = true /\
  run_text fixed (IFromVec (map entry_spec f)) (compile_all ops) = Ok [120; 58; 97; 110; 121; 32; 40; 60; 60; 32; 51; 41; 44; 32; 119; 32; 40; 62; 62; 32; 52; 41; 32; 124; 32; 122]%N /\
  fold_left astep ops f = [[mk_relrec [120]%N (Some [97; 110; 121]%N) (Some (VLt, [51]%N)) None []]; [r [119]%N (Some (VGt, [52]%N)); r [122]%N None]].
Proof. vm_compute. repeat split; reflexivity. Qed.

(* Non-vacuity of C11_any_history_from_text: the field
     " a  (>= 1)\n | b:any , ${x}, , c [amd64] <!p>,"
   (leading space, two spaces before the version, a newline before '|', white space before ',',
   a substitution variable, an empty entry, a trailing comma) and a history that uses all twelve
   operations: the hypotheses hold, the machine's final text is computed and is the rendering of
   the abstract history's layout:
     " w (>> 4)\n | b:any (<< 3) , ${x}, , c [amd64] <!p> <q !r>" *)
Example C11_any_ex :
  let sp := [32%N] in
  let r1 := mk_rel [97%N] None (Some (mk_vclause [32;32]%N [] RelAcc.VGe sp None [49%N] [] [])) None [] [10;32]%N in
  let r2 := mk_rel [98%N] (Some (mk_qual [] [] [97;110;121]%N)) None None [] sp in
  let r3 := mk_rel [99%N] None None (Some (mk_group sp [mk_term [] false [97;109;100;54;52]%N] []))
                   [mk_group sp [mk_term [] true [112%N]] []] [] in
  let f := mk_rfield sp (IEntry r1 [(sp, r2)]) [(sp, ISubst [120%N] [] []); (sp, IEmpty); (sp, IEntry r3 []); ([], IEmpty)] in
  let n s v := mk_relrec s None v None [] in
  let ops := [AInsert 0 [n [101%N] (Some (VEq, [50%N]))]; APush [n [100%N] None]; AReplace 3 [n [120%N] None; n [121%N] None];
              ASetArchqual 1 0 [105;51;56;54]%N; ASetVersion 1 1 (Some (VLt, [51%N])); ADropConstraint 1 0;
              ASetArchs 3 0 [[97;109;100;54;52]%N; [97;114;109;54;52]%N]; AAddProfile 2 0 [PEnabled [113%N]; PDisabled [114%N]];
              AEPush 0 (n [122%N] None); AEReplace 1 0 (n [119%N] (Some (VGt, [52%N])));
              ARemoveRelation 3 1; ARemoveRelation 3 0; ARemoveEntry 0] in
  wf_rfield true f = true /\ rrender f = [32; 97; 32; 32; 40; 62; 61; 32; 49; 41; 10; 32; 124; 32; 98; 58; 97; 110; 121; 32; 44; 32; 36; 123; 120; 125; 44; 32; 44; 32; 99; 32; 91; 97; 109; 100; 54; 52; 93; 32; 60; 33; 112; 62; 44]%N /\
  forallb operands_ok ops = true /\ xsteps_in_range (fst (rcontent f)) ops = true /\
  run_text fixed (IRelaxed (rrender f)) (compile_all ops) = Ok [32; 119; 32; 40; 62; 62; 32; 52; 41; 10; 32; 124; 32; 98; 58; 97; 110; 121; 32; 40; 60; 60; 32; 51; 41; 32; 44; 32; 36; 123; 120; 125; 44; 32; 44; 32; 99; 32; 91; 97; 109; 100; 54; 52; 93; 32; 60; 33; 112; 62; 32; 60; 113; 32; 33; 114; 62]%N /\
  option_map (fun l => rrender (norm l)) (a_ops ops (live_of f)) = Some [32; 119; 32; 40; 62; 62; 32; 52; 41; 10; 32; 124; 32; 98; 58; 97; 110; 121; 32; 40; 60; 60; 32; 51; 41; 32; 44; 32; 36; 123; 120; 125; 44; 32; 44; 32; 99; 32; 91; 97; 109; 100; 54; 52; 93; 32; 60; 33; 112; 62; 32; 60; 113; 32; 33; 114; 62]%N /\
  reads_clean [32; 119; 32; 40; 62; 62; 32; 52; 41; 10; 32; 124; 32; 98; 58; 97; 110; 121; 32; 40; 60; 60; 32; 51; 41; 32; 44; 32; 36; 123; 120; 125; 44; 32; 44; 32; 99; 32; 91; 97; 109; 100; 54; 52; 93; 32; 60; 33; 112; 62; 32; 60; 113; 32; 33; 114; 62]%N = true.
Proof. vm_compute. repeat split; reflexivity. Qed.

(* Non-vacuity of C11_any_mixed_history_from_text: the same field, operands parsed from texts
   with odd white space (" e( =1:2 )\t\n | g ", "z :any ", " w  ", "\nd", "x |y"):
     " e( =1:2 ), w\n | b:any  | z :any , ${x}, , x |y (<< 3), d" *)
Example C11_any_parsed_ex :
  let sp := [32%N] in
  let r1 := mk_rel [97%N] None (Some (mk_vclause [32;32]%N [] RelAcc.VGe sp None [49%N] [] [])) None [] [10;32]%N in
  let r2 := mk_rel [98%N] (Some (mk_qual [] [] [97;110;121]%N)) None None [] sp in
  let r3 := mk_rel [99%N] None None (Some (mk_group sp [mk_term [] false [97;109;100;54;52]%N] []))
                   [mk_group sp [mk_term [] true [112%N]] []] [] in
  let f := mk_rfield sp (IEntry r1 [(sp, r2)]) [(sp, ISubst [120%N] [] []); (sp, IEmpty); (sp, IEntry r3 []); ([], IEmpty)] in
  let nm s tr := mk_rel s None None None [] tr in
  let ops := [GP (PInsert 0 sp (mk_rel [101%N] None (Some (mk_vclause [] sp RelAcc.VEq [] (Some [49%N]) [50%N] [] sp)) None [] [9%N])
                          [([10;32]%N, nm [103%N] sp)]);
              GP (PEPush 1 [] (mk_rel [122%N] (Some (mk_qual sp [] [97;110;121]%N)) None None [] sp));
              GP (PEReplace 1 0 sp (nm [119%N] [32;32]%N));
              GP (PPush [10%N] (nm [100%N] []) []);
              GP (PReplace 2 [] (nm [120%N] sp) [([], nm [121%N] [])]);
              GA (ARemoveRelation 0 1); GA (ASetVersion 2 1 (Some (VLt, [51%N])))] in
  wf_rfield true f = true /\ forallb goperands_ok ops = true /\ gsteps_in_range (fst (rcontent f)) ops = true /\
  run_text fixed (IRelaxed (rrender f)) (gcompile_all ops) = Ok [32; 101; 40; 32; 61; 49; 58; 50; 32; 41; 44; 32; 119; 10; 32; 124; 32; 98; 58; 97; 110; 121; 32; 32; 124; 32; 122; 32; 58; 97; 110; 121; 32; 44; 32; 36; 123; 120; 125; 44; 32; 44; 32; 120; 32; 124; 121; 32; 40; 60; 60; 32; 51; 41; 44; 32; 100]%N /\
  option_map (fun l => rrender (norm l)) (g_ops ops (live_of f)) = Some [32; 101; 40; 32; 61; 49; 58; 50; 32; 41; 44; 32; 119; 10; 32; 124; 32; 98; 58; 97; 110; 121; 32; 32; 124; 32; 122; 32; 58; 97; 110; 121; 32; 44; 32; 36; 123; 120; 125; 44; 32; 44; 32; 120; 32; 124; 121; 32; 40; 60; 60; 32; 51; 41; 44; 32; 100]%N /\
  reads_clean [32; 101; 40; 32; 61; 49; 58; 50; 32; 41; 44; 32; 119; 10; 32; 124; 32; 98; 58; 97; 110; 121; 32; 32; 124; 32; 122; 32; 58; 97; 110; 121; 32; 44; 32; 36; 123; 120; 125; 44; 32; 44; 32; 120; 32; 124; 121; 32; 40; 60; 60; 32; 51; 41; 44; 32; 100]%N = true.
Proof. vm_compute. repeat split; reflexivity. Qed.

(* Non-vacuity of the handle theorems: "a, b | c, d"; handles to the entry "b | c", to its
   alternative "c" and to the entry "d" are taken FIRST and never re-obtained; then an entry is
   inserted in front, an entry in front is removed, and the edits go through the old handles:
   set_version on c, Entry::push on d, get_relation(0) + Relation::remove on b, set_archqual on c,
   Entry::remove on d.  The abstract reading gives the history of the list model and where every
   handle points at the end; the machine (fixed) prints the list model's result; without
   proposed_fixes/C11-10 the same program loses the edits. *)
Example C11_handles_ex :
  let x n := mk_relx n None None None [] in
  let n s v := mk_relrec s None v None [] in
  let ops := [OGetEntry 0 1; OGetRel 0 0 1; OGetEntry 1 2;
              ONewEntry 2 (entry_spec [n [120%N] None]); OInsert 0 2;
              ORemoveEntry 1;
              OSetVersion 0 (Some (VGe, [49%N]));
              ONewRel 1 (rel_spec (n [122%N] None)); OEPush 1 1;
              OGetRel 1 0 0; ORRemove 1;
              OSetArchqual 0 [97;110;121]%N;
              OERemove 1] in
  let tr := [AInsert 0 [n [120%N] None]; ARemoveEntry 1; ASetVersion 1 1 (Some (VGe, [49%N]));
             AEPush 2 (n [122%N] None); ARemoveRelation 1 0; ASetArchqual 1 0 [97;110;121]%N; ARemoveEntry 2] in
  option_map (fun p => (h_f (fst p), snd p, h_reg (fst p) (ereg 0), h_reg (fst p) (rreg 0), h_reg (fst p) (ereg 1), h_reg (fst p) (rreg 1)))
             (h_ops ops (h_start [[x [97%N]]; [x [98%N]; x [99%N]]; [x [100%N]]]))
  = Some ([[x [120%N]]; [mk_relx [99%N] (Some [97;110;121]%N) (Some (RelAcc.VGe, [49%N])) None []]], tr,
          Some (ELive 1), Some (RLive 1 0), Some Gone, Some Gone) /\
  forallb operands_ok tr = true /\
  run_text fixed (IStrict [97; 44; 32; 98; 32; 124; 32; 99; 44; 32; 100]%N) ops = Ok [120; 44; 32; 99; 58; 97; 110; 121; 32; 40; 62; 61; 32; 49; 41]%N /\
  run_text without_in_place (IStrict [97; 44; 32; 98; 32; 124; 32; 99; 44; 32; 100]%N) ops = Ok [120; 44; 32; 98; 32; 124; 32; 99; 44; 32; 100]%N.
Proof. vm_compute. repeat split; reflexivity. Qed.

(* Non-vacuity of C11_full_theorem: a text no Policy-shaped field has — CR as white space, no space
   before the version, a version "5::", an architecture list "[!! x !]", profile groups "<a !b ! c>"
   and "<>", a substitution variable "${::a:}", an empty entry and a trailing comma —
     "\r a:b(= 5::)[!! x !]<a !b ! c><>|z , ${::a:},,"
   is read without error, its accessors do not panic; a history with builder-built operands
   (qualifier, architectures, profiles) is in range; the machine prints
     "\r a:b(>= 2)[!! x !]<a !b ! c><> <r> | n:any [amd64] <p !q> , ${::a:},, w:native <!s>"
   which is read again without error to exactly the list model's field. *)
Example C11_full_ex :
  let sfield s := match parse_relaxed s true with Ok (t, 0) => structure_d t | _ => Err 1%N end in
  let slots s := match parse_relaxed s true with Ok (t, 0) => tree_slots t | _ => [] end in
  let s0 := [13; 32; 97; 58; 98; 40; 61; 32; 53; 58; 58; 41; 91; 33; 33; 32; 120; 32; 33; 93; 60; 97; 32; 33; 98; 32; 33; 32; 99; 62; 60; 62; 124; 122; 32; 44; 32; 36; 123; 58; 58; 97; 58; 125; 44; 44]%N in
  let f0 := [[mk_relrec [97]%N (Some [98]%N) (Some (VEq, [53; 58; 58]%N)) (Some [[33; 120]%N]) [[PEnabled [97]%N; PDisabled [98]%N; PDisabled []%N; PEnabled [99]%N]; []]; mk_relrec [122]%N None None None []]] in
  let ops := [ASetVersion 0 0 (Some (VGe, [50]%N)); AEPush 0 (mk_relrec [110]%N (Some [97; 110; 121]%N) None (Some [[97; 109; 100; 54; 52]%N]) [[PEnabled [112]%N; PDisabled [113]%N]]);
              ASetArchs 0 1 [[105; 51; 56; 54]%N]; AAddProfile 0 0 [PEnabled [114]%N];
              APush [mk_relrec [119]%N None None None [[PDisabled [115]%N]]]; ARemoveRelation 0 1; ASetArchqual 1 0 [110; 97; 116; 105; 118; 101]%N] in
  let s1 := [13; 32; 97; 58; 98; 40; 62; 61; 32; 50; 41; 91; 33; 33; 32; 120; 32; 33; 93; 60; 97; 32; 33; 98; 32; 33; 32; 99; 62; 60; 62; 32; 60; 114; 62; 32; 124; 32; 110; 58; 97; 110; 121; 32; 91; 97; 109; 100; 54; 52; 93; 32; 60; 112; 32; 33; 113; 62; 32; 44; 32; 36; 123; 58; 58; 97; 58; 125; 44; 44; 32; 119; 58; 110; 97; 116; 105; 118; 101; 32; 60; 33; 115; 62]%N in
  sfield s0 = Ok f0 /\ hist_in_range f0 ops = true /\ forallb wf_operands ops = true /\
  run_text fixed (IRelaxed s0) (compile_all ops) = Ok s1 /\
  fold_left astep ops f0 = [[mk_relrec [97]%N (Some [98]%N) (Some (VGe, [50]%N)) (Some [[33; 120]%N]) [[PEnabled [97]%N; PDisabled [98]%N; PDisabled []%N; PEnabled [99]%N]; []; [PEnabled [114]%N]]; mk_relrec [110]%N (Some [97; 110; 121]%N) None (Some [[97; 109; 100; 54; 52]%N]) [[PEnabled [112]%N; PDisabled [113]%N]]]; [mk_relrec [119]%N (Some [110; 97; 116; 105; 118; 101]%N) None None [[PDisabled [115]%N]]]] /\
  sfield s1 = Ok (fold_left astep ops f0) /\
  slots s0 = [SEntry; SSubst; SEmpty; SEmpty] /\ slots s1 = slots_after ops f0 (slots s0) /\ slots s1 = [SEntry; SSubst; SEmpty; SEntry].
Proof. vm_compute. repeat split; reflexivity. Qed.

(* Non-vacuity of the handle theorems with parsed operands (and of section 1f): the text of
   C11_full_ex; a handle to its entry is taken FIRST; then Entry::from_str(" , x (= 5::) | y ,") is
   inserted in front; through the old handle Relation::from_str(",,\n w:any [!i386] <!p> ") is pushed and
   the alternative z replaced by Relation::from_str(" q (<< 1) , "); the entry in front is replaced by
   Entry::from_str("m | n"); a built entry k is pushed.  The abstract reading gives the list model's
   field, four steps with parsed operands and one with a built one, and the old handle now denotes
   entry 1; the machine prints
     "\r m | n, a:b(= 5::)[!! x !]<a !b ! c><>|q (<< 1) | w:any [!i386] <!p> , ${::a:},, k"
   which is read again without error to exactly that field. *)
Example C11_all_handles_parsed_ex :
  let sfield s := match parse_relaxed s true with Ok (t, 0) => structure t | _ => Err 1%N end in
  let s0 := [13; 32; 97; 58; 98; 40; 61; 32; 53; 58; 58; 41; 91; 33; 33; 32; 120; 32; 33; 93; 60; 97; 32; 33; 98; 32; 33; 32; 99; 62; 60; 62; 124; 122; 32; 44; 32; 36; 123; 58; 58; 97; 58; 125; 44; 44]%N in
  let f0 := [[mk_relrec [97]%N (Some [98]%N) (Some (VEq, [53; 58; 58]%N)) (Some [[33; 120]%N]) [[PEnabled [97]%N; PDisabled [98]%N; PDisabled []%N; PEnabled [99]%N]; []]; mk_relrec [122]%N None None None []]] in
  let ops := [OGetEntry 0 0;
              ONewEntry 1 (ESParse [32; 44; 32; 120; 32; 40; 61; 32; 53; 58; 58; 41; 32; 124; 32; 121; 32; 44]%N); OInsert 0 1;
              ONewRel 1 (RSParse [44; 44; 10; 32; 119; 58; 97; 110; 121; 32; 91; 33; 105; 51; 56; 54; 93; 32; 60; 33; 112; 62; 32]%N); OEPush 0 1;
              ONewRel 2 (RSParse [32; 113; 32; 40; 60; 60; 32; 49; 41; 32; 44; 32]%N); OEReplace 0 1 2;
              ONewEntry 2 (ESParse [109; 32; 124; 32; 110]%N); OReplace 0 2;
              ONewEntry 3 (entry_spec [mk_relrec [107]%N None None None []]); OPush 3] in
  let f1 := [[mk_relrec [109]%N None None None []; mk_relrec [110]%N None None None []]; [mk_relrec [97]%N (Some [98]%N) (Some (VEq, [53; 58; 58]%N)) (Some [[33; 120]%N]) [[PEnabled [97]%N; PDisabled [98]%N; PDisabled []%N; PEnabled [99]%N]; []]; mk_relrec [113]%N None (Some (VLt, [49]%N)) None []; mk_relrec [119]%N (Some [97; 110; 121]%N) None (Some [[33; 105; 51; 56; 54]%N]) [[PDisabled [112]%N]]]; [mk_relrec [107]%N None None None []]] in
  let s1 := [13; 32; 109; 32; 124; 32; 110; 44; 32; 97; 58; 98; 40; 61; 32; 53; 58; 58; 41; 91; 33; 33; 32; 120; 32; 33; 93; 60; 97; 32; 33; 98; 32; 33; 32; 99; 62; 60; 62; 124; 113; 32; 40; 60; 60; 32; 49; 41; 32; 124; 32; 119; 58; 97; 110; 121; 32; 91; 33; 105; 51; 56; 54; 93; 32; 60; 33; 112; 62; 32; 44; 32; 36; 123; 58; 58; 97; 58; 125; 44; 44; 32; 107]%N in
  sfield s0 = Ok f0 /\
  option_map (fun p => (RelHandlesAll.h_f (fst p), RelHandlesAll.h_reg (fst p) (ereg 0),
                        map (fun s => match s with RelHandlesAll.HB _ => false | RelHandlesAll.HP _ => true end) (snd p),
                        forallb RelHandlesAll.hoperands_ok (snd p),
                        fold_left RelHandlesAll.hxstep (snd p) f0))
             (RelHandlesAll.h_ops ops (RelHandlesAll.h_start f0))
  = Some (f1, Some (RelHandlesAll.ELive 1), [true; true; true; true; false], true, f1) /\
  run_text fixed (IRelaxed s0) ops = Ok s1 /\
  sfield s1 = Ok f1.
Proof. vm_compute. repeat split; reflexivity. Qed.

(* Finding c11-replace-live-operand-moved (code as it is): replace with an operand that is a live
   handle of the field moves it out of its place ("a, c" -> "c, "; the list model has "c, c");
   push / insert copy such an operand. The handle theorems above take operands built by the
   constructors, the builder or a parser (ENew / RNew), which is exactly what excludes this. *)
Theorem C11_replace_live_operand_witness :
  run_text fixed (IStrict [97; 44; 32; 99]%N) [OGetEntry 1 1; OGetRel 2 1 0; OGetEntry 0 0; OEReplace 0 0 2] = Ok [99; 44; 32]%N /\
  run_text fixed (IStrict [97; 44; 32; 99]%N) [OGetEntry 1 1; OReplace 0 1] = Ok [99; 44; 32]%N /\
  run_text fixed (IStrict [97; 44; 32; 99]%N) [OGetEntry 1 1; OGetRel 2 1 0; OGetEntry 0 0; OEPush 0 2] = Ok [97; 32; 124; 32; 99; 44; 32; 99]%N /\
  run_text fixed (IStrict [97; 44; 32; 99]%N) [OGetEntry 1 1; OPush 1] = Ok [97; 44; 32; 99; 44; 32; 99]%N.
Proof. exact (conj replace_live_relation_moved (conj replace_live_entry_moved (conj push_live_relation_copied push_live_entry_copied))). Qed.
Check C11_replace_live_operand_witness :
  run_text fixed (IStrict [97; 44; 32; 99]%N) [OGetEntry 1 1; OGetRel 2 1 0; OGetEntry 0 0; OEReplace 0 0 2] = Ok [99; 44; 32]%N /\
  run_text fixed (IStrict [97; 44; 32; 99]%N) [OGetEntry 1 1; OReplace 0 1] = Ok [99; 44; 32]%N /\
  run_text fixed (IStrict [97; 44; 32; 99]%N) [OGetEntry 1 1; OGetRel 2 1 0; OGetEntry 0 0; OEPush 0 2] = Ok [97; 32; 124; 32; 99; 44; 32; 99]%N /\
  run_text fixed (IStrict [97; 44; 32; 99]%N) [OGetEntry 1 1; OPush 1] = Ok [97; 44; 32; 99; 44; 32; 99]%N.
Print Assumptions C11_replace_live_operand_witness.
