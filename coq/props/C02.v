From V.model Require Import Base.
Theorem C02_placeholder : True. Proof. exact I. Qed.
Check C02_placeholder : True.
Print Assumptions C02_placeholder.
