(* C02 — every text-parsing entry point is total: a value or an error for every input; no
   panic site is reached and every loop terminates within its fuel (the models make both
   explicit: res = Ok | Err | Panic | OutOfFuel).  This file collects the totality theorems of
   the cones; each is a statement over ALL strings.  What is NOT proved here: wall-clock time,
   the real stack and the allocator — the harness measures them (streams totality and
   totality-scale).  The external field parsers (url, chrono, debversion, ...) are parameters of
   the typed-document models: any function from text to an optional value. *)
From V.model Require Import Base Deb822Lex Deb822Parse Lossy RelLex RelParse Pgp EnumTab Codecs Vcs.
From V.gen Require Import Enums_gen.
From V.proofs Require Import Deb822LexP Deb822ParseP LossyP RelLexP RelParseP PgpP EnumTabP VcsP.
From V.model Require RelLossy.
From V.proofs Require RelLossyP.
From V.model Require TypedDocs.
From V.proofs Require TypedSpecP.
From V.props Require C20.

(* deb822, lossless: Deb822::{from_str, from_str_relaxed, read, read_relaxed}, Paragraph::from_str.
   Also: at most 3 errors per character (memory), nesting depth at most 4 (stack). *)
Theorem C02_deb822_lossless : forall s : str,
  (exists t n, from_str_relaxed s = Ok (t, n) /\ n <= 3 * length s /\ depth t <= 4) /\
  ((exists t, from_str s = Ok t) \/ from_str s = Err 1%N) /\
  ((exists p, paragraph_from_str s = Ok p) \/ (exists e, paragraph_from_str s = Err e)).
Proof.
  intros s. destruct (parse_total s) as (t & n & E & B).
  assert (D : depth t <= 4) by (eapply parse_depth; exact E).
  split; [exists t, n; split; [exact E|split; assumption]|].
  unfold paragraph_from_str, from_str. rewrite E. destruct n.
  - split; [left; eexists; reflexivity|]. destruct (paragraphs t); [right|left]; eexists; reflexivity.
  - split; [right; reflexivity|right; eexists; reflexivity].
Qed.
Check C02_deb822_lossless : forall s : str,
  (exists t n, from_str_relaxed s = Ok (t, n) /\ n <= 3 * length s /\ depth t <= 4) /\
  ((exists t, from_str s = Ok t) \/ from_str s = Err 1%N) /\
  ((exists p, paragraph_from_str s = Ok p) \/ (exists e, paragraph_from_str s = Err e)).
Print Assumptions C02_deb822_lossless.

(* deb822, lossy: lossy::{Deb822, Paragraph}::from_str *)
Theorem C02_deb822_lossy : forall s : str,
  ((exists d, lossy_from_str s = Ok d) \/ (exists e, lossy_from_str s = Err e)) /\
  ((exists p, lossy_paragraph_from_str s = Ok p) \/ (exists e, lossy_paragraph_from_str s = Err e)).
Proof. intros s. split; [apply lossy_total|apply lossy_paragraph_total]. Qed.
Check C02_deb822_lossy : forall s : str,
  ((exists d, lossy_from_str s = Ok d) \/ (exists e, lossy_from_str s = Err e)) /\
  ((exists p, lossy_paragraph_from_str s = Ok p) \/ (exists e, lossy_paragraph_from_str s = Err e)).
Print Assumptions C02_deb822_lossy.

(* relationship fields, lossless: Relations::{from_str, parse_relaxed(_, true|false)},
   Entry::from_str, Relation::from_str *)
Theorem C02_relations_lossless : forall s : str,
  (forall allow, exists t n, parse_relaxed s allow = Ok (t, n)) /\
  ((exists t, relations_from_str s = Ok t) \/ relations_from_str s = Err 1%N) /\
  ((exists e, entry_from_str s = Ok e) \/ (exists c, entry_from_str s = Err c)) /\
  ((exists r, relation_from_str s = Ok r) \/ (exists c, relation_from_str s = Err c)).
Proof.
  intros s.
  assert (A : forall allow, exists t n, parse_relaxed s allow = Ok (t, n)).
  { intros a. destruct (rparse_total s a) as (t & n & E & _). exists t, n. exact E. }
  split; [exact A|].
  destruct (A false) as (t & n & E). unfold parse_relaxed in E.
  assert (B : (exists t, relations_from_str s = Ok t) \/ relations_from_str s = Err 1%N).
  { unfold relations_from_str. rewrite E. destruct n; [left; eexists; reflexivity|right; reflexivity]. }
  split; [exact B|].
  assert (C : (exists e, entry_from_str s = Ok e) \/ (exists c, entry_from_str s = Err c)).
  { unfold entry_from_str. destruct B as [[t' ->]| ->]; [|right; eexists; reflexivity].
    destruct (r_entries t') as [|e1 [|e2 l]]; [right|left|right]; eexists; reflexivity. }
  split; [exact C|].
  unfold relation_from_str. destruct C as [[e ->]|[c ->]]; [|right; eexists; reflexivity].
  destruct (r_relations e) as [|r1 [|r2 l]]; [right|left|right]; eexists; reflexivity.
Qed.
Check C02_relations_lossless : forall s : str,
  (forall allow, exists t n, parse_relaxed s allow = Ok (t, n)) /\
  ((exists t, relations_from_str s = Ok t) \/ relations_from_str s = Err 1%N) /\
  ((exists e, entry_from_str s = Ok e) \/ (exists c, entry_from_str s = Err c)) /\
  ((exists r, relation_from_str s = Ok r) \/ (exists c, relation_from_str s = Err c)).
Print Assumptions C02_relations_lossless.

(* ... and their trees nest at most 5 deep (ROOT > ENTRY > RELATION > VERSION > CONSTRAINT/ERROR) *)
Theorem C02_relations_depth : forall s allow t n, parse_relaxed s allow = Ok (t, n) -> depth t <= 5.
Proof. exact rparse_depth. Qed.
Check C02_relations_depth : forall s allow t n, parse_relaxed s allow = Ok (t, n) -> depth t <= 5.
Print Assumptions C02_relations_depth.

(* PGP unwrapping *)
Theorem C02_pgp : forall s : str,
  (exists p o, strip_pgp_signature s = Ok (p, o)) \/ (exists e, strip_pgp_signature s = Err e).
Proof.
  intros s. destruct (strip_total s) as [H|[H|[H|[H|H]]]]; [left; exact H| | | |]; right; eexists; exact H.
Qed.
Check C02_pgp : forall s : str,
  (exists p o, strip_pgp_signature s = Ok (p, o)) \/ (exists e, strip_pgp_signature s = Err e).
Print Assumptions C02_pgp.

(* typed field values: the seven enumerations (for the tables regenerated from the sources)
   and ParsedVcs *)
Theorem C02_enums : forall t, In t all_enums ->
  forall s, (exists v, enum_parse t s = Ok v) \/ enum_parse t s = Err 1%N.
Proof.
  intros t Hin. apply enum_parse_total.
  assert (H : forallb enum_ok all_enums = true) by (vm_compute; reflexivity).
  rewrite forallb_forall in H. apply H. exact Hin.
Qed.
Check C02_enums : forall t, In t all_enums ->
  forall s, (exists v, enum_parse t s = Ok v) \/ enum_parse t s = Err 1%N.
Print Assumptions C02_enums.

Theorem C02_parsed_vcs : forall s, exists v, parsed_vcs_from_str s = Ok v.
Proof. exact pvcs_total. Qed.
Check C02_parsed_vcs : forall s, exists v, parsed_vcs_from_str s = Ok v.
Print Assumptions C02_parsed_vcs.

(* Non-vacuity: inputs that used to panic or hang (fixed defects) now have outcomes. *)
Example C02_ex :
  (exists t n, from_str_relaxed [233; 58; 32; 120; 10]%N = Ok (t, n)) /\          (* "é: x\n" *)
  (exists d, lossy_from_str [65; 58; 32; 98; 10; 32; 99]%N = Ok d) /\             (* "A: b\n c" *)
  (exists t n, parse_relaxed [36; 123]%N true = Ok (t, n)) /\                     (* "${" *)
  (exists t n, parse_relaxed [97; 32; 91]%N false = Ok (t, n)).                   (* "a [" *)
Proof. repeat split; vm_compute; do 2 eexists; reflexivity || (eexists; reflexivity). Qed.

(* relationship fields, lossy: lossy::{Relation, Relations}::from_str, whatever the version parser
   (debversion is a parameter of the model: any function from text to an optional version). *)
Theorem C02_relations_lossy : forall (V : Type) (vparse : str -> option V) (s : str),
  ((exists r, RelLossy.relation_from_str vparse s = Ok r) \/ (exists e, RelLossy.relation_from_str vparse s = Err e)) /\
  ((exists rs, RelLossy.relations_from_str vparse s = Ok rs) \/ (exists e, RelLossy.relations_from_str vparse s = Err e)).
Proof.
  intros V vparse s. split; apply RelLossyP.fine_cases; [apply RelLossyP.relation_from_str_fine|apply RelLossyP.relations_from_str_fine].
Qed.
Check C02_relations_lossy : forall (V : Type) (vparse : str -> option V) (s : str),
  ((exists r, RelLossy.relation_from_str vparse s = Ok r) \/ (exists e, RelLossy.relation_from_str vparse s = Err e)) /\
  ((exists rs, RelLossy.relations_from_str vparse s = Ok rs) \/ (exists e, RelLossy.relations_from_str vparse s = Err e)).
Print Assumptions C02_relations_lossy.

(* typed documents through the derive macro: lossy Control, copyright, apt Release/Source/Package,
   removal records, buildinfo, DEP-3 headers, APT sources — a value or an error for every text,
   whatever the external field parsers return (C20's cone). *)
Theorem C02_typed_documents : forall E ext_parse s,
  TypedSpecP.tvalue (TypedDocs.parse_control E ext_parse s) /\ TypedSpecP.tvalue (TypedDocs.parse_copyright E ext_parse s) /\
  TypedSpecP.tvalue (TypedDocs.parse_release E ext_parse s) /\ TypedSpecP.tvalue (TypedDocs.parse_apt_source E ext_parse s) /\
  TypedSpecP.tvalue (TypedDocs.parse_apt_package E ext_parse s) /\
  TypedSpecP.tvalue (TypedDocs.parse_removal E ext_parse s) /\ TypedSpecP.tvalue (TypedDocs.parse_buildinfo E ext_parse s) /\
  TypedSpecP.tvalue (TypedDocs.parse_dep3 E ext_parse s) /\ TypedSpecP.tvalue (TypedDocs.parse_repositories E ext_parse s).
Proof. exact C20.doc_total. Qed.
Check C02_typed_documents : forall E ext_parse s,
  TypedSpecP.tvalue (TypedDocs.parse_control E ext_parse s) /\ TypedSpecP.tvalue (TypedDocs.parse_copyright E ext_parse s) /\
  TypedSpecP.tvalue (TypedDocs.parse_release E ext_parse s) /\ TypedSpecP.tvalue (TypedDocs.parse_apt_source E ext_parse s) /\
  TypedSpecP.tvalue (TypedDocs.parse_apt_package E ext_parse s) /\
  TypedSpecP.tvalue (TypedDocs.parse_removal E ext_parse s) /\ TypedSpecP.tvalue (TypedDocs.parse_buildinfo E ext_parse s) /\
  TypedSpecP.tvalue (TypedDocs.parse_dep3 E ext_parse s) /\ TypedSpecP.tvalue (TypedDocs.parse_repositories E ext_parse s).
Print Assumptions C02_typed_documents.

(* ================================================================== the BYTE level
   Rust slices `&str` at byte offsets and panics when an offset is not a character boundary.
   model/Utf8.v gives the scalar-value strings their byte offsets (`is_boundary`, `split_at_b`,
   `slice_*_b`, `find_b`: Panic off a boundary or out of range); model/ByteLex.v and
   model/ByteVcs.v transcribe lex_ (src/lex.rs), ParsedVcs::from_str (vcs.rs) and the
   `source[..1]` of get_pool_path (changes.rs) with every slice the source performs, and the
   slices themselves are re-read from the source on every run (translate/bytesites.py ->
   gen/ByteSites_gen.v).  Theorems below: for EVERY string no slice panics, and the byte-level
   functions compute what the char-level models (compared with the code by the streams) compute. *)
From V.model Require Import Utf8 ByteLex ByteVcs.
From V.gen Require Import Classes_gen ByteSites_gen.
From V.proofs Require Import Utf8P ByteLexP ByteVcsP.

(* `is_boundary` is str::is_char_boundary as core::str computes it on the encoded bytes, and
   `split_at_b` yields a value exactly on a boundary (the split at the byte length of a prefix) *)
Theorem C02_boundary_is_bytes : forall (s : str) (off : nat),
  is_boundary s off = is_char_boundary_bytes (enc s) off /\
  (if is_boundary s off then exists a b, split_at_b s off = Ok (a, b) /\ a ++ b = s /\ len_b a = off
   else exists n, split_at_b s off = Panic n).
Proof.
  intros s off. split; [apply is_boundary_bytes|].
  pose proof (split_at_b_boundary s off) as H. destruct (is_boundary s off); [|exact H].
  destruct H as (a & b & H). exists a, b. split; [exact H|]. exact (split_at_b_ok s off a b H).
Qed.
Check C02_boundary_is_bytes : forall (s : str) (off : nat),
  is_boundary s off = is_char_boundary_bytes (enc s) off /\
  (if is_boundary s off then exists a b, split_at_b s off = Ok (a, b) /\ a ++ b = s /\ len_b a = off
   else exists n, split_at_b s off = Panic n).
Print Assumptions C02_boundary_is_bytes.

(* Why the constant-width slices of lex_ are safe: the guards in front of `&input[1..]` and
   `split_at(1)` force a ONE-BYTE character.  Stated over the classes regenerated from
   src/common.rs: a class that grows a member >= 128 (U+0085 in is_newline, say) breaks this. *)
Theorem C02_one_byte_guards : forall c : N,
  (is_newline_src c = true -> ulen c = 1) /\ (is_indent_src c = true -> ulen c = 1) /\
  ulen 58 = 1 /\
  (is_valid_initial_key_char_src c = true -> is_valid_key_char_src c = true).
Proof.
  intros c. split; [apply is_newline_src_one_byte|]. split; [apply is_indent_src_one_byte|].
  split; [exact colon_one_byte|apply initial_key_char_src_is_key_char].
Qed.
Check C02_one_byte_guards : forall c : N,
  (is_newline_src c = true -> ulen c = 1) /\ (is_indent_src c = true -> ulen c = 1) /\
  ulen 58 = 1 /\
  (is_valid_initial_key_char_src c = true -> is_valid_key_char_src c = true).
Print Assumptions C02_one_byte_guards.

(* lex / lex_inline at the byte level: a token list for every input (no slice off a boundary or
   out of range, fuel suffices), and it is the char-level lexer's token list *)
Theorem C02_bytelex_safe : forall (start_of_line : bool) (s : str),
  exists ts, bytelex_ start_of_line s = Ok ts /\ Deb822Lex.lex_ start_of_line s = Ok ts.
Proof. exact bytelex_safe. Qed.
Check C02_bytelex_safe : forall (start_of_line : bool) (s : str),
  exists ts, bytelex_ start_of_line s = Ok ts /\ Deb822Lex.lex_ start_of_line s = Ok ts.
Print Assumptions C02_bytelex_safe.

(* ... for the arms (guards, slices, predicates, state updates, kinds, order) that
   translate/bytesites.py read from src/lex.rs on this run; the written-out closure
   ByteLex.blex_step is that table *)
Theorem C02_bytelex_source :
  lex_sites_recognised = true /\ lex_arms_src = lex_arms /\
  (forall st input c, tstep lex_arms_src st input c = blex_step st input c) /\
  (forall (start_of_line : bool) (s : str), exists ts,
     tlex_go lex_arms_src (length s) (bst_init start_of_line) s = Ok ts /\
     Deb822Lex.lex_ start_of_line s = Ok ts).
Proof.
  split; [exact (proj1 lex_arms_src_ok)|]. split; [exact (proj2 lex_arms_src_ok)|].
  split; [rewrite (proj2 lex_arms_src_ok); exact tstep_lex_arms|exact bytelex_src_safe].
Qed.
Check C02_bytelex_source :
  lex_sites_recognised = true /\ lex_arms_src = lex_arms /\
  (forall st input c, tstep lex_arms_src st input c = blex_step st input c) /\
  (forall (start_of_line : bool) (s : str), exists ts,
     tlex_go lex_arms_src (length s) (bst_init start_of_line) s = Ok ts /\
     Deb822Lex.lex_ start_of_line s = Ok ts).
Print Assumptions C02_bytelex_source.

(* the defect fixed by d200b95, at the level where it lives: the lexer whose ERROR arm is
   `split_at(1)` panics on "é", and on every input that starts with a multi-byte character *)
Theorem C02_bytelex_prefix_refuted :
  bytelex_prefix [233%N] = Panic site_not_boundary /\
  (forall (c : N) (r : str), (128 <= c)%N -> bytelex_prefix (c :: r) = Panic site_not_boundary).
Proof. split; [exact bytelex_prefix_refuted|exact bytelex_prefix_panics]. Qed.
Check C02_bytelex_prefix_refuted :
  bytelex_prefix [233%N] = Panic site_not_boundary /\
  (forall (c : N) (r : str), (128 <= c)%N -> bytelex_prefix (c :: r) = Panic site_not_boundary).
Print Assumptions C02_bytelex_prefix_refuted.

(* ParsedVcs::from_str at the byte level (m.as_str()[2..len-1], s[..m.start()], s[m.end()..],
   split_at(find(" -b ")), branch_str[4..]; constants and literals as read from vcs.rs on this
   run): the char-level result, hence a value, for every input.  This replaces the reading of
   C02_parsed_vcs above, whose model cannot express a boundary panic. *)
Theorem C02_parsed_vcs_bytes :
  vcs_sites_recognised = true /\
  vcs_regex_src = [32; 92; 91; 40; 91; 94; 93; 32; 93; 43; 41; 92; 93]%N /\
  (forall s : str,
     parsed_vcs_from_str_k vcs_sub_from_src vcs_sub_back_src vcs_branch_from_src vcs_find_lit_src s
       = parsed_vcs_from_str s /\
     exists v, parsed_vcs_from_str_k vcs_sub_from_src vcs_sub_back_src vcs_branch_from_src vcs_find_lit_src s = Ok v).
Proof.
  split; [exact (proj1 vcs_sites_src_ok)|]. split; [exact (proj1 (proj2 (proj2 vcs_sites_src_ok)))|].
  intros s. split; [exact (pvcs_bytes_src s)|]. rewrite (pvcs_bytes_src s). apply pvcs_total.
Qed.
Check C02_parsed_vcs_bytes :
  vcs_sites_recognised = true /\
  vcs_regex_src = [32; 92; 91; 40; 91; 94; 93; 32; 93; 43; 41; 92; 93]%N /\
  (forall s : str,
     parsed_vcs_from_str_k vcs_sub_from_src vcs_sub_back_src vcs_branch_from_src vcs_find_lit_src s
       = parsed_vcs_from_str s /\
     exists v, parsed_vcs_from_str_k vcs_sub_from_src vcs_sub_back_src vcs_branch_from_src vcs_find_lit_src s = Ok v).
Print Assumptions C02_parsed_vcs_bytes.

(* Changes::get_pool_path, `source[..1]`: a value exactly when the name starts with a one-byte
   character — the Panic 5 of the char-level model Accessors.changes_get_pool_path (a recorded
   behaviour, not a totality claim: get_pool_path is not a text-parsing entry point) *)
Theorem C02_pool_prefix_bytes :
  pool_sites_recognised = true /\
  forall (lower : N -> N) (source : str),
    res_sim (pool_prefix_k pool_prefix_src lower source)
            (match source with
             | [] => Panic 5%N
             | x :: _ => if (x <? 128)%N then Ok [lower x] else Panic 5%N
             end).
Proof. split; [exact (proj1 (proj2 vcs_sites_src_ok))|exact pool_prefix_bytes_src]. Qed.
Check C02_pool_prefix_bytes :
  pool_sites_recognised = true /\
  forall (lower : N -> N) (source : str),
    res_sim (pool_prefix_k pool_prefix_src lower source)
            (match source with
             | [] => Panic 5%N
             | x :: _ => if (x <? 128)%N then Ok [lower x] else Panic 5%N
             end).
Print Assumptions C02_pool_prefix_bytes.

(* There is no other byte-range slicing expression (x[a..b], split_at, get_unchecked,
   from_utf8_unchecked) in the library code of the five crates: the translator's scan of the
   current source finds exactly the sites transcribed above (lex.rs 7, vcs.rs 5, changes.rs 1).
   Every other reader works through chars(), lines(), split*, trim*, strip_prefix/suffix, find +
   the sites above: std functions that return character boundaries. *)
Theorem C02_slice_sites_complete : slice_sites_complete = true.
Proof. exact slice_sites_complete_ok. Qed.
Check C02_slice_sites_complete : slice_sites_complete = true.
Print Assumptions C02_slice_sites_complete.

(* Non-vacuity: 2-, 3- and 4-byte characters (U+00E9, U+20AC, U+1F600) in every position class —
   column 0, right after a key, in a value, after an indent (space and tab), right after the
   colon, in a comment, at end of input: 31 characters, 64 bytes, 20 tokens; the pre-fix lexer
   panics on the same input; ParsedVcs with a multi-byte URL, branch and subpath. *)
Definition C02_bytes_ex : str :=
  [233; 8364; 128512; 10;  65; 233; 8364; 128512; 58; 32; 120; 233; 8364; 128512; 10;
   32; 233; 8364; 128512; 10;  9; 128512; 10;  66; 58; 8364; 10;  35; 233; 10;  128512]%N.
Example C02_bytes_ex_lex :
  exists ts, bytelex C02_bytes_ex = Ok ts /\ Deb822Lex.lex C02_bytes_ex = Ok ts /\
    map (fun t => Deb822Lex.kind_code (fst t)) ts = [7; 7; 7; 4; 0; 1; 4; 3; 1; 4; 3; 1; 4; 0; 2; 1; 4; 6; 4; 7]%N /\
    length C02_bytes_ex = 31 /\ len_b C02_bytes_ex = 64 /\
    bytelex_prefix C02_bytes_ex = Panic site_not_boundary.
Proof. vm_compute. eexists. repeat split. Qed.
Example C02_bytes_ex_vcs :      (* "é -b € [😀]" *)
  parsed_vcs_from_str_b [233; 32; 45; 98; 32; 8364; 32; 91; 128512; 93]%N =
    Ok {| repo_url := [233%N]; branch := Some [8364%N]; subpath := Some [128512%N] |} /\
  parsed_vcs_from_str_k 3 1 4 lit_dash_b [117; 32; 91; 233; 93]%N = Panic site_not_boundary.
Proof. split; reflexivity. Qed.
