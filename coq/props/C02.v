(* C02 — every text-parsing entry point is total: a value or an error for every input; no
   panic site is reached and every loop terminates within its fuel (the models make both
   explicit: res = Ok | Err | Panic | OutOfFuel).  This file collects the totality theorems of
   the cones; each is a statement over ALL strings.  What is NOT proved here: wall-clock time,
   the real stack and the allocator — the harness measures them (streams totality and
   totality-scale).  The external field parsers (url, chrono, debversion, ...) are parameters of
   the typed-document models: any function from text to an optional value. *)
From V.model Require Import Base Deb822Lex Deb822Parse Lossy RelLex RelParse Pgp EnumTab Codecs Vcs.
From V.gen Require Import Enums_gen.
From V.proofs Require Import Deb822LexP Deb822ParseP LossyP RelLexP RelParseP PgpP EnumTabP VcsP.
From V.model Require RelLossy.
From V.proofs Require RelLossyP.
From V.model Require TypedDocs.
From V.proofs Require TypedSpecP.
From V.props Require C20.

(* deb822, lossless: Deb822::{from_str, from_str_relaxed, read, read_relaxed}, Paragraph::from_str.
   Also: at most 3 errors per character (memory), nesting depth at most 4 (stack). *)
Theorem C02_deb822_lossless : forall s : str,
  (exists t n, from_str_relaxed s = Ok (t, n) /\ n <= 3 * length s /\ depth t <= 4) /\
  ((exists t, from_str s = Ok t) \/ from_str s = Err 1%N) /\
  ((exists p, paragraph_from_str s = Ok p) \/ (exists e, paragraph_from_str s = Err e)).
Proof.
  intros s. destruct (parse_total s) as (t & n & E & B).
  assert (D : depth t <= 4) by (eapply parse_depth; exact E).
  split; [exists t, n; split; [exact E|split; assumption]|].
  unfold paragraph_from_str, from_str. rewrite E. destruct n.
  - split; [left; eexists; reflexivity|]. destruct (paragraphs t); [right|left]; eexists; reflexivity.
  - split; [right; reflexivity|right; eexists; reflexivity].
Qed.
Check C02_deb822_lossless : forall s : str,
  (exists t n, from_str_relaxed s = Ok (t, n) /\ n <= 3 * length s /\ depth t <= 4) /\
  ((exists t, from_str s = Ok t) \/ from_str s = Err 1%N) /\
  ((exists p, paragraph_from_str s = Ok p) \/ (exists e, paragraph_from_str s = Err e)).
Print Assumptions C02_deb822_lossless.

(* deb822, lossy: lossy::{Deb822, Paragraph}::from_str *)
Theorem C02_deb822_lossy : forall s : str,
  ((exists d, lossy_from_str s = Ok d) \/ (exists e, lossy_from_str s = Err e)) /\
  ((exists p, lossy_paragraph_from_str s = Ok p) \/ (exists e, lossy_paragraph_from_str s = Err e)).
Proof. intros s. split; [apply lossy_total|apply lossy_paragraph_total]. Qed.
Check C02_deb822_lossy : forall s : str,
  ((exists d, lossy_from_str s = Ok d) \/ (exists e, lossy_from_str s = Err e)) /\
  ((exists p, lossy_paragraph_from_str s = Ok p) \/ (exists e, lossy_paragraph_from_str s = Err e)).
Print Assumptions C02_deb822_lossy.

(* relationship fields, lossless: Relations::{from_str, parse_relaxed(_, true|false)},
   Entry::from_str, Relation::from_str *)
Theorem C02_relations_lossless : forall s : str,
  (forall allow, exists t n, parse_relaxed s allow = Ok (t, n)) /\
  ((exists t, relations_from_str s = Ok t) \/ relations_from_str s = Err 1%N) /\
  ((exists e, entry_from_str s = Ok e) \/ (exists c, entry_from_str s = Err c)) /\
  ((exists r, relation_from_str s = Ok r) \/ (exists c, relation_from_str s = Err c)).
Proof.
  intros s.
  assert (A : forall allow, exists t n, parse_relaxed s allow = Ok (t, n)).
  { intros a. destruct (rparse_total s a) as (t & n & E & _). exists t, n. exact E. }
  split; [exact A|].
  destruct (A false) as (t & n & E). unfold parse_relaxed in E.
  assert (B : (exists t, relations_from_str s = Ok t) \/ relations_from_str s = Err 1%N).
  { unfold relations_from_str. rewrite E. destruct n; [left; eexists; reflexivity|right; reflexivity]. }
  split; [exact B|].
  assert (C : (exists e, entry_from_str s = Ok e) \/ (exists c, entry_from_str s = Err c)).
  { unfold entry_from_str. destruct B as [[t' ->]| ->]; [|right; eexists; reflexivity].
    destruct (r_entries t') as [|e1 [|e2 l]]; [right|left|right]; eexists; reflexivity. }
  split; [exact C|].
  unfold relation_from_str. destruct C as [[e ->]|[c ->]]; [|right; eexists; reflexivity].
  destruct (r_relations e) as [|r1 [|r2 l]]; [right|left|right]; eexists; reflexivity.
Qed.
Check C02_relations_lossless : forall s : str,
  (forall allow, exists t n, parse_relaxed s allow = Ok (t, n)) /\
  ((exists t, relations_from_str s = Ok t) \/ relations_from_str s = Err 1%N) /\
  ((exists e, entry_from_str s = Ok e) \/ (exists c, entry_from_str s = Err c)) /\
  ((exists r, relation_from_str s = Ok r) \/ (exists c, relation_from_str s = Err c)).
Print Assumptions C02_relations_lossless.

(* ... and their trees nest at most 5 deep (ROOT > ENTRY > RELATION > VERSION > CONSTRAINT/ERROR) *)
Theorem C02_relations_depth : forall s allow t n, parse_relaxed s allow = Ok (t, n) -> depth t <= 5.
Proof. exact rparse_depth. Qed.
Check C02_relations_depth : forall s allow t n, parse_relaxed s allow = Ok (t, n) -> depth t <= 5.
Print Assumptions C02_relations_depth.

(* PGP unwrapping *)
Theorem C02_pgp : forall s : str,
  (exists p o, strip_pgp_signature s = Ok (p, o)) \/ (exists e, strip_pgp_signature s = Err e).
Proof.
  intros s. destruct (strip_total s) as [H|[H|[H|[H|H]]]]; [left; exact H| | | |]; right; eexists; exact H.
Qed.
Check C02_pgp : forall s : str,
  (exists p o, strip_pgp_signature s = Ok (p, o)) \/ (exists e, strip_pgp_signature s = Err e).
Print Assumptions C02_pgp.

(* typed field values: the seven enumerations (for the tables regenerated from the sources)
   and ParsedVcs *)
Theorem C02_enums : forall t, In t all_enums ->
  forall s, (exists v, enum_parse t s = Ok v) \/ enum_parse t s = Err 1%N.
Proof.
  intros t Hin. apply enum_parse_total.
  assert (H : forallb enum_ok all_enums = true) by (vm_compute; reflexivity).
  rewrite forallb_forall in H. apply H. exact Hin.
Qed.
Check C02_enums : forall t, In t all_enums ->
  forall s, (exists v, enum_parse t s = Ok v) \/ enum_parse t s = Err 1%N.
Print Assumptions C02_enums.

Theorem C02_parsed_vcs : forall s, exists v, parsed_vcs_from_str s = Ok v.
Proof. exact pvcs_total. Qed.
Check C02_parsed_vcs : forall s, exists v, parsed_vcs_from_str s = Ok v.
Print Assumptions C02_parsed_vcs.

(* Non-vacuity: inputs that used to panic or hang (fixed defects) now have outcomes. *)
Example C02_ex :
  (exists t n, from_str_relaxed [233; 58; 32; 120; 10]%N = Ok (t, n)) /\          (* "é: x\n" *)
  (exists d, lossy_from_str [65; 58; 32; 98; 10; 32; 99]%N = Ok d) /\             (* "A: b\n c" *)
  (exists t n, parse_relaxed [36; 123]%N true = Ok (t, n)) /\                     (* "${" *)
  (exists t n, parse_relaxed [97; 32; 91]%N false = Ok (t, n)).                   (* "a [" *)
Proof. repeat split; vm_compute; do 2 eexists; reflexivity || (eexists; reflexivity). Qed.

(* relationship fields, lossy: lossy::{Relation, Relations}::from_str, whatever the version parser
   (debversion is a parameter of the model: any function from text to an optional version). *)
Theorem C02_relations_lossy : forall (V : Type) (vparse : str -> option V) (s : str),
  ((exists r, RelLossy.relation_from_str vparse s = Ok r) \/ (exists e, RelLossy.relation_from_str vparse s = Err e)) /\
  ((exists rs, RelLossy.relations_from_str vparse s = Ok rs) \/ (exists e, RelLossy.relations_from_str vparse s = Err e)).
Proof.
  intros V vparse s. split; apply RelLossyP.fine_cases; [apply RelLossyP.relation_from_str_fine|apply RelLossyP.relations_from_str_fine].
Qed.
Check C02_relations_lossy : forall (V : Type) (vparse : str -> option V) (s : str),
  ((exists r, RelLossy.relation_from_str vparse s = Ok r) \/ (exists e, RelLossy.relation_from_str vparse s = Err e)) /\
  ((exists rs, RelLossy.relations_from_str vparse s = Ok rs) \/ (exists e, RelLossy.relations_from_str vparse s = Err e)).
Print Assumptions C02_relations_lossy.

(* typed documents through the derive macro: lossy Control, copyright, apt Release/Source/Package,
   removal records, buildinfo, DEP-3 headers, APT sources — a value or an error for every text,
   whatever the external field parsers return (C20's cone). *)
Theorem C02_typed_documents : forall E ext_parse s,
  TypedSpecP.tvalue (TypedDocs.parse_control E ext_parse s) /\ TypedSpecP.tvalue (TypedDocs.parse_copyright E ext_parse s) /\
  TypedSpecP.tvalue (TypedDocs.parse_release E ext_parse s) /\ TypedSpecP.tvalue (TypedDocs.parse_apt_source E ext_parse s) /\
  TypedSpecP.tvalue (TypedDocs.parse_apt_package E ext_parse s) /\
  TypedSpecP.tvalue (TypedDocs.parse_removal E ext_parse s) /\ TypedSpecP.tvalue (TypedDocs.parse_buildinfo E ext_parse s) /\
  TypedSpecP.tvalue (TypedDocs.parse_dep3 E ext_parse s) /\ TypedSpecP.tvalue (TypedDocs.parse_repositories E ext_parse s).
Proof. exact C20.doc_total. Qed.
Check C02_typed_documents : forall E ext_parse s,
  TypedSpecP.tvalue (TypedDocs.parse_control E ext_parse s) /\ TypedSpecP.tvalue (TypedDocs.parse_copyright E ext_parse s) /\
  TypedSpecP.tvalue (TypedDocs.parse_release E ext_parse s) /\ TypedSpecP.tvalue (TypedDocs.parse_apt_source E ext_parse s) /\
  TypedSpecP.tvalue (TypedDocs.parse_apt_package E ext_parse s) /\
  TypedSpecP.tvalue (TypedDocs.parse_removal E ext_parse s) /\ TypedSpecP.tvalue (TypedDocs.parse_buildinfo E ext_parse s) /\
  TypedSpecP.tvalue (TypedDocs.parse_dep3 E ext_parse s) /\ TypedSpecP.tvalue (TypedDocs.parse_repositories E ext_parse s).
Print Assumptions C02_typed_documents.
