(* C20 - typed lossy documents are stable under print/reparse and match the lossless view.
   Statements only; proofs in proofs/TypedCodecP.v (per-codec stability law, struct level),
   proofs/TypedCanonP.v (every value the strict lossless reader hands out is canonical),
   proofs/TypedDocsP.v (assembly, stability), proofs/TypedSpecP.v (acceptance, rejection, totality,
   the lossy view of a well-formed document).  Model: model/TypedDocs.v on top of model/Derive.v
   (C16), Deb822Parse.v (C01/C03), Lossy.v / LossySpec.v (C06/C08).

   Quantifier.  Kinds read through the LOSSLESS deb822 reader (control, copyright, removal,
   buildinfo, DEP-3 header, APT sources list): EVERY text - well-formed or not - the kind's reader
   accepts.  Kinds read through the LOSSY reader (apt Release / Source / Package): every text the
   lossy reader accepts in whose paragraph no field value ends in LF (the last continuation line of
   no field is blank or a comment) - which includes every well-formed document
   (doc_stable_lossy_wf); values with blank or comment lines in the INTERIOR are covered
   (proofs/TypedLossyP.v: lossy_paragraph_lcanon, lossy_reread_l).  No bound on sizes: the proofs
   are inductions over token lists, paragraph lists and field lists.

   A struct value is a list of optional universal values (Derive.v); "equal" is Leibniz equality,
   so the value read back prints identically by congruence: the statements below say
       parse_K s = TOk v -> exists t, print_K v = Some t /\ parse_K t = TOk v' /\ v' = v /\ print_K v' = print_K v.

   External codecs enter through ONE law, [ext_stable_on G ll ids]: a value that codec i (i in ids)
   obtained by parsing a text x of the reader's domain with G i x prints to canonical text
   ([pcanon ll]: canonical for the lossless reader; for the lossy reader also with empty interior
   lines) which, as that reader shows it, parses to the same value.  In the first family of theorems
   (doc_stable_K) the law is a PREMISE for all sixteen codecs, unguarded ([ext_stable]) - and for
   ParsedVcs that premise is false of the code (C20_ext_stable_vcs_refuted).  In the second family
   (doc_stable_K_x, section "the workspace's own codecs") the twelve codecs that are plain code of
   the workspace are COMPUTED by their models and the law is a theorem (x_stable), with three guards
   that are known classes; the only premise left is [ext0_ok]: the law for debversion::Version (1),
   url::Url (2), lossy Relations (3, a subject of C14) and chrono::NaiveDate (15), validated on every
   run by the typed-doc stream against the real functions.

   Known classes (known_findings.jsonl), each with a witness that it is necessary:
     c20-files-hash-word        copyright: a Files / Files-Excluded item after the first starts with '#'
                                 ([Known_files_hash_word]; the printer puts one item per line and an
                                 indented '#' line is a comment)                    C20_files_hash_word_needed
     c20-lossy-blank-last-line  apt Release/Source/Package: a field value ends in LF because its last
                                 continuation line is blank or a comment
                                 ([Known_lossy_blank_last]; nothing wider)          C20_lossy_blank_line_needed
     c20-dep3-empty-header      DEP-3: none of the struct's fields (nor From / Subject) present: the
                                 value prints to the empty text ([Known_dep3_empty])   C20_dep3_empty_needed
     c20-lossy-empty-first-line apt Release/Source/Package: a field whose first line is empty: the
                                 lossy reader's value starts with LF, the lossless view does not
                                 (field-wise clause only)                             C20_lossy_empty_first_line_needed
     c20-env-trailing-newline   buildinfo: serialize_env ends every entry with LF, so the codec's
                                 printed text is not canonical: the ext_stable premise is FALSE of
                                 the shipped function for a one-entry map (proposed fix)   C20_env_shipped_refuted
     c20-hash-order             HashMap / HashSet fields print in an order that differs between two
                                 instances of an equal value: printing is not a function of the
                                 value, which the model presupposes (proposed fix; stream only)
     c20-vcs-second-group, c20-env-hash-line, c20-signature-hash-block: the three guards of the computed
                                 codecs, see the section "the workspace's own codecs" below
     c20-debversion-i32-digit-run  `==` on an apt Source / Package value panics for a Version with a digit
                                 run beyond i32 (debversion; outside the model: stream only) *)
From Coq Require Import ZArith.
From V.model Require Import Base Deb822Lex Deb822Parse Grammar Lossy LossySpec Derive TypedDocs.
From V.gen Require Import Structs_gen.
From V.model Require Import Codecs.
From V.model Require Import TypedExt.
From V.proofs Require Import GrammarAccP LossyP LossyRtP DeriveP TypedCodecP TypedCanonP TypedLossyP TypedDocsP TypedSpecP TypedClosedP TypedExtP.

(* ------------------------------------------------------------------ the known classes *)
Definition Known_files_hash_word (s : str) : Prop :=
  exists t, from_str s = Ok t /\ forallb para_hash_free (paragraphs t) = false.
Definition Known_lossy_blank_last (s : str) : Prop :=
  exists p, lossy_paragraph_from_str s = Ok p /\ existsb (fun kv => ends_lf (snd kv)) p = true.
Definition Known_dep3_empty {E : Type} (v : list (option (uval E))) : Prop := present_keys E fs_dep3 v = [].

(* the shape every stability statement has (proofs/TypedSpecP.v):
     stable parse print v := exists t v', print v = Some t /\ parse t = TOk v' /\ v' = v /\ print v' = print v *)

(* THE FULL STATEMENT of the stability clause: every kind, every text, no class excluded.  It is
   FALSE of the code as it is (C20_full_refuted); what is proved is the same statement outside the
   known classes (the doc_stable theorems below). *)
Definition C20_full : Prop :=
  forall (E : Type) (ext_print : N -> E -> str) (ext_parse : N -> str -> option E),
  (forall ll ids, ext_stable E ext_print ext_parse ll ids) ->
  (forall s c, parse_control E ext_parse s = TOk c -> stable (parse_control E ext_parse) (print_control E ext_print) c) /\
  (forall s c, parse_copyright E ext_parse s = TOk c -> stable (parse_copyright E ext_parse) (print_copyright E ext_print) c) /\
  (forall s v, parse_release E ext_parse s = TOk v -> stable (parse_release E ext_parse) (print_release E ext_print) v) /\
  (forall s v, parse_apt_source E ext_parse s = TOk v -> stable (parse_apt_source E ext_parse) (print_apt_source E ext_print) v) /\
  (forall s v, parse_apt_package E ext_parse s = TOk v -> stable (parse_apt_package E ext_parse) (print_apt_package E ext_print) v) /\
  (forall s v, parse_removal E ext_parse s = TOk v -> stable (parse_removal E ext_parse) (print_removal E ext_print) v) /\
  (forall s v, parse_buildinfo E ext_parse s = TOk v -> stable (parse_buildinfo E ext_parse) (print_buildinfo E ext_print) v) /\
  (forall s v, parse_dep3 E ext_parse s = TOk v -> stable (parse_dep3 E ext_parse) (print_dep3 E ext_print) v) /\
  (forall s v, parse_repositories E ext_parse s = TOk v -> stable (parse_repositories E ext_parse) (print_repositories E ext_print) v).


(* ================================================================== 0. the generated tables *)
(* every struct: distinct valid keys, every codec pair stable (or the guarded Files pair); the
   roles are told apart by keys the other role cannot print; closed by computation on the tables
   regenerated from the Rust sources *)
Theorem C20_tables : assembly_tables_ok = true.
Proof. exact tables_ok. Qed.
Check C20_tables : assembly_tables_ok = true.
Print Assumptions C20_tables.

(* ================================================================== (i) values handed out by the strict lossless reader *)
Theorem C20_values_canonical : forall s t p k x,
  from_str s = Ok t -> In p (paragraphs t) -> get p k = Some x -> ll_dom x = true.
Proof. exact strict_parse_get_dom. Qed.
Check C20_values_canonical : forall s t p k x,
  from_str s = Ok t -> In p (paragraphs t) -> get p k = Some x -> ll_dom x = true.
Print Assumptions C20_values_canonical.

Theorem C20_names_values_canonical : forall s t, from_str s = Ok t ->
  Forall (fun p => forallb (fun kv => valid_name (fst kv) && ll_dom (snd kv)) (items p) = true) (paragraphs t).
Proof. exact strict_parse_canonical. Qed.
Check C20_names_values_canonical : forall s t, from_str s = Ok t ->
  Forall (fun p => forallb (fun kv => valid_name (fst kv) && ll_dom (snd kv)) (items p) = true) (paragraphs t).
Print Assumptions C20_names_values_canonical.

(* ================================================================== (ii) what the readers show for a printed canonical document *)
Theorem C20_reread_lossless : forall d, canon_doc d = true ->
  exists t, from_str (print_doc d) = Ok t /\
            map items (paragraphs t) = map (map (fun kv => (fst kv, ll_norm (snd kv)))) d.
Proof. exact ll_reread. Qed.
Check C20_reread_lossless : forall d, canon_doc d = true ->
  exists t, from_str (print_doc d) = Ok t /\
            map items (paragraphs t) = map (map (fun kv => (fst kv, ll_norm (snd kv)))) d.
Print Assumptions C20_reread_lossless.

Theorem C20_reread_lossy : forall p, canon_para p = true -> lossy_paragraph_from_str (print_para p) = Ok p.
Proof. exact lossy_reread. Qed.
Check C20_reread_lossy : forall p, canon_para p = true -> lossy_paragraph_from_str (print_para p) = Ok p.
Print Assumptions C20_reread_lossy.

(* the same for the wider class the lossy reader itself produces: continuation lines may be empty,
   the last one not; and every paragraph the lossy reader returns is of that class unless a value
   ends in LF *)
Theorem C20_reread_lossy_l : forall p, lcanon_para p = true -> lossy_paragraph_from_str (print_para p) = Ok p.
Proof. exact lossy_reread_l. Qed.
Check C20_reread_lossy_l : forall p, lcanon_para p = true -> lossy_paragraph_from_str (print_para p) = Ok p.
Print Assumptions C20_reread_lossy_l.

Theorem C20_lossy_values_lcanon : forall s p, lossy_paragraph_from_str s = Ok p ->
  existsb (fun kv => ends_lf (snd kv)) p = false -> lcanon_para p = true.
Proof. exact lossy_paragraph_lcanon. Qed.
Check C20_lossy_values_lcanon : forall s p, lossy_paragraph_from_str s = Ok p ->
  existsb (fun kv => ends_lf (snd kv)) p = false -> lcanon_para p = true.
Print Assumptions C20_lossy_values_lcanon.

(* ================================================================== (iii) the stability law, per codec pair and per struct *)
Theorem C20_codec_stable : forall E ext_print ext_parse G ll ids s d x u,
  ext_stable_on E ext_print ext_parse G ll ids -> (forall i, d = DExt i -> In i ids /\ G i x = true) -> stable_pair s d = true ->
  dom ll x -> de E ext_parse d x = Some u ->
  exists y, ser E ext_print s u = Some y /\ pcanon ll y = true /\ de E ext_parse d (rr ll y) = Some u.
Proof. exact stable_field. Qed.
Check C20_codec_stable : forall E ext_print ext_parse G ll ids s d x u,
  ext_stable_on E ext_print ext_parse G ll ids -> (forall i, d = DExt i -> In i ids /\ G i x = true) -> stable_pair s d = true ->
  dom ll x -> de E ext_parse d x = Some u ->
  exists y, ser E ext_print s u = Some y /\ pcanon ll y = true /\ de E ext_parse d (rr ll y) = Some u.
Print Assumptions C20_codec_stable.

(* the white-space separated list printed one item per line (copyright Files, Files-Excluded) *)
Theorem C20_codec_hash_guarded : forall E ext_print ext_parse ll s d x u,
  hash_pair s d = true -> hash_word_free x = true -> de E ext_parse d x = Some u ->
  exists y, ser E ext_print s u = Some y /\ pcanon ll y = true /\ de E ext_parse d (rr ll y) = Some u.
Proof. exact hash_field. Qed.
Check C20_codec_hash_guarded : forall E ext_print ext_parse ll s d x u,
  hash_pair s d = true -> hash_word_free x = true -> de E ext_parse d x = Some u ->
  exists y, ser E ext_print s u = Some y /\ pcanon ll y = true /\ de E ext_parse d (rr ll y) = Some u.
Print Assumptions C20_codec_hash_guarded.

(* any struct (any field list with ok_struct_stable), any getter whose values are in the reader's
   domain: the value read prints to canonical items and reads back from them *)
Theorem C20_struct_stable : forall E ext_print ext_parse G ll fs get v,
  ok_struct_stable fs = true -> ext_stable_on E ext_print ext_parse G ll (ext_ids fs) -> ext_guard G fs get = true -> hash_guard fs get = true ->
  (forall k x, get k = Some x -> dom ll x) ->
  from_fields E ext_parse get fs = DOk v ->
  to_items E ext_print fs v = Some (present_items E ext_print fs v) /\
  forallb (pfield ll) (present_items E ext_print fs v) = true /\
  map fst (present_items E ext_print fs v) = present_keys E fs v /\
  from_fields E ext_parse (fun k => option_map (rr ll) (l_get (present_items E ext_print fs v) k)) fs = DOk v.
Proof. exact read_value_good. Qed.
Check C20_struct_stable : forall E ext_print ext_parse G ll fs get v,
  ok_struct_stable fs = true -> ext_stable_on E ext_print ext_parse G ll (ext_ids fs) -> ext_guard G fs get = true -> hash_guard fs get = true ->
  (forall k x, get k = Some x -> dom ll x) ->
  from_fields E ext_parse get fs = DOk v ->
  to_items E ext_print fs v = Some (present_items E ext_print fs v) /\
  forallb (pfield ll) (present_items E ext_print fs v) = true /\
  map fst (present_items E ext_print fs v) = present_keys E fs v /\
  from_fields E ext_parse (fun k => option_map (rr ll) (l_get (present_items E ext_print fs v) k)) fs = DOk v.
Print Assumptions C20_struct_stable.

(* ================================================================== (iv) + stability, per kind *)
Section Kinds.
Variable E : Type.
Variable ext_print : N -> E -> str.
Variable ext_parse : N -> str -> option E.
Notation ES := (ext_stable E ext_print ext_parse).

(* control: all texts *)
Theorem doc_stable_control : forall s c,
  ES true (ext_ids fs_control_source) -> ES true (ext_ids fs_control_binary) ->
  parse_control E ext_parse s = TOk c -> stable (parse_control E ext_parse) (print_control E ext_print) c.
Proof. intros s c H1 H2 H. apply stable_intro. apply (control_stable E ext_print ext_parse (fun _ _ => true) s c H1 H2); [|exact H]. intros t _. apply forallb_all, control_guard_true. Qed.

(* copyright: all texts outside the '#'-item class *)
Theorem doc_stable_copyright : forall s c,
  ES true (ext_ids fs_header) -> ES true (ext_ids fs_files) -> ES true (ext_ids fs_license) ->
  ~ Known_files_hash_word s ->
  parse_copyright E ext_parse s = TOk c -> stable (parse_copyright E ext_parse) (print_copyright E ext_print) c.
Proof.
  intros s c H1 H2 H3 Hk H. apply stable_intro. apply (copyright_stable E ext_print ext_parse (fun _ _ => true) s c H1 H2 H3); [| |exact H].
  - intros t Ht. destruct (forallb para_hash_free (paragraphs t)) eqn:Eh; [reflexivity|]. exfalso. apply Hk. exists t. auto.
  - intros t _. split; [apply ext_guard_true|apply forallb_all, copyright_guard_true].
Qed.

(* removal, buildinfo: all texts *)
Theorem doc_stable_removal : forall s v, ES true (ext_ids fs_removal) ->
  parse_removal E ext_parse s = TOk v -> stable (parse_removal E ext_parse) (print_removal E ext_print) v.
Proof. intros s v H1 H. apply stable_intro. apply (ll1_stable E ext_print ext_parse (fun _ _ => true) fs_removal s v ok_removal nh_removal hm_removal H1); [|exact H]. intros t _. apply ext_guard_true. Qed.
Theorem doc_stable_buildinfo : forall s v, ES true (ext_ids fs_buildinfo) ->
  parse_buildinfo E ext_parse s = TOk v -> stable (parse_buildinfo E ext_parse) (print_buildinfo E ext_print) v.
Proof. intros s v H1 H. apply stable_intro. apply (ll1_stable E ext_print ext_parse (fun _ _ => true) fs_buildinfo s v ok_buildinfo nh_buildinfo hm_buildinfo H1); [|exact H]. intros t _. apply ext_guard_true. Qed.

(* DEP-3 header: all texts whose value has at least one field; the From / Subject fallbacks come back
   under Author / Description *)
Theorem doc_stable_dep3 : forall s v, ES true (ext_ids fs_dep3) ->
  parse_dep3 E ext_parse s = TOk v -> ~ Known_dep3_empty v ->
  stable (parse_dep3 E ext_parse) (print_dep3 E ext_print) v.
Proof. intros s v H1 H Hk. apply stable_intro. apply (dep3_stable E ext_print ext_parse (fun _ _ => true) s v H1); [|exact H|exact Hk]. intros t _. apply ext_guard_true. Qed.

(* APT sources list: all texts (the empty list prints to the empty text, which reads as the empty list) *)
Theorem doc_stable_repositories : forall s rs, ES true (ext_ids fs_repository) ->
  parse_repositories E ext_parse s = TOk rs -> stable (parse_repositories E ext_parse) (print_repositories E ext_print) rs.
Proof. intros s rs H1 H. apply stable_intro. apply (repositories_stable E ext_print ext_parse (fun _ _ => true) s rs H1); [|exact H]. intros t _. apply forallb_all. intros p. apply ext_guard_true. Qed.

(* apt Release / Source / Package: all texts in whose lossy paragraph no value ends in LF *)
Theorem doc_stable_release : forall s v, ES false (ext_ids fs_release) -> ~ Known_lossy_blank_last s ->
  parse_release E ext_parse s = TOk v -> stable (parse_release E ext_parse) (print_release E ext_print) v.
Proof.
  intros s v H1 Hk H. apply stable_intro. destruct (lossy1_sound _ _ _ _ _ H) as (p & Hp & _).
  apply (lossy1_stable E ext_print ext_parse (fun _ _ => true) fs_release s p v ok_release nh_release hm_release H1 Hp); [|apply ext_guard_true|exact H].
  apply (lossy_paragraph_lcanon s p Hp). destruct (existsb (fun kv => ends_lf (snd kv)) p) eqn:Ec; [|reflexivity]. exfalso. apply Hk. exists p. auto.
Qed.
Theorem doc_stable_apt_source : forall s v, ES false (ext_ids fs_apt_source) -> ~ Known_lossy_blank_last s ->
  parse_apt_source E ext_parse s = TOk v -> stable (parse_apt_source E ext_parse) (print_apt_source E ext_print) v.
Proof.
  intros s v H1 Hk H. apply stable_intro. destruct (lossy1_sound _ _ _ _ _ H) as (p & Hp & _).
  apply (lossy1_stable E ext_print ext_parse (fun _ _ => true) fs_apt_source s p v ok_apt_source nh_apt_source hm_apt_source H1 Hp); [|apply ext_guard_true|exact H].
  apply (lossy_paragraph_lcanon s p Hp). destruct (existsb (fun kv => ends_lf (snd kv)) p) eqn:Ec; [|reflexivity]. exfalso. apply Hk. exists p. auto.
Qed.
Theorem doc_stable_apt_package : forall s v, ES false (ext_ids fs_apt_package) -> ~ Known_lossy_blank_last s ->
  parse_apt_package E ext_parse s = TOk v -> stable (parse_apt_package E ext_parse) (print_apt_package E ext_print) v.
Proof.
  intros s v H1 Hk H. apply stable_intro. destruct (lossy1_sound _ _ _ _ _ H) as (p & Hp & _).
  apply (lossy1_stable E ext_print ext_parse (fun _ _ => true) fs_apt_package s p v ok_apt_package nh_apt_package hm_apt_package H1 Hp); [|apply ext_guard_true|exact H].
  apply (lossy_paragraph_lcanon s p Hp). destruct (existsb (fun kv => ends_lf (snd kv)) p) eqn:Ec; [|reflexivity]. exfalso. apply Hk. exists p. auto.
Qed.

(* every well-formed document is outside the class: the property's quantifier is covered *)
Theorem doc_stable_lossy_wf : forall d, wf_doc d = true -> ~ Known_lossy_blank_last (render d).
Proof.
  intros d Hwf (p & Hp & Hc). unfold lossy_paragraph_from_str in Hp. rewrite (lossy_render _ Hwf) in Hp.
  pose proof (wf_lossy_content_canon _ Hwf) as Hcd. destruct (lossy_content d) as [|q [|q2 r]]; try discriminate.
  injection Hp as <-. cbn in Hcd. rewrite andb_true_r in Hcd. rewrite (canon_para_no_blank_last _ Hcd) in Hc. discriminate.
Qed.

(* ================================================================== field by field, roles *)
(* an accepted control file: exactly one paragraph with Source and without Package, read as the
   source; the paragraphs with Package, in order, read as the binaries; nothing else; every struct
   field is the deserialiser's image of what Paragraph::get shows for its key (field_reads_as) *)
Theorem doc_fields_control : forall s c, parse_control E ext_parse s = TOk c ->
  exists t, from_str s = Ok t /\
    (exists sp, filter is_source (paragraphs t) = [sp] /\ Forall2 (field_reads_as E ext_parse (get sp)) fs_control_source (c_source c)) /\
    Forall2 (fun p b => Forall2 (field_reads_as E ext_parse (get p)) fs_control_binary b) (filter is_binary (paragraphs t)) (c_binaries c) /\
    forallb (fun p => is_binary p || is_source p) (paragraphs t) = true.
Proof.
  intros s c H. destruct (control_sound _ _ _ _ H) as (t & Ht & (sp & Hs1 & Hs2) & Hb & Hall). exists t. split; [exact Ht|].
  split; [exists sp; split; [exact Hs1|apply from_ll_reads; exact Hs2]|]. split; [|exact Hall].
  clear -Hb. induction Hb; constructor; [apply from_ll_reads; assumption|assumption].
Qed.

Theorem doc_fields_copyright : forall s c, parse_copyright E ext_parse s = TOk c ->
  starts_with s s_Format_colon = true /\
  exists t first rest, from_str s = Ok t /\ paragraphs t = first :: rest /\
    Forall2 (field_reads_as E ext_parse (get first)) fs_header (cr_header c) /\
    Forall2 (fun p f => Forall2 (field_reads_as E ext_parse (get p)) fs_files f) (filter is_files rest) (cr_files c) /\
    Forall2 (fun p l => Forall2 (field_reads_as E ext_parse (get p)) fs_license l) (filter is_license rest) (cr_licenses c) /\
    forallb (fun p => is_files p || is_license p) rest = true.
Proof.
  intros s c H. destruct (copyright_sound _ _ _ _ H) as (t & Ht & Hg & first & rest & Hps & Hh & HF & HL & Hall).
  split; [exact Hg|]. exists t, first, rest. split; [exact Ht|]. split; [exact Hps|]. split; [apply from_ll_reads; exact Hh|].
  split; [clear -HF; induction HF; constructor; [apply from_ll_reads; assumption|assumption]|].
  split; [clear -HL; induction HL; constructor; [apply from_ll_reads; assumption|assumption]|exact Hall].
Qed.

(* removal, buildinfo: the first paragraph of the document *)
Theorem doc_fields_ll1 : forall fs s v, parse_ll1 E ext_parse fs s = TOk v ->
  exists t p r, from_str s = Ok t /\ paragraphs t = p :: r /\ Forall2 (field_reads_as E ext_parse (get p)) fs v.
Proof. intros fs s v H. destruct (ll1_sound _ _ _ _ _ H) as (t & p & r & H1 & H2 & H3). exists t, p, r. split; [exact H1|]. split; [exact H2|apply from_ll_reads; exact H3]. Qed.

Theorem doc_fields_dep3 : forall s v, parse_dep3 E ext_parse s = TOk v ->
  exists t p r h, from_str s = Ok t /\ paragraphs t = p :: r /\ Forall2 (field_reads_as E ext_parse (get p)) fs_dep3 h /\
    v = fallback E fs_dep3 (fallback E fs_dep3 h k_Author (get p k_From)) k_Description (get p k_Subject).
Proof. intros s v H. destruct (dep3_sound _ _ _ _ H) as (t & p & r & h & H1 & H2 & H3 & H4). exists t, p, r, h. split; [exact H1|]. split; [exact H2|]. split; [apply from_ll_reads; exact H3|exact H4]. Qed.

Theorem doc_fields_repositories : forall s rs, parse_repositories E ext_parse s = TOk rs ->
  exists t, from_str s = Ok t /\ Forall2 (fun p v => Forall2 (field_reads_as E ext_parse (get p)) fs_repository v) (paragraphs t) rs.
Proof.
  intros s rs H. destruct (repositories_sound _ _ _ _ H) as (t & Ht & Hall). exists t. split; [exact Ht|].
  clear -Hall. induction Hall; constructor; [apply from_ll_reads; assumption|assumption].
Qed.

(* apt Release / Source / Package on a well-formed document, through C06: the lossy reader's one
   paragraph is lossy_content d; it is the lossless content exactly when no field has an empty
   first line followed by continuation lines, and has the same non-blank lines always *)
Theorem doc_fields_lossy_wf : forall fs d v, wf_doc d = true -> parse_lossy1 E ext_parse fs (render d) = TOk v ->
  exists p t, lossy_content d = [p] /\ Forall2 (field_reads_as E ext_parse (l_get p)) fs v /\
    from_str (render d) = Ok t /\ doc_items t = content d /\ nb_doc [p] = nb_doc (content d) /\
    (doc_first_present d = true -> content d = [p]).
Proof.
  intros fs d v Hwf H. destruct (lossy1_sound _ _ _ _ _ H) as (p & Hp & Hv).
  unfold lossy_paragraph_from_str in Hp. rewrite (lossy_render _ Hwf) in Hp.
  assert (Hlc : lossy_content d = [p]) by (destruct (lossy_content d) as [|q [|q2 r]]; try discriminate; injection Hp as <-; reflexivity).
  destruct (C06_joint d Hwf) as (L & t & H1 & H2 & H3 & H4 & H5). exists p, t. split; [exact Hlc|]. split; [apply from_lossy_reads; exact Hv|].
  split; [exact H2|]. split; [exact H5|]. split; [rewrite <- Hlc, <- H5, <- H4; exact H3|].
  intros Hf. rewrite <- (lossy_content_content _ Hf). exact Hlc.
Qed.

(* ================================================================== rejection and totality *)
Theorem doc_reject_control : forall s t, from_str s = Ok t ->
  (length (filter is_source (paragraphs t)) <> 1 \/
   (exists p, In p (paragraphs t) /\ is_binary p = false /\ is_source p = false) \/
   (exists p k, In p (paragraphs t) /\ is_binary p = true /\ mandatory_key fs_control_binary k = true /\ get p k = None) \/
   (exists p k, In p (paragraphs t) /\ is_source p = true /\ mandatory_key fs_control_source k = true /\ get p k = None)) ->
  exists e, parse_control E ext_parse s = TErr e.
Proof. exact (control_reject E ext_parse). Qed.

Theorem doc_reject_copyright : forall s,
  (starts_with s s_Format_colon = false \/
   exists t, from_str s = Ok t /\
     (paragraphs t = [] \/
      (exists p, In p (tl (paragraphs t)) /\ is_files p = false /\ is_license p = false) \/
      (exists first k, hd_error (paragraphs t) = Some first /\ mandatory_key fs_header k = true /\ get first k = None) \/
      (exists p k, In p (tl (paragraphs t)) /\ is_files p = true /\ mandatory_key fs_files k = true /\ get p k = None) \/
      (exists p k, In p (tl (paragraphs t)) /\ is_license p = true /\ mandatory_key fs_license k = true /\ get p k = None))) ->
  exists e, parse_copyright E ext_parse s = TErr e.
Proof. exact (copyright_reject E ext_parse). Qed.

Theorem doc_reject_ll1 : forall fs s,
  (forall t, from_str s <> Ok t) \/
  (exists t, from_str s = Ok t /\
     (paragraphs t = [] \/ exists p k, hd_error (paragraphs t) = Some p /\ mandatory_key fs k = true /\ get p k = None)) ->
  exists e, parse_ll1 E ext_parse fs s = TErr e.
Proof. exact (ll1_reject E ext_parse). Qed.

Theorem doc_reject_lossy1 : forall fs s,
  (forall p, lossy_paragraph_from_str s <> Ok p) \/
  (exists p k, lossy_paragraph_from_str s = Ok p /\ mandatory_key fs k = true /\ l_get p k = None) ->
  exists e, parse_lossy1 E ext_parse fs s = TErr e.
Proof. exact (lossy1_reject E ext_parse). Qed.

Theorem doc_reject_repositories : forall s,
  (forall t, from_str s <> Ok t) \/
  (exists t p k, from_str s = Ok t /\ In p (paragraphs t) /\ mandatory_key fs_repository k = true /\ get p k = None) ->
  exists e, parse_repositories E ext_parse s = TErr e.
Proof. exact (repositories_reject E ext_parse). Qed.

(* every reader answers with a value or an error - no panic, no loop out of fuel - on every text *)
Theorem doc_total : forall s,
  tvalue (parse_control E ext_parse s) /\ tvalue (parse_copyright E ext_parse s) /\
  tvalue (parse_release E ext_parse s) /\ tvalue (parse_apt_source E ext_parse s) /\ tvalue (parse_apt_package E ext_parse s) /\
  tvalue (parse_removal E ext_parse s) /\ tvalue (parse_buildinfo E ext_parse s) /\
  tvalue (parse_dep3 E ext_parse s) /\ tvalue (parse_repositories E ext_parse s).
Proof.
  intros s. split; [apply control_value|]. split; [apply copyright_value|]. split; [apply lossy1_value|]. split; [apply lossy1_value|].
  split; [apply lossy1_value|]. split; [apply ll1_value|]. split; [apply ll1_value|]. split; [apply dep3_value|apply repositories_value].
Qed.
End Kinds.

Check doc_stable_control : forall E ext_print ext_parse s c,
  ext_stable E ext_print ext_parse true (ext_ids fs_control_source) -> ext_stable E ext_print ext_parse true (ext_ids fs_control_binary) ->
  parse_control E ext_parse s = TOk c -> stable (parse_control E ext_parse) (print_control E ext_print) c.
Print Assumptions doc_stable_control.
Check doc_stable_copyright : forall E ext_print ext_parse s c,
  ext_stable E ext_print ext_parse true (ext_ids fs_header) -> ext_stable E ext_print ext_parse true (ext_ids fs_files) ->
  ext_stable E ext_print ext_parse true (ext_ids fs_license) -> ~ Known_files_hash_word s ->
  parse_copyright E ext_parse s = TOk c -> stable (parse_copyright E ext_parse) (print_copyright E ext_print) c.
Print Assumptions doc_stable_copyright.
Check doc_stable_removal : forall E ext_print ext_parse s v, ext_stable E ext_print ext_parse true (ext_ids fs_removal) ->
  parse_removal E ext_parse s = TOk v -> stable (parse_removal E ext_parse) (print_removal E ext_print) v.
Print Assumptions doc_stable_removal.
Check doc_stable_buildinfo : forall E ext_print ext_parse s v, ext_stable E ext_print ext_parse true (ext_ids fs_buildinfo) ->
  parse_buildinfo E ext_parse s = TOk v -> stable (parse_buildinfo E ext_parse) (print_buildinfo E ext_print) v.
Print Assumptions doc_stable_buildinfo.
Check doc_stable_dep3 : forall E ext_print ext_parse s v, ext_stable E ext_print ext_parse true (ext_ids fs_dep3) ->
  parse_dep3 E ext_parse s = TOk v -> ~ Known_dep3_empty v -> stable (parse_dep3 E ext_parse) (print_dep3 E ext_print) v.
Print Assumptions doc_stable_dep3.
Check doc_stable_repositories : forall E ext_print ext_parse s rs, ext_stable E ext_print ext_parse true (ext_ids fs_repository) ->
  parse_repositories E ext_parse s = TOk rs -> stable (parse_repositories E ext_parse) (print_repositories E ext_print) rs.
Print Assumptions doc_stable_repositories.
Check doc_stable_release : forall E ext_print ext_parse s v, ext_stable E ext_print ext_parse false (ext_ids fs_release) ->
  ~ Known_lossy_blank_last s ->
  parse_release E ext_parse s = TOk v -> stable (parse_release E ext_parse) (print_release E ext_print) v.
Print Assumptions doc_stable_release.
Check doc_stable_apt_source : forall E ext_print ext_parse s v, ext_stable E ext_print ext_parse false (ext_ids fs_apt_source) ->
  ~ Known_lossy_blank_last s ->
  parse_apt_source E ext_parse s = TOk v -> stable (parse_apt_source E ext_parse) (print_apt_source E ext_print) v.
Print Assumptions doc_stable_apt_source.
Check doc_stable_apt_package : forall E ext_print ext_parse s v, ext_stable E ext_print ext_parse false (ext_ids fs_apt_package) ->
  ~ Known_lossy_blank_last s ->
  parse_apt_package E ext_parse s = TOk v -> stable (parse_apt_package E ext_parse) (print_apt_package E ext_print) v.
Print Assumptions doc_stable_apt_package.
Check doc_stable_lossy_wf : forall d, wf_doc d = true -> ~ Known_lossy_blank_last (render d).
Print Assumptions doc_stable_lossy_wf.

Check doc_fields_control : forall E ext_parse s c, parse_control E ext_parse s = TOk c ->
  exists t, from_str s = Ok t /\
    (exists sp, filter is_source (paragraphs t) = [sp] /\ Forall2 (field_reads_as E ext_parse (get sp)) fs_control_source (c_source c)) /\
    Forall2 (fun p b => Forall2 (field_reads_as E ext_parse (get p)) fs_control_binary b) (filter is_binary (paragraphs t)) (c_binaries c) /\
    forallb (fun p => is_binary p || is_source p) (paragraphs t) = true.
Print Assumptions doc_fields_control.
Check doc_fields_copyright : forall E ext_parse s c, parse_copyright E ext_parse s = TOk c ->
  starts_with s s_Format_colon = true /\
  exists t first rest, from_str s = Ok t /\ paragraphs t = first :: rest /\
    Forall2 (field_reads_as E ext_parse (get first)) fs_header (cr_header c) /\
    Forall2 (fun p f => Forall2 (field_reads_as E ext_parse (get p)) fs_files f) (filter is_files rest) (cr_files c) /\
    Forall2 (fun p l => Forall2 (field_reads_as E ext_parse (get p)) fs_license l) (filter is_license rest) (cr_licenses c) /\
    forallb (fun p => is_files p || is_license p) rest = true.
Print Assumptions doc_fields_copyright.
Check doc_fields_ll1 : forall E ext_parse fs s v, parse_ll1 E ext_parse fs s = TOk v ->
  exists t p r, from_str s = Ok t /\ paragraphs t = p :: r /\ Forall2 (field_reads_as E ext_parse (get p)) fs v.
Print Assumptions doc_fields_ll1.
Check doc_fields_dep3 : forall E ext_parse s v, parse_dep3 E ext_parse s = TOk v ->
  exists t p r h, from_str s = Ok t /\ paragraphs t = p :: r /\ Forall2 (field_reads_as E ext_parse (get p)) fs_dep3 h /\
    v = fallback E fs_dep3 (fallback E fs_dep3 h k_Author (get p k_From)) k_Description (get p k_Subject).
Print Assumptions doc_fields_dep3.
Check doc_fields_repositories : forall E ext_parse s rs, parse_repositories E ext_parse s = TOk rs ->
  exists t, from_str s = Ok t /\ Forall2 (fun p v => Forall2 (field_reads_as E ext_parse (get p)) fs_repository v) (paragraphs t) rs.
Print Assumptions doc_fields_repositories.
Check doc_fields_lossy_wf : forall E ext_parse fs d v, wf_doc d = true -> parse_lossy1 E ext_parse fs (render d) = TOk v ->
  exists p t, lossy_content d = [p] /\ Forall2 (field_reads_as E ext_parse (l_get p)) fs v /\
    from_str (render d) = Ok t /\ doc_items t = content d /\ nb_doc [p] = nb_doc (content d) /\
    (doc_first_present d = true -> content d = [p]).
Print Assumptions doc_fields_lossy_wf.

Check doc_reject_control : forall E ext_parse s t, from_str s = Ok t ->
  (length (filter is_source (paragraphs t)) <> 1 \/
   (exists p, In p (paragraphs t) /\ is_binary p = false /\ is_source p = false) \/
   (exists p k, In p (paragraphs t) /\ is_binary p = true /\ mandatory_key fs_control_binary k = true /\ get p k = None) \/
   (exists p k, In p (paragraphs t) /\ is_source p = true /\ mandatory_key fs_control_source k = true /\ get p k = None)) ->
  exists e, parse_control E ext_parse s = TErr e.
Print Assumptions doc_reject_control.
Check doc_reject_copyright : forall E ext_parse s,
  (starts_with s s_Format_colon = false \/
   exists t, from_str s = Ok t /\
     (paragraphs t = [] \/
      (exists p, In p (tl (paragraphs t)) /\ is_files p = false /\ is_license p = false) \/
      (exists first k, hd_error (paragraphs t) = Some first /\ mandatory_key fs_header k = true /\ get first k = None) \/
      (exists p k, In p (tl (paragraphs t)) /\ is_files p = true /\ mandatory_key fs_files k = true /\ get p k = None) \/
      (exists p k, In p (tl (paragraphs t)) /\ is_license p = true /\ mandatory_key fs_license k = true /\ get p k = None))) ->
  exists e, parse_copyright E ext_parse s = TErr e.
Print Assumptions doc_reject_copyright.
Check doc_reject_ll1 : forall E ext_parse fs s,
  (forall t, from_str s <> Ok t) \/
  (exists t, from_str s = Ok t /\
     (paragraphs t = [] \/ exists p k, hd_error (paragraphs t) = Some p /\ mandatory_key fs k = true /\ get p k = None)) ->
  exists e, parse_ll1 E ext_parse fs s = TErr e.
Print Assumptions doc_reject_ll1.
Check doc_reject_lossy1 : forall E ext_parse fs s,
  (forall p, lossy_paragraph_from_str s <> Ok p) \/
  (exists p k, lossy_paragraph_from_str s = Ok p /\ mandatory_key fs k = true /\ l_get p k = None) ->
  exists e, parse_lossy1 E ext_parse fs s = TErr e.
Print Assumptions doc_reject_lossy1.
Check doc_reject_repositories : forall E ext_parse s,
  (forall t, from_str s <> Ok t) \/
  (exists t p k, from_str s = Ok t /\ In p (paragraphs t) /\ mandatory_key fs_repository k = true /\ get p k = None) ->
  exists e, parse_repositories E ext_parse s = TErr e.
Print Assumptions doc_reject_repositories.
Check doc_total : forall E ext_parse s,
  tvalue (parse_control E ext_parse s) /\ tvalue (parse_copyright E ext_parse s) /\
  tvalue (parse_release E ext_parse s) /\ tvalue (parse_apt_source E ext_parse s) /\ tvalue (parse_apt_package E ext_parse s) /\
  tvalue (parse_removal E ext_parse s) /\ tvalue (parse_buildinfo E ext_parse s) /\
  tvalue (parse_dep3 E ext_parse s) /\ tvalue (parse_repositories E ext_parse s).
Print Assumptions doc_total.

(* ================================================================== acceptance, exactly *)
(* accepted  <->  strictly parsed, exactly one source paragraph, every other paragraph a binary, every
   paragraph's struct reads (control); gate, header first, Files / License paragraphs (copyright) *)
Theorem doc_accept_control : forall E ext_parse s c,
  parse_control E ext_parse s = TOk c <-> exists t, from_str s = Ok t /\ control_spec E ext_parse (paragraphs t) c.
Proof.
  intros E pa s c. split; [apply control_sound|]. intros (t & Ht & Hs). eapply control_complete; eassumption.
Qed.
Check doc_accept_control : forall E ext_parse s c,
  parse_control E ext_parse s = TOk c <-> exists t, from_str s = Ok t /\ control_spec E ext_parse (paragraphs t) c.
Print Assumptions doc_accept_control.

Theorem doc_accept_copyright : forall E ext_parse s c,
  parse_copyright E ext_parse s = TOk c <-> exists t, from_str s = Ok t /\ copyright_spec E ext_parse s (paragraphs t) c.
Proof.
  intros E pa s c. split; [apply copyright_sound|]. intros (t & Ht & Hs). eapply copyright_complete; eassumption.
Qed.
Check doc_accept_copyright : forall E ext_parse s c,
  parse_copyright E ext_parse s = TOk c <-> exists t, from_str s = Ok t /\ copyright_spec E ext_parse s (paragraphs t) c.
Print Assumptions doc_accept_copyright.

(* on a well-formed document (C03): the tree is tree_of d, its items are content d - so the roles and
   fields above are read off the document's own content *)
Theorem doc_fields_control_wf : forall E ext_parse d c, wf_doc d = true -> parse_control E ext_parse (render d) = TOk c ->
  from_str (render d) = Ok (tree_of d) /\ doc_items (tree_of d) = content d /\ control_spec E ext_parse (paragraphs (tree_of d)) c.
Proof.
  intros E pa d c Hwf H. destruct (GrammarAccP.C03_accept_all d Hwf) as (Ht & _ & Hi). split; [exact Ht|]. split; [exact Hi|].
  destruct (control_sound _ _ _ _ H) as (t & Ht' & Hs). rewrite Ht in Ht'. injection Ht' as <-. exact Hs.
Qed.
Check doc_fields_control_wf : forall E ext_parse d c, wf_doc d = true -> parse_control E ext_parse (render d) = TOk c ->
  from_str (render d) = Ok (tree_of d) /\ doc_items (tree_of d) = content d /\ control_spec E ext_parse (paragraphs (tree_of d)) c.
Print Assumptions doc_fields_control_wf.

Theorem doc_fields_copyright_wf : forall E ext_parse d c, wf_doc d = true -> parse_copyright E ext_parse (render d) = TOk c ->
  from_str (render d) = Ok (tree_of d) /\ doc_items (tree_of d) = content d /\
  copyright_spec E ext_parse (render d) (paragraphs (tree_of d)) c.
Proof.
  intros E pa d c Hwf H. destruct (GrammarAccP.C03_accept_all d Hwf) as (Ht & _ & Hi). split; [exact Ht|]. split; [exact Hi|].
  destruct (copyright_sound _ _ _ _ H) as (t & Ht' & Hs). rewrite Ht in Ht'. injection Ht' as <-. exact Hs.
Qed.
Check doc_fields_copyright_wf : forall E ext_parse d c, wf_doc d = true -> parse_copyright E ext_parse (render d) = TOk c ->
  from_str (render d) = Ok (tree_of d) /\ doc_items (tree_of d) = content d /\
  copyright_spec E ext_parse (render d) (paragraphs (tree_of d)) c.
Print Assumptions doc_fields_copyright_wf.

(* ================================================================== no assumption left *)
(* Release and Removal use no external codec: for ANY codecs, nothing is assumed *)
Theorem doc_stable_release_closed : forall E ext_print ext_parse s v, ~ Known_lossy_blank_last s ->
  parse_release E ext_parse s = TOk v -> stable (parse_release E ext_parse) (print_release E ext_print) v.
Proof. intros E pr pa s v Hk H. eapply doc_stable_release; [rewrite release_no_ext; apply ext_stable_nil|exact Hk|exact H]. Qed.
Check doc_stable_release_closed : forall E ext_print ext_parse s v, ~ Known_lossy_blank_last s ->
  parse_release E ext_parse s = TOk v -> stable (parse_release E ext_parse) (print_release E ext_print) v.
Print Assumptions doc_stable_release_closed.

Theorem doc_stable_removal_closed : forall E ext_print ext_parse s v,
  parse_removal E ext_parse s = TOk v -> stable (parse_removal E ext_parse) (print_removal E ext_print) v.
Proof. intros E pr pa s v H. eapply doc_stable_removal; [rewrite removal_no_ext; apply ext_stable_nil|exact H]. Qed.
Check doc_stable_removal_closed : forall E ext_print ext_parse s v,
  parse_removal E ext_parse s = TOk v -> stable (parse_removal E ext_parse) (print_removal E ext_print) v.
Print Assumptions doc_stable_removal_closed.

(* copyright with C18's model of License (Codecs.license_from_str / license_to_string) as its only
   external codec: all texts outside the '#'-item class, nothing assumed *)
Theorem doc_stable_copyright_closed : forall s c, ~ Known_files_hash_word s ->
  parse_copyright license lic_parse s = TOk c -> stable (parse_copyright license lic_parse) (print_copyright license lic_print) c.
Proof. intros s c Hk H. eapply doc_stable_copyright; try apply lic_stable; eassumption. Qed.
Check doc_stable_copyright_closed : forall s c, ~ Known_files_hash_word s ->
  parse_copyright license lic_parse s = TOk c -> stable (parse_copyright license lic_parse) (print_copyright license lic_print) c.
Print Assumptions doc_stable_copyright_closed.

(* ================================================================== the headline: everything outside the known classes *)
Theorem C20_partial :
  forall (E : Type) (ext_print : N -> E -> str) (ext_parse : N -> str -> option E),
  (forall ll ids, ext_stable E ext_print ext_parse ll ids) ->
  (forall s c, parse_control E ext_parse s = TOk c -> stable (parse_control E ext_parse) (print_control E ext_print) c) /\
  (forall s c, ~ Known_files_hash_word s -> parse_copyright E ext_parse s = TOk c -> stable (parse_copyright E ext_parse) (print_copyright E ext_print) c) /\
  (forall s v, ~ Known_lossy_blank_last s -> parse_release E ext_parse s = TOk v -> stable (parse_release E ext_parse) (print_release E ext_print) v) /\
  (forall s v, ~ Known_lossy_blank_last s -> parse_apt_source E ext_parse s = TOk v -> stable (parse_apt_source E ext_parse) (print_apt_source E ext_print) v) /\
  (forall s v, ~ Known_lossy_blank_last s -> parse_apt_package E ext_parse s = TOk v -> stable (parse_apt_package E ext_parse) (print_apt_package E ext_print) v) /\
  (forall s v, parse_removal E ext_parse s = TOk v -> stable (parse_removal E ext_parse) (print_removal E ext_print) v) /\
  (forall s v, parse_buildinfo E ext_parse s = TOk v -> stable (parse_buildinfo E ext_parse) (print_buildinfo E ext_print) v) /\
  (forall s v, ~ Known_dep3_empty v -> parse_dep3 E ext_parse s = TOk v -> stable (parse_dep3 E ext_parse) (print_dep3 E ext_print) v) /\
  (forall s v, parse_repositories E ext_parse s = TOk v -> stable (parse_repositories E ext_parse) (print_repositories E ext_print) v).
Proof.
  intros E pr pa He. split; [intros; eapply doc_stable_control; eauto|]. split; [intros; eapply doc_stable_copyright; eauto|].
  split; [intros; eapply doc_stable_release; eauto|]. split; [intros; eapply doc_stable_apt_source; eauto|].
  split; [intros; eapply doc_stable_apt_package; eauto|]. split; [intros; eapply doc_stable_removal; eauto|].
  split; [intros; eapply doc_stable_buildinfo; eauto|]. split; [intros; eapply doc_stable_dep3; eauto|intros; eapply doc_stable_repositories; eauto].
Qed.
Check C20_partial :
  forall (E : Type) (ext_print : N -> E -> str) (ext_parse : N -> str -> option E),
  (forall ll ids, ext_stable E ext_print ext_parse ll ids) ->
  (forall s c, parse_control E ext_parse s = TOk c -> stable (parse_control E ext_parse) (print_control E ext_print) c) /\
  (forall s c, ~ Known_files_hash_word s -> parse_copyright E ext_parse s = TOk c -> stable (parse_copyright E ext_parse) (print_copyright E ext_print) c) /\
  (forall s v, ~ Known_lossy_blank_last s -> parse_release E ext_parse s = TOk v -> stable (parse_release E ext_parse) (print_release E ext_print) v) /\
  (forall s v, ~ Known_lossy_blank_last s -> parse_apt_source E ext_parse s = TOk v -> stable (parse_apt_source E ext_parse) (print_apt_source E ext_print) v) /\
  (forall s v, ~ Known_lossy_blank_last s -> parse_apt_package E ext_parse s = TOk v -> stable (parse_apt_package E ext_parse) (print_apt_package E ext_print) v) /\
  (forall s v, parse_removal E ext_parse s = TOk v -> stable (parse_removal E ext_parse) (print_removal E ext_print) v) /\
  (forall s v, parse_buildinfo E ext_parse s = TOk v -> stable (parse_buildinfo E ext_parse) (print_buildinfo E ext_print) v) /\
  (forall s v, ~ Known_dep3_empty v -> parse_dep3 E ext_parse s = TOk v -> stable (parse_dep3 E ext_parse) (print_dep3 E ext_print) v) /\
  (forall s v, parse_repositories E ext_parse s = TOk v -> stable (parse_repositories E ext_parse) (print_repositories E ext_print) v).
Print Assumptions C20_partial.

(* ================================================================== witnesses: the classes are necessary; non-vacuity *)
Definition ex_control : str := [83; 111; 117; 114; 99; 101; 58; 32; 102; 111; 111; 10; 83; 101; 99; 116; 105; 111; 110; 58; 32; 108; 105; 98; 115; 10; 35; 32; 99; 10; 10; 80; 97; 99; 107; 97; 103; 101; 58; 32; 98; 97; 114; 10; 68; 101; 115; 99; 114; 105; 112; 116; 105; 111; 110; 58; 32; 115; 104; 111; 114; 116; 10; 32; 108; 111; 110; 103; 10; 32; 46; 10; 10; 10; 80; 97; 99; 107; 97; 103; 101; 58; 32; 98; 97; 122; 10; 69; 115; 115; 101; 110; 116; 105; 97; 108; 58; 32; 121; 101; 115; 10]%N.
(* 'Source: foo\nSection: libs\n# c\n\nPackage: bar\nDescription: short\n long\n .\n\n\nPackage: baz\nEssential: yes\n' *)
Definition ex_copyright : str := [70; 111; 114; 109; 97; 116; 58; 32; 120; 10; 70; 105; 108; 101; 115; 45; 69; 120; 99; 108; 117; 100; 101; 100; 58; 32; 97; 32; 98; 10; 10; 76; 105; 99; 101; 110; 115; 101; 58; 32; 71; 80; 76; 10; 10; 70; 105; 108; 101; 115; 58; 32; 42; 32; 115; 114; 99; 47; 120; 10; 67; 111; 112; 121; 114; 105; 103; 104; 116; 58; 32; 109; 101; 10; 32; 121; 111; 117; 10; 76; 105; 99; 101; 110; 115; 101; 58; 32; 71; 80; 76; 10]%N.
(* 'Format: x\nFiles-Excluded: a b\n\nLicense: GPL\n\nFiles: * src/x\nCopyright: me\n you\nLicense: GPL\n' *)
Definition ex_release : str := [67; 111; 100; 101; 110; 97; 109; 101; 58; 32; 99; 10; 67; 111; 109; 112; 111; 110; 101; 110; 116; 115; 58; 32; 109; 97; 105; 110; 32; 99; 111; 110; 116; 114; 105; 98; 10; 65; 114; 99; 104; 105; 116; 101; 99; 116; 117; 114; 101; 115; 58; 32; 97; 109; 100; 54; 52; 10; 68; 101; 115; 99; 114; 105; 112; 116; 105; 111; 110; 58; 32; 100; 10; 79; 114; 105; 103; 105; 110; 58; 32; 111; 10; 76; 97; 98; 101; 108; 58; 32; 108; 10; 83; 117; 105; 116; 101; 58; 32; 115; 10; 86; 101; 114; 115; 105; 111; 110; 58; 32; 49; 10; 68; 97; 116; 101; 58; 32; 116; 111; 100; 97; 121; 10; 78; 111; 116; 65; 117; 116; 111; 109; 97; 116; 105; 99; 58; 32; 102; 97; 108; 115; 101; 10; 66; 117; 116; 65; 117; 116; 111; 109; 97; 116; 105; 99; 85; 112; 103; 114; 97; 100; 101; 115; 58; 32; 116; 114; 117; 101; 10; 65; 99; 113; 117; 105; 114; 101; 45; 66; 121; 45; 72; 97; 115; 104; 58; 32; 116; 114; 117; 101; 10]%N.
(* 'Codename: c\nComponents: main contrib\nArchitectures: amd64\nDescription: d\nOrigin: o\nLabel: l\nSuite: s\nVersion: 1\nDate: today\nNotAutomatic: false\nButAutomaticUpgrades: true\nAcquire-By-Hash: true\n' *)
Definition ex_removal : str := [68; 97; 116; 101; 58; 32; 100; 10; 70; 116; 112; 109; 97; 115; 116; 101; 114; 58; 32; 102; 10; 83; 111; 117; 114; 99; 101; 115; 58; 32; 97; 95; 49; 10; 32; 98; 95; 50; 10; 82; 101; 97; 115; 111; 110; 58; 32; 114; 10; 66; 117; 103; 58; 32; 49; 50; 10; 10; 68; 97; 116; 101; 58; 32; 105; 103; 110; 111; 114; 101; 100; 10]%N.
(* 'Date: d\nFtpmaster: f\nSources: a_1\n b_2\nReason: r\nBug: 12\n\nDate: ignored\n' *)
Definition ex_dep3 : str := [70; 114; 111; 109; 58; 32; 109; 101; 10; 83; 117; 98; 106; 101; 99; 116; 58; 32; 115; 117; 98; 106; 10; 32; 109; 111; 114; 101; 10; 88; 45; 79; 116; 104; 101; 114; 58; 32; 121; 10]%N.
(* 'From: me\nSubject: subj\n more\nX-Other: y\n' *)
Definition ex_repositories : str := [83; 117; 105; 116; 101; 115; 58; 32; 97; 32; 98; 10; 67; 111; 109; 112; 111; 110; 101; 110; 116; 115; 58; 32; 109; 97; 105; 110; 10; 65; 114; 99; 104; 105; 116; 101; 99; 116; 117; 114; 101; 115; 58; 32; 97; 109; 100; 54; 52; 10; 84; 121; 112; 101; 115; 58; 32; 100; 101; 98; 10; 85; 82; 73; 115; 58; 32; 104; 116; 116; 112; 58; 47; 47; 120; 47; 10; 69; 110; 97; 98; 108; 101; 100; 58; 32; 110; 111; 10]%N.
(* 'Suites: a b\nComponents: main\nArchitectures: amd64\nTypes: deb\nURIs: http://x/\nEnabled: no\n' *)
Definition w_dep3_empty : str := [70; 111; 111; 58; 32; 98; 97; 114; 10]%N.
(* 'Foo: bar\n' *)
Definition w_release_blank : str := [67; 111; 100; 101; 110; 97; 109; 101; 58; 32; 99; 10; 67; 111; 109; 112; 111; 110; 101; 110; 116; 115; 58; 32; 109; 97; 105; 110; 10; 65; 114; 99; 104; 105; 116; 101; 99; 116; 117; 114; 101; 115; 58; 32; 97; 109; 100; 54; 52; 10; 68; 101; 115; 99; 114; 105; 112; 116; 105; 111; 110; 58; 32; 100; 10; 32; 10; 79; 114; 105; 103; 105; 110; 58; 32; 111; 10; 76; 97; 98; 101; 108; 58; 32; 108; 10; 83; 117; 105; 116; 101; 58; 32; 115; 10; 86; 101; 114; 115; 105; 111; 110; 58; 32; 49; 10; 68; 97; 116; 101; 58; 32; 116; 111; 100; 97; 121; 10; 78; 111; 116; 65; 117; 116; 111; 109; 97; 116; 105; 99; 58; 32; 102; 97; 108; 115; 101; 10; 66; 117; 116; 65; 117; 116; 111; 109; 97; 116; 105; 99; 85; 112; 103; 114; 97; 100; 101; 115; 58; 32; 116; 114; 117; 101; 10; 65; 99; 113; 117; 105; 114; 101; 45; 66; 121; 45; 72; 97; 115; 104; 58; 32; 116; 114; 117; 101; 10]%N.
(* 'Codename: c\nComponents: main\nArchitectures: amd64\nDescription: d\n \nOrigin: o\nLabel: l\nSuite: s\nVersion: 1\nDate: today\nNotAutomatic: false\nButAutomaticUpgrades: true\nAcquire-By-Hash: true\n' *)
Definition ex_release_interior : str := [67; 111; 100; 101; 110; 97; 109; 101; 58; 32; 99; 10; 67; 111; 109; 112; 111; 110; 101; 110; 116; 115; 58; 32; 109; 97; 105; 110; 10; 65; 114; 99; 104; 105; 116; 101; 99; 116; 117; 114; 101; 115; 58; 32; 97; 109; 100; 54; 52; 10; 68; 101; 115; 99; 114; 105; 112; 116; 105; 111; 110; 58; 32; 100; 10; 32; 10; 32; 35; 32; 99; 10; 32; 101; 10; 79; 114; 105; 103; 105; 110; 58; 32; 111; 10; 76; 97; 98; 101; 108; 58; 32; 108; 10; 83; 117; 105; 116; 101; 58; 32; 115; 10; 86; 101; 114; 115; 105; 111; 110; 58; 32; 49; 10; 68; 97; 116; 101; 58; 32; 116; 111; 100; 97; 121; 10; 78; 111; 116; 65; 117; 116; 111; 109; 97; 116; 105; 99; 58; 32; 102; 97; 108; 115; 101; 10; 66; 117; 116; 65; 117; 116; 111; 109; 97; 116; 105; 99; 85; 112; 103; 114; 97; 100; 101; 115; 58; 32; 116; 114; 117; 101; 10; 65; 99; 113; 117; 105; 114; 101; 45; 66; 121; 45; 72; 97; 115; 104; 58; 32; 116; 114; 117; 101; 10]%N.
(* 'Codename: c\nComponents: main\nArchitectures: amd64\nDescription: d\n \n # c\n e\nOrigin: o\nLabel: l\nSuite: s\nVersion: 1\nDate: today\nNotAutomatic: false\nButAutomaticUpgrades: true\nAcquire-By-Hash: true\n' *)
Definition w_release_empty_first : str := [67; 111; 100; 101; 110; 97; 109; 101; 58; 32; 99; 10; 67; 111; 109; 112; 111; 110; 101; 110; 116; 115; 58; 32; 109; 97; 105; 110; 10; 65; 114; 99; 104; 105; 116; 101; 99; 116; 117; 114; 101; 115; 58; 32; 97; 109; 100; 54; 52; 10; 68; 101; 115; 99; 114; 105; 112; 116; 105; 111; 110; 58; 10; 32; 100; 10; 79; 114; 105; 103; 105; 110; 58; 32; 111; 10; 76; 97; 98; 101; 108; 58; 32; 108; 10; 83; 117; 105; 116; 101; 58; 32; 115; 10; 86; 101; 114; 115; 105; 111; 110; 58; 32; 49; 10; 68; 97; 116; 101; 58; 32; 116; 111; 100; 97; 121; 10; 78; 111; 116; 65; 117; 116; 111; 109; 97; 116; 105; 99; 58; 32; 102; 97; 108; 115; 101; 10; 66; 117; 116; 65; 117; 116; 111; 109; 97; 116; 105; 99; 85; 112; 103; 114; 97; 100; 101; 115; 58; 32; 116; 114; 117; 101; 10; 65; 99; 113; 117; 105; 114; 101; 45; 66; 121; 45; 72; 97; 115; 104; 58; 32; 116; 114; 117; 101; 10]%N.
(* 'Codename: c\nComponents: main\nArchitectures: amd64\nDescription:\n d\nOrigin: o\nLabel: l\nSuite: s\nVersion: 1\nDate: today\nNotAutomatic: false\nButAutomaticUpgrades: true\nAcquire-By-Hash: true\n' *)
Definition w_files_hash : str := [70; 111; 114; 109; 97; 116; 58; 32; 120; 10; 10; 70; 105; 108; 101; 115; 58; 32; 97; 32; 35; 98; 10; 67; 111; 112; 121; 114; 105; 103; 104; 116; 58; 32; 109; 101; 10; 76; 105; 99; 101; 110; 115; 101; 58; 32; 71; 80; 76; 10]%N.
(* 'Format: x\n\nFiles: a #b\nCopyright: me\nLicense: GPL\n' *)
Definition w_buildinfo_env : str := [70; 111; 114; 109; 97; 116; 58; 32; 49; 46; 48; 10; 66; 117; 105; 108; 100; 45; 65; 114; 99; 104; 105; 116; 101; 99; 116; 117; 114; 101; 58; 32; 97; 109; 100; 54; 52; 10; 83; 111; 117; 114; 99; 101; 58; 32; 115; 10; 65; 114; 99; 104; 105; 116; 101; 99; 116; 117; 114; 101; 58; 32; 97; 108; 108; 10; 86; 101; 114; 115; 105; 111; 110; 58; 32; 49; 10; 69; 110; 118; 105; 114; 111; 110; 109; 101; 110; 116; 58; 10; 32; 65; 61; 49; 10; 73; 110; 115; 116; 97; 108; 108; 101; 100; 45; 66; 117; 105; 108; 100; 45; 68; 101; 112; 101; 110; 100; 115; 58; 32; 97; 10]%N.
(* 'Format: 1.0\nBuild-Architecture: amd64\nSource: s\nArchitecture: all\nVersion: 1\nEnvironment:\n A=1\nInstalled-Build-Depends: a\n' *)
Definition t_GPL : str := [71; 80; 76]%N.
(* 'GPL' *)
Definition t_1 : str := [49]%N.
(* '1' *)
Definition t_A1 : str := [65; 61; 49]%N.
(* 'A=1' *)
Definition t_A1nl : str := [65; 61; 49; 10]%N.
(* 'A=1\n' *)
Definition t_a : str := [97]%N.
(* 'a' *)
Definition t_deb : str := [100; 101; 98]%N.
(* 'deb' *)
Definition t_url : str := [104; 116; 116; 112; 58; 47; 47; 120; 47]%N.
(* 'http://x/' *)
Definition w_control_two_sources : str := [83; 111; 117; 114; 99; 101; 58; 32; 97; 10; 10; 83; 111; 117; 114; 99; 101; 58; 32; 98; 10]%N.
(* 'Source: a\n\nSource: b\n' *)
Definition w_control_neither : str := [83; 111; 117; 114; 99; 101; 58; 32; 97; 10; 10; 70; 111; 111; 58; 32; 98; 10]%N.
(* 'Source: a\n\nFoo: b\n' *)
Definition w_control_missing : str := [83; 111; 117; 114; 99; 101; 58; 32; 97; 10; 10; 80; 97; 99; 107; 97; 103; 101; 58; 32; 122; 10; 83; 111; 117; 114; 99; 101; 58; 32; 97; 32; 98; 105; 110; 97; 114; 121; 44; 32; 98; 101; 99; 97; 117; 115; 101; 32; 111; 102; 32; 80; 97; 99; 107; 97; 103; 101; 10; 10; 83; 111; 117; 114; 99; 101; 58; 32; 98; 10]%N.
(* 'Source: a\n\nPackage: z\nSource: a binary, because of Package\n\nSource: b\n' *)
Definition w_control_no_source : str := [80; 97; 99; 107; 97; 103; 101; 58; 32; 97; 10]%N.
(* 'Package: a\n' *)

(* external codecs of the witnesses: the runner's table instance (E = the canonical text) *)
Definition tb_license : ext_table := [((6%N, t_GPL), Some t_GPL)].
Definition tb_env_shipped : ext_table := [((1%N, t_1), Some t_1); ((12%N, t_A1), Some t_A1nl); ((3%N, t_a), Some t_a)].
Definition tb_env_fixed : ext_table := [((1%N, t_1), Some t_1); ((12%N, t_A1), Some t_A1); ((3%N, t_a), Some t_a)].
Definition tb_repo : ext_table := [((13%N, t_deb), Some t_deb); ((14%N, t_url), Some t_url)].

(* one print / re-read round on the table instance: same values, same text? *)
Definition round (kind : N) (tbl : ext_table) (s : str) : option bool :=
  match x_run kind tbl s with
  | TOk o => Some (match x_run kind tbl (x_text o) with
                   | TOk o' => list_eqb sval_eqb (x_vals o) (x_vals o') && str_eqb (x_text o) (x_text o')
                   | _ => false
                   end)
  | _ => None
  end.


(* the DEP-3 class is necessary, and with it the full statement is false of the code as it is *)
Theorem C20_dep3_empty_needed :
  exists v, parse_dep3 str (table_parse []) w_dep3_empty = TOk v /\ Known_dep3_empty v /\
            print_dep3 str table_print v = Some [] /\ parse_dep3 str (table_parse []) [] = TErr ENoParas.
Proof. eexists. split; [vm_compute; reflexivity|]. split; [vm_compute; reflexivity|]. split; vm_compute; reflexivity. Qed.
Check C20_dep3_empty_needed :
  exists v, parse_dep3 str (table_parse []) w_dep3_empty = TOk v /\ Known_dep3_empty v /\
            print_dep3 str table_print v = Some [] /\ parse_dep3 str (table_parse []) [] = TErr ENoParas.
Print Assumptions C20_dep3_empty_needed.

Theorem C20_full_refuted : ~ C20_full.
Proof.
  intros H. destruct (H str table_print (table_parse []) empty_table_stable) as (_ & _ & _ & _ & _ & _ & _ & Hd & _).
  destruct C20_dep3_empty_needed as (v & Hv & _ & Hp & Hr). destruct (Hd _ _ Hv) as (t & v' & H1 & H2 & _).
  rewrite Hp in H1. injection H1 as <-. rewrite Hr in H2. discriminate.
Qed.
Check C20_full_refuted : ~ C20_full.
Print Assumptions C20_full_refuted.

(* copyright: `Files: a #b` reads as the items a, #b; printed one per line the second is a comment *)
Theorem C20_files_hash_word_needed :
  Known_files_hash_word w_files_hash /\ round 1 tb_license w_files_hash = Some false.
Proof. split; [eexists; split; vm_compute; reflexivity|vm_compute; reflexivity]. Qed.
Check C20_files_hash_word_needed :
  Known_files_hash_word w_files_hash /\ round 1 tb_license w_files_hash = Some false.
Print Assumptions C20_files_hash_word_needed.

(* apt Release: `Description: d` followed by a blank continuation line: the value "d\n" prints with
   an empty line after it and reads back as "d" *)
Theorem C20_lossy_blank_line_needed :
  Known_lossy_blank_last w_release_blank /\ round 2 [] w_release_blank = Some false.
Proof. split; [eexists; split; vm_compute; reflexivity|vm_compute; reflexivity]. Qed.
Check C20_lossy_blank_line_needed :
  Known_lossy_blank_last w_release_blank /\ round 2 [] w_release_blank = Some false.
Print Assumptions C20_lossy_blank_line_needed.

(* apt Release: `Description:` with the text on the next line: stable, but the typed value "\nd" is
   not what the lossless reader shows ("d") - the field-wise clause needs doc_first_present *)
Theorem C20_lossy_empty_first_line_needed :
  round 2 [] w_release_empty_first = Some true /\
  (exists p t, lossy_paragraph_from_str w_release_empty_first = Ok p /\ from_str w_release_empty_first = Ok t /\
               l_get p k_Description = Some [10; 100]%N /\
               option_map (fun q => get q k_Description) (hd_error (paragraphs t)) = Some (Some [100]%N)).
Proof. split; [vm_compute; reflexivity|]. eexists; eexists. split; [vm_compute; reflexivity|]. split; [vm_compute; reflexivity|]. split; vm_compute; reflexivity. Qed.
Check C20_lossy_empty_first_line_needed :
  round 2 [] w_release_empty_first = Some true /\
  (exists p t, lossy_paragraph_from_str w_release_empty_first = Ok p /\ from_str w_release_empty_first = Ok t /\
               l_get p k_Description = Some [10; 100]%N /\
               option_map (fun q => get q k_Description) (hd_error (paragraphs t)) = Some (Some [100]%N)).
Print Assumptions C20_lossy_empty_first_line_needed.

(* buildinfo: with the SHIPPED serialize_env ("K=V\n" per entry) a one-entry Environment prints as
   "Environment: A=1\n\n": the blank line ends the paragraph and Installed-Build-Depends is lost.
   The printed text of the codec is not canonical, i.e. ext_stable is false of the shipped function.
   With the proposed fix (entries joined by "\n") the same document is stable. *)
Theorem C20_env_shipped_refuted :
  round 6 tb_env_shipped w_buildinfo_env = Some false /\ canon_value t_A1nl = false /\
  round 6 tb_env_fixed w_buildinfo_env = Some true /\ canon_value t_A1 = true.
Proof. split; [vm_compute; reflexivity|]. split; [vm_compute; reflexivity|]. split; vm_compute; reflexivity. Qed.
Check C20_env_shipped_refuted :
  round 6 tb_env_shipped w_buildinfo_env = Some false /\ canon_value t_A1nl = false /\
  round 6 tb_env_fixed w_buildinfo_env = Some true /\ canon_value t_A1 = true.
Print Assumptions C20_env_shipped_refuted.


(* ================================================================== the workspace's own codecs COMPUTED, not assumed *)
(* model/TypedExt.v instantiates the external codecs with the framework's models of the twelve that
   are plain code of the workspace (keyword enumerations, License, Signature, Forwarded,
   AppliedUpstream, DEP-3 Origin, ParsedVcs - C18's models; environment map, repository-type set,
   URI list - transcribed in this cone) and leaves Version, Url, lossy Relations, NaiveDate as values
   of an arbitrary type E0 with printer p0 / parser q0.  For that instance the law [ext_stable_on
   xguard] is a THEOREM (proofs/TypedExtP.v: x_stable); its only premise is [ext0_ok]: the law for
   those four (and: the text of a Url is a non-empty white-space free token).  Three of the twelve
   have a guard - values for which printing a parsed value is NOT stable (each a recorded finding,
   each with a witness below):
     c20-vcs-second-group      Vcs-Git with a second " [..]" group  (and: the theorem covers one-line values)
     c20-env-hash-line         Environment: a "K=V" line starting with '#' that is not the first of the sorted lines
     c20-signature-hash-block  Signed-By: a key block whose first line starts with '#' *)
Definition Known_vcs_second_group (s : str) : Prop :=
  exists t, from_str s = Ok t /\ forallb (control_guard xguard) (paragraphs t) = false.
Definition Known_env_hash_line (s : str) : Prop :=
  exists t, from_str s = Ok t /\ ext_guard xguard fs_buildinfo (get (hd (Tok ROOT []) (paragraphs t))) = false.
Definition Known_signature_hash_block (s : str) : Prop :=
  exists t, from_str s = Ok t /\ forallb (fun p => ext_guard xguard fs_repository (get p)) (paragraphs t) = false.

Theorem C20_workspace_codecs_stable : forall E0 p0 q0 ll ids,
  (needs_ext0 ids = true -> ext0_ok E0 p0 q0 ll) -> (In 7%N ids \/ In 12%N ids -> ll = true) -> (forall i, In i ids -> (1 <= i <= 16)%N) ->
  ext_stable_on (xval E0) (xprint E0 p0) (xparse E0 q0) xguard ll ids.
Proof. exact x_stable. Qed.
Check C20_workspace_codecs_stable : forall E0 p0 q0 ll ids,
  (needs_ext0 ids = true -> ext0_ok E0 p0 q0 ll) -> (In 7%N ids \/ In 12%N ids -> ll = true) -> (forall i, In i ids -> (1 <= i <= 16)%N) ->
  ext_stable_on (xval E0) (xprint E0 p0) (xparse E0 q0) xguard ll ids.
Print Assumptions C20_workspace_codecs_stable.

Section KindsX.
Variable E0 : Type.
Variable p0 : N -> E0 -> str.
Variable q0 : N -> str -> option E0.
Notation X := (xval E0).
Notation xpr := (xprint E0 p0).
Notation xpa := (xparse E0 q0).
Notation P0 := (ext0_ok E0 p0 q0).

Notation xs := (xs_struct E0 p0 q0).

Theorem doc_stable_control_x : forall s c, P0 true -> ~ Known_vcs_second_group s ->
  parse_control X xpa s = TOk c -> stable (parse_control X xpa) (print_control X xpr) c.
Proof.
  intros s c H0 Hk H. apply stable_intro. apply (control_stable X xpr xpa xguard s c); [| | |exact H].
  - apply xs; [cbn; tauto|intros _; exact H0|intros _; reflexivity].
  - apply xs; [cbn; tauto|intros _; exact H0|intros _; reflexivity].
  - intros t Ht. destruct (forallb (control_guard xguard) (paragraphs t)) eqn:Eg; [reflexivity|]. exfalso. apply Hk. exists t. auto.
Qed.

(* copyright: License is its only external codec - nothing is assumed *)
Theorem doc_stable_copyright_x : forall s c, ~ Known_files_hash_word s ->
  parse_copyright X xpa s = TOk c -> stable (parse_copyright X xpa) (print_copyright X xpr) c.
Proof.
  intros s c Hk H. apply stable_intro. apply (copyright_stable X xpr xpa xguard s c); [| | | | |exact H].
  - apply xs; [cbn; tauto|vm_compute; discriminate|intros _; reflexivity].
  - apply xs; [cbn; tauto|vm_compute; discriminate|intros _; reflexivity].
  - apply xs; [cbn; tauto|vm_compute; discriminate|intros _; reflexivity].
  - intros t Ht. destruct (forallb para_hash_free (paragraphs t)) eqn:Eh; [reflexivity|]. exfalso. apply Hk. exists t. auto.
  - intros t _. pose proof no_guarded_structs as Hn. cbn [forallb] in Hn. repeat (apply andb_true_iff in Hn; destruct Hn as [? Hn]).
    split; [apply no_guarded_guard; assumption|]. apply forallb_all. intros p. unfold copyright_guard.
    destruct (get p k_Files); [apply no_guarded_guard; assumption|]. destruct (get p k_License); [apply no_guarded_guard; assumption|reflexivity].
Qed.

Theorem doc_stable_buildinfo_x : forall s v, P0 true -> ~ Known_env_hash_line s ->
  parse_buildinfo X xpa s = TOk v -> stable (parse_buildinfo X xpa) (print_buildinfo X xpr) v.
Proof.
  intros s v H0 Hk H. apply stable_intro. apply (ll1_stable X xpr xpa xguard fs_buildinfo s v ok_buildinfo nh_buildinfo hm_buildinfo); [| |exact H].
  - apply xs; [cbn; tauto|intros _; exact H0|intros _; reflexivity].
  - intros t Ht. destruct (ext_guard xguard fs_buildinfo (get (hd (Tok ROOT []) (paragraphs t)))) eqn:Eg; [reflexivity|]. exfalso. apply Hk. exists t. auto.
Qed.

Theorem doc_stable_dep3_x : forall s v, P0 true -> parse_dep3 X xpa s = TOk v -> ~ Known_dep3_empty v ->
  stable (parse_dep3 X xpa) (print_dep3 X xpr) v.
Proof.
  intros s v H0 H Hk. apply stable_intro. apply (dep3_stable X xpr xpa xguard s v); [| |exact H|exact Hk].
  - apply xs; [cbn; tauto|intros _; exact H0|intros _; reflexivity].
  - intros t _. apply no_guarded_guard. pose proof no_guarded_structs as Hn. cbn [forallb] in Hn. repeat (apply andb_true_iff in Hn; destruct Hn as [? Hn]). assumption.
Qed.

Theorem doc_stable_repositories_x : forall s rs, P0 true -> ~ Known_signature_hash_block s ->
  parse_repositories X xpa s = TOk rs -> stable (parse_repositories X xpa) (print_repositories X xpr) rs.
Proof.
  intros s rs H0 Hk H. apply stable_intro. apply (repositories_stable X xpr xpa xguard s rs); [| |exact H].
  - apply xs; [cbn; tauto|intros _; exact H0|reflexivity].
  - intros t Ht. destruct (forallb (fun p => ext_guard xguard fs_repository (get p)) (paragraphs t)) eqn:Eg; [reflexivity|]. exfalso. apply Hk. exists t. auto.
Qed.

Theorem doc_stable_apt_source_x : forall s v, P0 false -> ~ Known_lossy_blank_last s ->
  parse_apt_source X xpa s = TOk v -> stable (parse_apt_source X xpa) (print_apt_source X xpr) v.
Proof.
  intros s v H0 Hk H. apply stable_intro. destruct (lossy1_sound _ _ _ _ _ H) as (p & Hp & _).
  apply (lossy1_stable X xpr xpa xguard fs_apt_source s p v ok_apt_source nh_apt_source hm_apt_source); [|exact Hp| | |exact H].
  - apply xs; [cbn; tauto|intros _; exact H0|intros [E|E]; exfalso; revert E; vm_compute; discriminate].
  - apply (lossy_paragraph_lcanon s p Hp). destruct (existsb (fun kv => ends_lf (snd kv)) p) eqn:Ec; [|reflexivity]. exfalso. apply Hk. exists p. auto.
  - apply no_guarded_guard. pose proof no_guarded_structs as Hn. cbn [forallb] in Hn. repeat (apply andb_true_iff in Hn; destruct Hn as [? Hn]). assumption.
Qed.
Theorem doc_stable_apt_package_x : forall s v, P0 false -> ~ Known_lossy_blank_last s ->
  parse_apt_package X xpa s = TOk v -> stable (parse_apt_package X xpa) (print_apt_package X xpr) v.
Proof.
  intros s v H0 Hk H. apply stable_intro. destruct (lossy1_sound _ _ _ _ _ H) as (p & Hp & _).
  apply (lossy1_stable X xpr xpa xguard fs_apt_package s p v ok_apt_package nh_apt_package hm_apt_package); [|exact Hp| | |exact H].
  - apply xs; [cbn; tauto|intros _; exact H0|intros [E|E]; exfalso; revert E; vm_compute; discriminate].
  - apply (lossy_paragraph_lcanon s p Hp). destruct (existsb (fun kv => ends_lf (snd kv)) p) eqn:Ec; [|reflexivity]. exfalso. apply Hk. exists p. auto.
  - apply no_guarded_guard. pose proof no_guarded_structs as Hn. cbn [forallb] in Hn. repeat (apply andb_true_iff in Hn; destruct Hn as [? Hn]). assumption.
Qed.
End KindsX.

Check doc_stable_control_x : forall E0 p0 q0 s c, ext0_ok E0 p0 q0 true -> ~ Known_vcs_second_group s ->
  parse_control (xval E0) (xparse E0 q0) s = TOk c -> stable (parse_control (xval E0) (xparse E0 q0)) (print_control (xval E0) (xprint E0 p0)) c.
Print Assumptions doc_stable_control_x.
Check doc_stable_copyright_x : forall E0 p0 q0 s c, ~ Known_files_hash_word s ->
  parse_copyright (xval E0) (xparse E0 q0) s = TOk c -> stable (parse_copyright (xval E0) (xparse E0 q0)) (print_copyright (xval E0) (xprint E0 p0)) c.
Print Assumptions doc_stable_copyright_x.
Check doc_stable_buildinfo_x : forall E0 p0 q0 s v, ext0_ok E0 p0 q0 true -> ~ Known_env_hash_line s ->
  parse_buildinfo (xval E0) (xparse E0 q0) s = TOk v -> stable (parse_buildinfo (xval E0) (xparse E0 q0)) (print_buildinfo (xval E0) (xprint E0 p0)) v.
Print Assumptions doc_stable_buildinfo_x.
Check doc_stable_dep3_x : forall E0 p0 q0 s v, ext0_ok E0 p0 q0 true -> parse_dep3 (xval E0) (xparse E0 q0) s = TOk v -> ~ Known_dep3_empty v ->
  stable (parse_dep3 (xval E0) (xparse E0 q0)) (print_dep3 (xval E0) (xprint E0 p0)) v.
Print Assumptions doc_stable_dep3_x.
Check doc_stable_repositories_x : forall E0 p0 q0 s rs, ext0_ok E0 p0 q0 true -> ~ Known_signature_hash_block s ->
  parse_repositories (xval E0) (xparse E0 q0) s = TOk rs -> stable (parse_repositories (xval E0) (xparse E0 q0)) (print_repositories (xval E0) (xprint E0 p0)) rs.
Print Assumptions doc_stable_repositories_x.
Check doc_stable_apt_source_x : forall E0 p0 q0 s v, ext0_ok E0 p0 q0 false -> ~ Known_lossy_blank_last s ->
  parse_apt_source (xval E0) (xparse E0 q0) s = TOk v -> stable (parse_apt_source (xval E0) (xparse E0 q0)) (print_apt_source (xval E0) (xprint E0 p0)) v.
Print Assumptions doc_stable_apt_source_x.
Check doc_stable_apt_package_x : forall E0 p0 q0 s v, ext0_ok E0 p0 q0 false -> ~ Known_lossy_blank_last s ->
  parse_apt_package (xval E0) (xparse E0 q0) s = TOk v -> stable (parse_apt_package (xval E0) (xparse E0 q0)) (print_apt_package (xval E0) (xprint E0 p0)) v.
Print Assumptions doc_stable_apt_package_x.

(* witnesses for the three guards, on the instance with the per-case table for the four externals *)
Definition w_vcs_two_groups : str := [83; 111; 117; 114; 99; 101; 58; 32; 115; 10; 86; 99; 115; 45; 71; 105; 116; 58; 32; 104; 116; 116; 112; 115; 58; 47; 47; 120; 47; 121; 32; 91; 97; 93; 32; 91; 98; 93; 10]%N.
(* 'Source: s\nVcs-Git: https://x/y [a] [b]\n' *)
Definition w_env_hash_line : str := [70; 111; 114; 109; 97; 116; 58; 32; 49; 46; 48; 10; 66; 117; 105; 108; 100; 45; 65; 114; 99; 104; 105; 116; 101; 99; 116; 117; 114; 101; 58; 32; 97; 109; 100; 54; 52; 10; 83; 111; 117; 114; 99; 101; 58; 32; 115; 10; 65; 114; 99; 104; 105; 116; 101; 99; 116; 117; 114; 101; 58; 32; 97; 108; 108; 10; 86; 101; 114; 115; 105; 111; 110; 58; 32; 49; 10; 69; 110; 118; 105; 114; 111; 110; 109; 101; 110; 116; 58; 32; 35; 65; 61; 49; 10; 32; 33; 66; 61; 50; 10]%N.
(* 'Format: 1.0\nBuild-Architecture: amd64\nSource: s\nArchitecture: all\nVersion: 1\nEnvironment: #A=1\n !B=2\n' *)
Definition w_sig_hash_block : str := [84; 121; 112; 101; 115; 58; 32; 100; 101; 98; 10; 85; 82; 73; 115; 58; 32; 104; 116; 116; 112; 58; 47; 47; 120; 47; 10; 83; 117; 105; 116; 101; 115; 58; 32; 115; 10; 67; 111; 109; 112; 111; 110; 101; 110; 116; 115; 58; 32; 109; 97; 105; 110; 10; 65; 114; 99; 104; 105; 116; 101; 99; 116; 117; 114; 101; 115; 58; 32; 97; 109; 100; 54; 52; 10; 83; 105; 103; 110; 101; 100; 45; 66; 121; 58; 32; 35; 97; 98; 99; 10; 32; 100; 101; 102; 10]%N.
(* 'Types: deb\nURIs: http://x/\nSuites: s\nComponents: main\nArchitectures: amd64\nSigned-By: #abc\n def\n' *)
Definition ex_control_vcs : str := [83; 111; 117; 114; 99; 101; 58; 32; 115; 10; 80; 114; 105; 111; 114; 105; 116; 121; 58; 32; 111; 112; 116; 105; 111; 110; 97; 108; 10; 86; 99; 115; 45; 71; 105; 116; 58; 32; 104; 116; 116; 112; 115; 58; 47; 47; 120; 47; 121; 32; 45; 98; 32; 109; 97; 105; 110; 32; 91; 115; 117; 98; 93; 10; 10; 80; 97; 99; 107; 97; 103; 101; 58; 32; 112; 10; 77; 117; 108; 116; 105; 45; 65; 114; 99; 104; 58; 32; 115; 97; 109; 101; 10]%N.
(* 'Source: s\nPriority: optional\nVcs-Git: https://x/y -b main [sub]\n\nPackage: p\nMulti-Arch: same\n' *)
Definition ex_dep3_x : str := [79; 114; 105; 103; 105; 110; 58; 32; 118; 101; 110; 100; 111; 114; 10; 70; 111; 114; 119; 97; 114; 100; 101; 100; 58; 32; 110; 111; 116; 45; 110; 101; 101; 100; 101; 100; 10; 65; 112; 112; 108; 105; 101; 100; 45; 85; 112; 115; 116; 114; 101; 97; 109; 58; 32; 99; 111; 109; 109; 105; 116; 58; 97; 98; 99; 10; 68; 101; 115; 99; 114; 105; 112; 116; 105; 111; 110; 58; 32; 100; 10]%N.
(* 'Origin: vendor\nForwarded: not-needed\nApplied-Upstream: commit:abc\nDescription: d\n' *)
Definition ex_buildinfo_env : str := [70; 111; 114; 109; 97; 116; 58; 32; 49; 46; 48; 10; 66; 117; 105; 108; 100; 45; 65; 114; 99; 104; 105; 116; 101; 99; 116; 117; 114; 101; 58; 32; 97; 109; 100; 54; 52; 10; 83; 111; 117; 114; 99; 101; 58; 32; 115; 10; 65; 114; 99; 104; 105; 116; 101; 99; 116; 117; 114; 101; 58; 32; 97; 108; 108; 10; 86; 101; 114; 115; 105; 111; 110; 58; 32; 49; 10; 69; 110; 118; 105; 114; 111; 110; 109; 101; 110; 116; 58; 10; 32; 66; 61; 50; 10; 32; 65; 61; 49; 10; 32; 65; 61; 51; 10]%N.
(* 'Format: 1.0\nBuild-Architecture: amd64\nSource: s\nArchitecture: all\nVersion: 1\nEnvironment:\n B=2\n A=1\n A=3\n' *)
Definition t_vcs2 : str := [117; 32; 91; 97; 93; 32; 91; 98; 93]%N.
(* 'u [a] [b]' *)
Definition round_x (kind : N) (tbl : ext_table) (s : str) : option bool :=
  match y_run kind tbl s with
  | TOk o => Some (match y_run kind tbl (y_text o) with
                   | TOk o' => list_eqb xsval_eqb (y_vals o) (y_vals o') && str_eqb (y_text o) (y_text o')
                   | _ => false
                   end)
  | _ => None
  end.
Definition tb_v1 : ext_table := [((1%N, t_1), Some t_1)].
Definition tb_urls : ext_table := [((2%N, t_url), Some t_url)].

Theorem C20_vcs_second_group_needed :
  Known_vcs_second_group w_vcs_two_groups /\ round_x 0 [] w_vcs_two_groups = Some false.
Proof. split; [eexists; split; vm_compute; reflexivity|vm_compute; reflexivity]. Qed.
Check C20_vcs_second_group_needed :
  Known_vcs_second_group w_vcs_two_groups /\ round_x 0 [] w_vcs_two_groups = Some false.
Print Assumptions C20_vcs_second_group_needed.

Theorem C20_env_hash_line_needed :
  Known_env_hash_line w_env_hash_line /\ round_x 6 tb_v1 w_env_hash_line = Some false.
Proof. split; [eexists; split; vm_compute; reflexivity|vm_compute; reflexivity]. Qed.
Check C20_env_hash_line_needed :
  Known_env_hash_line w_env_hash_line /\ round_x 6 tb_v1 w_env_hash_line = Some false.
Print Assumptions C20_env_hash_line_needed.

Theorem C20_signature_hash_block_needed :
  Known_signature_hash_block w_sig_hash_block /\ round_x 8 tb_urls w_sig_hash_block = Some false.
Proof. split; [eexists; split; vm_compute; reflexivity|vm_compute; reflexivity]. Qed.
Check C20_signature_hash_block_needed :
  Known_signature_hash_block w_sig_hash_block /\ round_x 8 tb_urls w_sig_hash_block = Some false.
Print Assumptions C20_signature_hash_block_needed.

(* the UNGUARDED premise is false of C18's model of ParsedVcs: assuming ext_stable for codec 11 would have
   been assuming a falsehood about the code (this is what the audit found) *)
Theorem C20_ext_stable_vcs_refuted : ~ ext_stable (xval str) (xprint str table_print) (xparse str (table_parse [])) true [11%N].
Proof.
  intros H. assert (Hd : dom true t_vcs2) by (vm_compute; reflexivity).
  destruct (H 11%N t_vcs2 (XVcs {| Vcs.repo_url := [117; 32; 91; 98; 93]%N; Vcs.branch := None; Vcs.subpath := Some [97%N] |}) (or_introl eq_refl) eq_refl Hd) as [_ H2];
    [vm_compute; reflexivity|]. vm_compute in H2. discriminate.
Qed.
Check C20_ext_stable_vcs_refuted : ~ ext_stable (xval str) (xprint str table_print) (xparse str (table_parse [])) true [11%N].
Print Assumptions C20_ext_stable_vcs_refuted.

Example C20_ex_stable_x :
  round_x 0 [] ex_control_vcs = Some true /\ round_x 7 [] ex_dep3_x = Some true /\ round_x 6 tb_v1 ex_buildinfo_env = Some true /\
  round_x 1 [] ex_copyright = Some true /\ ~ Known_vcs_second_group ex_control_vcs.
Proof.
  split; [vm_compute; reflexivity|]. split; [vm_compute; reflexivity|]. split; [vm_compute; reflexivity|]. split; [vm_compute; reflexivity|].
  intros (t & Ht & Hf). vm_compute in Ht. injection Ht as <-. vm_compute in Hf. discriminate.
Qed.

(* Non-vacuity: accepted, non-trivial documents of the kinds (several paragraphs in any order,
   comments, several blank lines, multi-line values, fallbacks, a second paragraph ignored) are
   stable on the table instance; structurally invalid variants are rejected with the right error. *)
Example C20_ex_stable :
  round 0 [] ex_control = Some true /\ round 1 tb_license ex_copyright = Some true /\ round 2 [] ex_release = Some true /\
  round 5 [] ex_removal = Some true /\ round 7 [] ex_dep3 = Some true /\ round 8 tb_repo ex_repositories = Some true /\
  round 8 [] [] = Some true.
Proof. vm_compute. repeat split. Qed.
Example C20_ex_control_value :
  exists c, parse_control str (table_parse []) ex_control = TOk c /\ length (c_binaries c) = 2 /\
            ~ Known_files_hash_word ex_copyright /\ ~ Known_lossy_blank_last ex_release.
Proof.
  eexists. split; [vm_compute; reflexivity|]. split; [reflexivity|]. split.
  - intros (t & Ht & Hf). vm_compute in Ht. injection Ht as <-. vm_compute in Hf. discriminate.
  - intros (p & Hp & Hc). vm_compute in Hp. injection Hp as <-. vm_compute in Hc. discriminate.
Qed.
(* the narrowed lossy class: a blank line and a comment in the INTERIOR of a value are outside it, and stable *)
Example C20_ex_lossy_interior :
  round 2 [] ex_release_interior = Some true /\ ~ Known_lossy_blank_last ex_release_interior /\
  (exists p, lossy_paragraph_from_str ex_release_interior = Ok p /\ canon_para p = false /\ lcanon_para p = true).
Proof.
  split; [vm_compute; reflexivity|]. split.
  - intros (p & Hp & Hc). vm_compute in Hp. injection Hp as <-. vm_compute in Hc. discriminate.
  - eexists. split; [vm_compute; reflexivity|]. split; vm_compute; reflexivity.
Qed.
Example C20_ex_dep3_fallback :
  exists v, parse_dep3 str (table_parse []) ex_dep3 = TOk v /\ ~ Known_dep3_empty v /\
            print_dep3 str table_print v = Some [65; 117; 116; 104; 111; 114; 58; 32; 109; 101; 10; 68; 101; 115; 99; 114; 105; 112; 116; 105; 111; 110; 58; 32; 115; 117; 98; 106; 10; 32; 109; 111; 114; 101; 10]%N.
Proof. eexists. split; [vm_compute; reflexivity|]. split; [vm_compute; discriminate|vm_compute; reflexivity]. Qed.
Example C20_ex_reject :
  parse_control str (table_parse []) w_control_two_sources = TErr EManySource /\
  parse_control str (table_parse []) w_control_neither = TErr ENeither /\
  parse_control str (table_parse []) w_control_no_source = TErr ENoSource /\
  parse_control str (table_parse []) w_control_missing = TErr EManySource /\
  parse_copyright str (table_parse []) ex_control = TErr ENotMachineReadable /\
  parse_release str (table_parse []) ex_control = TErr ESyntax /\
  parse_removal str (table_parse []) [] = TErr ENoParas /\
  parse_removal str (table_parse []) w_dep3_empty = TErr (EField (Missing [68; 97; 116; 101]%N)).
Proof. vm_compute. repeat split. Qed.
