(* C07 — wrap-and-sort reformatting never changes content, keeps comments, is idempotent.
   Statements only.

   Deb822Wrap.v transcribes Entry/Paragraph/Deb822::wrap_and_sort, rebuild_value and the control
   wrappers of /repo over the tree model; [variant] says which of the eight repairs (six in /repo, C07-21 and C07-22 proposed)
   (proposed_fixes/C07-*.patch) are applied: [fixed] = all, [shipped] = none.  WrapSpec.v says what
   the reformatting does on the abstract layouts of Grammar.v/LiveDoc.v:
     rebuild_field / a_ws_field  one field   (the case analysis of rebuild_value)
     a_ws_items                  one paragraph: groups (comment lines, field) sorted stably, fields rebuilt
     a_ws_doc                    the document:  groups (comment lines, paragraph) sorted stably, blank
                                 lines dropped, one blank line between paragraphs, every line terminated
   The quantifier: every well-formed document (Grammar.wf_doc: comments before/inside/after
   paragraphs, multi-line values, duplicate names, any blank-line layout, optional final newline),
   every indentation of at least one column or FieldNameLength, either empty-first-line setting,
   every one-line limit, every pair of comparators that depend only on names and values.

   WHAT THE STATEMENTS ARE COMPARED WITH (audit of cone-c07c).  All vocabulary of the statements is
   in coq/model (WrapSpec.v, WrapSpecInst.v, ControlSpec.v, WrapTokSpec.v, XGrammar.v, XWrapSpec.v);
   none of it is defined in a proof file.
   * Against an INDEPENDENT specification: sections 1-10 and 15 (Grammar.v's documents: the layout
     functions of WrapSpec.v -- rebuild_field, a_ws_items, a_ws_doc -- are written from the
     documentation, not from the code; content as lists of pairs; the reader model for the re-read);
     section 13 (the reader against XGrammar.v); of section 14: the re-read, indentation, empty-line
     and termination clauses (XGrammar.v / XWrapSpec.v), C07_error_free_field (XWrapSpec.x_ws_field),
     C07_error_free_content and C07_error_free_paragraph (grouping + the caller's comparators +
     reported pairs only).
   * RESTATING THE MODEL: sections 11-12 and the first clause of section 14 say "no panic, and the
     result is entry_out / p_out / d_out" -- WrapTokSpec.v part B, closed forms that call
     Deb822Wrap.rebuild_value; where comment lines end up for a document outside Grammar.v is
     visible only there (and checked by the oracle).  "A second application returns the same tree"
     is a statement about the model function itself.
   * NOT theorems (streams + oracle only; docs/cones/C07.md "What remains"): a second application
     to the tree RE-READ from the printed text (record field t2p); Deb822::wrap_and_sort WITHOUT a
     paragraph function (wrap_and_sort_paragraph = None: std_ws always passes one);
     formatters on documents outside Grammar.v; relationship fields outside C13's domain.
   * Comparators: [cmp_consistent] (WrapSpec.v) asks only that a b and b a are not both Gt;
     Vec::sort_by additionally requires a total order (transitivity) and may panic or return any
     order without it.  The theorems hold for the model's stable insertion sort under the weaker
     premise; that the model's sort IS the code's sort is the assumption "comparators are total
     preorders" (c07.py assumptions), under which every stable sort gives the same result. *)
From V.model Require Import Base Deb822Lex Deb822Parse Grammar Lossy LossySpec Deb822Edit LiveDoc Deb822Wrap WrapSpec ControlSpec XGrammar XWrapSpec.
From V.model Require RelAcc RelGrammar RelWrap RelWrapSpec.
From V.proofs Require Import LiveDocP Deb822WrapP Deb822WrapInstP ControlWrapP WrapTokP ParseTokP ParseImageP XWrapP.

(* ---------------------------------------------------------------- the property *)
(* 1. All clauses, for the repaired code, without a formatter (C07_full is in WrapSpec.v). *)
Theorem C07_holds : C07_full fixed.
Proof. exact C07_full_fixed. Qed.
Check C07_holds : C07_full fixed.
Print Assumptions C07_holds.

(* 2. The code as shipped violates it, and so does the code lacking any one of the repairs that the
      formatter-free statement can see. *)
Theorem C07_shipped_refuted : ~ C07_full shipped.
Proof. exact C07_shipped_refuted_proof. Qed.
Check C07_shipped_refuted : ~ C07_full shipped.
Print Assumptions C07_shipped_refuted.

Theorem C07_repairs_needed : ~ C07_full no_para_nl /\ ~ C07_full no_doc_lines /\ ~ C07_full no_hash.
Proof. exact (conj C07_no_para_nl_refuted_proof (conj C07_no_doc_lines_refuted_proof C07_no_hash_refuted_proof)). Qed.
Check C07_repairs_needed : ~ C07_full no_para_nl /\ ~ C07_full no_doc_lines /\ ~ C07_full no_hash.
Print Assumptions C07_repairs_needed.

(* the failing inputs (DESIGN §5 rows 8, 9 and the '#' first line found by this cone) *)
Theorem C07_shipped_witnesses :
  reread_differs shipped W.c1 None W.d_comment /\          (* "A: b\n# c\nB: c\n" -> "A: b\n# cB: c\n" *)
  second_differs shipped W.c1 None W.d_top_comment /\     (* "# c\nA: b\n": the second pass prints "# cA: b\n" *)
  reread_differs shipped W.c1e None W.d_hash.             (* "A: #x\n b\n" with an immediate empty line: "#x" becomes a comment *)
Proof. exact (conj shipped_comment_swallows (conj shipped_second_pass_fuses shipped_hash_line_lost)). Qed.
Check C07_shipped_witnesses :
  reread_differs shipped W.c1 None W.d_comment /\ second_differs shipped W.c1 None W.d_top_comment /\
  reread_differs shipped W.c1e None W.d_hash.
Print Assumptions C07_shipped_witnesses.

(* a paragraph whose last line is unterminated ("B: z\n\nA: d"), moved by the sort: fused with the
   next one by the shipped code and by the code lacking that repair, kept apart by the repaired code *)
Theorem C07_moved_paragraph :
  (exists t1 t', sort_only shipped (Some by_first_value) (tree_of W.d_unterminated) = Ok t1 /\
                 from_str (text t1) = Ok t' /\ length (doc_items t1) = 2 /\ length (doc_items t') = 1) /\
  (exists t1 t', sort_only no_terminate (Some by_first_value) (tree_of W.d_unterminated) = Ok t1 /\
                 from_str (text t1) = Ok t' /\ length (doc_items t1) = 2 /\ length (doc_items t') = 1) /\
  (exists t1 t', sort_only fixed (Some by_first_value) (tree_of W.d_unterminated) = Ok t1 /\
                 from_str (text t1) = Ok t' /\ doc_items t' = doc_items t1 /\ length (doc_items t1) = 2).
Proof. exact (conj shipped_moved_paragraph_fused (conj no_terminate_moved_paragraph_fused fixed_moved_paragraph_kept)). Qed.
Check C07_moved_paragraph :
  (exists t1 t', sort_only shipped (Some by_first_value) (tree_of W.d_unterminated) = Ok t1 /\
                 from_str (text t1) = Ok t' /\ length (doc_items t1) = 2 /\ length (doc_items t') = 1) /\
  (exists t1 t', sort_only no_terminate (Some by_first_value) (tree_of W.d_unterminated) = Ok t1 /\
                 from_str (text t1) = Ok t' /\ length (doc_items t1) = 2 /\ length (doc_items t') = 1) /\
  (exists t1 t', sort_only fixed (Some by_first_value) (tree_of W.d_unterminated) = Ok t1 /\
                 from_str (text t1) = Ok t' /\ doc_items t' = doc_items t1 /\ length (doc_items t1) = 2).
Print Assumptions C07_moved_paragraph.

(* DESIGN §5 row 28: "A: b;B: c" through a formatter that turns ';' into a line break: the shipped
   code lexes the continuation line "B: c" as KEY COLON WHITESPACE VALUE, so the returned object
   reports "b\nc"; the repaired code reports the formatter's output.  Row 10: the misspelt name. *)
Theorem C07_formatter_lines :
  fmt_reports shipped = Ok W.semi_lexed /\ fmt_reports no_fmt_lines = Ok W.semi_lexed /\ fmt_reports fixed = Ok W.semi_lines.
Proof. exact (conj shipped_formatter_lines (conj no_fmt_lines_formatter_lines fixed_formatter_lines)). Qed.
Check C07_formatter_lines :
  fmt_reports shipped = Ok W.semi_lexed /\ fmt_reports no_fmt_lines = Ok W.semi_lexed /\ fmt_reports fixed = Ok W.semi_lines.
Print Assumptions C07_formatter_lines.

Theorem C07_build_conflicts_arch : forall rel v,
  format_field shipped rel W.bca v = Ok v /\ format_field fixed rel W.bca v = rel v.
Proof. intros rel v. exact (conj (shipped_typo rel v) (fixed_typo rel v)). Qed.
Check C07_build_conflicts_arch : forall rel v,
  format_field shipped rel W.bca v = Ok v /\ format_field fixed rel W.bca v = rel v.
Print Assumptions C07_build_conflicts_arch.

(* ---------------------------------------------------------------- level by level *)
(* 3. rebuild_value: on the value tokens (whitespace, first line, NEWLINE/VALUE pairs) of any value
      whose continuation lines are not empty it builds exactly the layout WrapSpec.rebuild_field
      describes (one-liner left alone | first line kept on the field's line | moved below it). *)
Theorem C07_rebuild_value : forall c name w first conts, forallb nonempty_line conts = true ->
  [Tok KEY name; Tok COLON [58%N]]
    ++ rebuild_value fixed (triple_toks w first conts) (utf8_size name) (width c name) (c_iel c) (c_mll c)
  = children (field_tree (rebuild_field c name w first conts)).
Proof. exact rebuild_triple. Qed.
Check C07_rebuild_value : forall c name w first conts, forallb nonempty_line conts = true ->
  [Tok KEY name; Tok COLON [58%N]]
    ++ rebuild_value fixed (triple_toks w first conts) (utf8_size name) (width c name) (c_iel c) (c_mll c)
  = children (field_tree (rebuild_field c name w first conts)).
Print Assumptions C07_rebuild_value.

(* 4. Entry::wrap_and_sort on every well-formed field, with or without a formatter whose output is
      shaped (WrapSpec.shaped): it does not panic, builds the tree of a_ws_field, which has the
      same name and the value it had / exactly the lines of the formatter's output, is a
      well-formed terminated field, and has every continuation line indented by the requested width. *)
Theorem C07_entry : forall c fmt f m,
  ind_ok c = true -> wf_field f m = true -> fmt_shaped_on fmt f = true ->
  entry_ws fixed (c_ind c) (c_iel c) (c_mll c) (option_map pure_fmt fmt) (field_tree f)
    = Ok (field_tree (a_ws_field c fmt f)) /\
  field_pair (a_ws_field c fmt f) = a_pair fmt f /\
  wf_field (a_ws_field c fmt f) true = true /\
  field_indented c (a_ws_field c fmt f) = true.
Proof.
  intros c fmt f m Hi Hwf Hs. destruct (wf_field_ok fmt f m Hwf Hs) as (Hn & Hc & Hl).
  split; [apply entry_ws_field; assumption|]. split; [apply a_ws_field_pair; assumption|].
  split; [apply (wf_a_ws_field c fmt f m true Hi Hwf Hs)|apply a_ws_field_indented].
Qed.
Check C07_entry : forall c fmt f m,
  ind_ok c = true -> wf_field f m = true -> fmt_shaped_on fmt f = true ->
  entry_ws fixed (c_ind c) (c_iel c) (c_mll c) (option_map pure_fmt fmt) (field_tree f)
    = Ok (field_tree (a_ws_field c fmt f)) /\
  field_pair (a_ws_field c fmt f) = a_pair fmt f /\
  wf_field (a_ws_field c fmt f) true = true /\
  field_indented c (a_ws_field c fmt f) = true.
Print Assumptions C07_entry.

(* ... and a second application changes nothing (no formatter) *)
Theorem C07_entry_idem : forall c f m, ind_ok c = true -> wf_field f m = true ->
  entry_ws fixed (c_ind c) (c_iel c) (c_mll c) None (field_tree (a_ws_field c None f))
    = Ok (field_tree (a_ws_field c None f)).
Proof.
  intros c f m Hi Hwf. destruct (wf_field_ok None f m Hwf eq_refl) as (Hn & Hc & _).
  pose proof (wf_a_ws_field c None f m true Hi Hwf eq_refl) as Hwf'.
  destruct (wf_field_ok None _ true Hwf' eq_refl) as (Hn' & Hc' & _).
  change (@None (str -> str -> res str)) with (option_map pure_fmt None).
  rewrite (entry_ws_field c None (a_ws_field c None f) Hi Hn' Hc' I), (a_ws_field_idem_nofmt c f Hc). reflexivity.
Qed.
Check C07_entry_idem : forall c f m, ind_ok c = true -> wf_field f m = true ->
  entry_ws fixed (c_ind c) (c_iel c) (c_mll c) None (field_tree (a_ws_field c None f))
    = Ok (field_tree (a_ws_field c None f)).
Print Assumptions C07_entry_idem.

(* an indentation of zero columns is the assert!: every variant panics on every field *)
Theorem C07_zero_indent_panics : forall V f iel mll fmt, entry_ws V (Spaces 0) iel mll fmt (field_tree f) = Panic 3.
Proof. exact zero_indent_panics. Qed.
Check C07_zero_indent_panics : forall V f iel mll fmt, entry_ws V (Spaces 0) iel mll fmt (field_tree f) = Panic 3.
Print Assumptions C07_zero_indent_panics.

(* 5. Paragraph::wrap_and_sort on every well-formed paragraph (any items: fields and comment lines
      in any order): the tree of a_ws_items; by its definition the groups "comment lines in front
      of a field + that field" are kept as units, sorted stably by the fields' (name, value), the
      comment lines after the last field stay last; the content is the sorted, formatted content;
      the result is well-formed and indented. *)
Theorem C07_paragraph : forall c esort ecmp fmt its more,
  ind_ok c = true -> ecmp_agrees esort ecmp -> wf_items its more = true -> items_shaped fmt its ->
  para_ws fixed (c_ind c) (c_iel c) (c_mll c) esort (option_map pure_fmt fmt) (lblock_tree (LPara its))
    = Ok (lblock_tree (LPara (a_ws_items c ecmp fmt its))) /\
  a_ws_items c ecmp fmt its =
    ungroup (map (fun g => (fst g, a_ws_field c fmt (snd g)))
                 (sort_opt (option_map on_field ecmp) (fst (group_items its [])))) (snd (group_items its [])) /\
  flat_map item_pairs (a_ws_items c ecmp fmt its) = spec_para ecmp fmt its /\
  wf_items (a_ws_items c ecmp fmt its) more = true /\
  items_indented c (a_ws_items c ecmp fmt its) = true.
Proof.
  intros c esort ecmp fmt its more Hi He Hwf Hs.
  assert (Hok : items_ok fmt its).
  { intros f Hf. destruct (LiveDocP.wf_items_In its more f Hwf Hf) as [m Hm]. apply (wf_field_ok fmt f m Hm (Hs f Hf)). }
  split; [apply para_ws_items; assumption|]. split; [unfold a_ws_items; destruct (group_items its []); reflexivity|].
  split; [apply a_ws_items_pairs; exact Hok|]. split; [apply wf_a_ws_items; assumption|apply a_ws_items_indented].
Qed.
Check C07_paragraph : forall c esort ecmp fmt its more,
  ind_ok c = true -> ecmp_agrees esort ecmp -> wf_items its more = true -> items_shaped fmt its ->
  para_ws fixed (c_ind c) (c_iel c) (c_mll c) esort (option_map pure_fmt fmt) (lblock_tree (LPara its))
    = Ok (lblock_tree (LPara (a_ws_items c ecmp fmt its))) /\
  a_ws_items c ecmp fmt its =
    ungroup (map (fun g => (fst g, a_ws_field c fmt (snd g)))
                 (sort_opt (option_map on_field ecmp) (fst (group_items its [])))) (snd (group_items its [])) /\
  flat_map item_pairs (a_ws_items c ecmp fmt its) = spec_para ecmp fmt its /\
  wf_items (a_ws_items c ecmp fmt its) more = true /\
  items_indented c (a_ws_items c ecmp fmt its) = true.
Print Assumptions C07_paragraph.

(* ... idempotent (no formatter) for every consistent comparator *)
Theorem C07_paragraph_idem : forall c ecmp its more, wf_items its more = true -> pair_cmp_consistent ecmp ->
  a_ws_items c ecmp None (a_ws_items c ecmp None its) = a_ws_items c ecmp None its.
Proof.
  intros c ecmp its more Hwf Hc. apply a_ws_items_idem; [exact Hc| |].
  - intros f Hf. destruct (LiveDocP.wf_items_In its more f Hwf Hf) as [m Hm]. apply field_stable_nofmt.
    apply (wf_field_ok None f m Hm eq_refl).
  - intros f g _ _. destruct ecmp; [reflexivity|exact I].
Qed.
Check C07_paragraph_idem : forall c ecmp its more, wf_items its more = true -> pair_cmp_consistent ecmp ->
  a_ws_items c ecmp None (a_ws_items c ecmp None its) = a_ws_items c ecmp None its.
Print Assumptions C07_paragraph_idem.

(* 6. With a formatter whose output is shaped on the document's fields: no panic, the tree of the
      described layout, the returned object reports the fields sorted by the (name, value) they had
      with exactly the lines of the formatter's output as values, the printed result parses
      strictly and re-reads to that, indentation and separation as requested. *)
Theorem C07_formatter : forall c psort pcmp esort ecmp g d,
  ind_ok c = true -> pcmp_agrees psort pcmp -> ecmp_agrees esort ecmp -> wf_doc d = true ->
  doc_shaped (Some g) (lift d) ->
  let l1 := a_ws_doc pcmp (a_ws_items c ecmp (Some g)) (lift d) in
  std_ws fixed c psort esort (Some (pure_fmt g)) (tree_of d) = Ok (ltree_of l1) /\
  doc_items (ltree_of l1) = map (spec_para ecmp (Some g)) (sort_opt (option_map on_items pcmp) (paras_of (lift d))) /\
  (exists t', from_str (text (ltree_of l1)) = Ok t' /\ doc_items t' = doc_items (ltree_of l1)) /\
  doc_indented c l1 = true /\ single_blanks SepStart l1 = true.
Proof. exact formatter_proof. Qed.
Check C07_formatter : forall c psort pcmp esort ecmp g d,
  ind_ok c = true -> pcmp_agrees psort pcmp -> ecmp_agrees esort ecmp -> wf_doc d = true ->
  doc_shaped (Some g) (lift d) ->
  let l1 := a_ws_doc pcmp (a_ws_items c ecmp (Some g)) (lift d) in
  std_ws fixed c psort esort (Some (pure_fmt g)) (tree_of d) = Ok (ltree_of l1) /\
  doc_items (ltree_of l1) = map (spec_para ecmp (Some g)) (sort_opt (option_map on_items pcmp) (paras_of (lift d))) /\
  (exists t', from_str (text (ltree_of l1)) = Ok t' /\ doc_items t' = doc_items (ltree_of l1)) /\
  doc_indented c l1 = true /\ single_blanks SepStart l1 = true.
Print Assumptions C07_formatter.

(* ... a second application changes nothing when a second application of the field step changes
   nothing (stable_on) and the comparators do not see what is rewritten *)
Theorem C07_formatter_idem : forall c psort pcmp esort ecmp g d,
  ind_ok c = true -> pcmp_agrees psort pcmp -> ecmp_agrees esort ecmp -> wf_doc d = true ->
  doc_shaped (Some g) (lift d) -> stable_on c (Some g) (lift d) ->
  pair_cmp_consistent ecmp -> para_cmp_consistent pcmp ->
  ecmp_invariant_on ecmp (Some g) (lift d) -> pcmp_invariant_on pcmp ecmp (Some g) (lift d) ->
  let l1 := a_ws_doc pcmp (a_ws_items c ecmp (Some g)) (lift d) in
  std_ws fixed c psort esort (Some (pure_fmt g)) (ltree_of l1) = Ok (ltree_of l1).
Proof. exact formatter_idem_proof. Qed.
Check C07_formatter_idem : forall c psort pcmp esort ecmp g d,
  ind_ok c = true -> pcmp_agrees psort pcmp -> ecmp_agrees esort ecmp -> wf_doc d = true ->
  doc_shaped (Some g) (lift d) -> stable_on c (Some g) (lift d) ->
  pair_cmp_consistent ecmp -> para_cmp_consistent pcmp ->
  ecmp_invariant_on ecmp (Some g) (lift d) -> pcmp_invariant_on pcmp ecmp (Some g) (lift d) ->
  let l1 := a_ws_doc pcmp (a_ws_items c ecmp (Some g)) (lift d) in
  std_ws fixed c psort esort (Some (pure_fmt g)) (ltree_of l1) = Ok (ltree_of l1).
Print Assumptions C07_formatter_idem.

(* ... which the identity formatter meets on every well-formed document: it does what no formatter does *)
Theorem C07_identity_formatter : forall c psort pcmp esort ecmp d,
  ind_ok c = true -> pcmp_agrees psort pcmp -> ecmp_agrees esort ecmp ->
  pair_cmp_consistent ecmp -> para_cmp_consistent pcmp ->
  (forall a b, match pcmp with Some p => p (sort_opt ecmp a) (sort_opt ecmp b) = p a b | None => True end) ->
  wf_doc d = true ->
  let l1 := a_ws_doc pcmp (a_ws_items c ecmp None) (lift d) in
  std_ws fixed c psort esort (Some (pure_fmt fmt_id)) (tree_of d) = Ok (ltree_of l1) /\
  std_ws fixed c psort esort (Some (pure_fmt fmt_id)) (ltree_of l1) = Ok (ltree_of l1).
Proof. exact identity_formatter_proof. Qed.
Check C07_identity_formatter : forall c psort pcmp esort ecmp d,
  ind_ok c = true -> pcmp_agrees psort pcmp -> ecmp_agrees esort ecmp ->
  pair_cmp_consistent ecmp -> para_cmp_consistent pcmp ->
  (forall a b, match pcmp with Some p => p (sort_opt ecmp a) (sort_opt ecmp b) = p a b | None => True end) ->
  wf_doc d = true ->
  let l1 := a_ws_doc pcmp (a_ws_items c ecmp None) (lift d) in
  std_ws fixed c psort esort (Some (pure_fmt fmt_id)) (tree_of d) = Ok (ltree_of l1) /\
  std_ws fixed c psort esort (Some (pure_fmt fmt_id)) (ltree_of l1) = Ok (ltree_of l1).
Print Assumptions C07_identity_formatter.

(* ... and so does every formatter that absorbs the re-layout (same output when its own output comes
   back with a blank or a line break in front; never starts with one), with comparators on names:
   the Uploaders formatter of format_field (split at ',', trim, join with ",\n") is one *)
Theorem C07_absorbing_formatter_idem : forall c psort pcmp esort ecmp g d,
  ind_ok c = true -> pcmp_agrees psort pcmp -> ecmp_agrees esort ecmp -> wf_doc d = true ->
  doc_shaped (Some g) (lift d) -> absorbing g -> no_lead g ->
  pair_cmp_consistent ecmp -> para_cmp_consistent pcmp ->
  match ecmp with Some e => forall a b a' b', fst a = fst a' -> fst b = fst b' -> e a b = e a' b' | None => True end ->
  pcmp_invariant_on pcmp ecmp (Some g) (lift d) ->
  let l1 := a_ws_doc pcmp (a_ws_items c ecmp (Some g)) (lift d) in
  std_ws fixed c psort esort (Some (pure_fmt g)) (ltree_of l1) = Ok (ltree_of l1).
Proof. exact absorbing_idem_proof. Qed.
Check C07_absorbing_formatter_idem : forall c psort pcmp esort ecmp g d,
  ind_ok c = true -> pcmp_agrees psort pcmp -> ecmp_agrees esort ecmp -> wf_doc d = true ->
  doc_shaped (Some g) (lift d) -> absorbing g -> no_lead g ->
  pair_cmp_consistent ecmp -> para_cmp_consistent pcmp ->
  match ecmp with Some e => forall a b a' b', fst a = fst a' -> fst b = fst b' -> e a b = e a' b' | None => True end ->
  pcmp_invariant_on pcmp ecmp (Some g) (lift d) ->
  let l1 := a_ws_doc pcmp (a_ws_items c ecmp (Some g)) (lift d) in
  std_ws fixed c psort esort (Some (pure_fmt g)) (ltree_of l1) = Ok (ltree_of l1).
Print Assumptions C07_absorbing_formatter_idem.

(* the Uploaders arm of format_field as shipped (the streams' test formatter 'u') and with C07-21 *)
Theorem C07_uploaders_absorbing :
  (absorbing (fun _ v => fmt_uploaders v) /\ no_lead (fun _ v => fmt_uploaders v)) /\
  (absorbing (fun _ v => fmt_uploaders_h v) /\ no_lead (fun _ v => fmt_uploaders_h v)).
Proof. exact (conj (conj uploaders_absorbing uploaders_no_lead) (conj uploaders_h_absorbing uploaders_h_no_lead)). Qed.
Check C07_uploaders_absorbing :
  (absorbing (fun _ v => fmt_uploaders v) /\ no_lead (fun _ v => fmt_uploaders v)) /\
  (absorbing (fun _ v => fmt_uploaders_h v) /\ no_lead (fun _ v => fmt_uploaders_h v)).
Print Assumptions C07_uploaders_absorbing.

(* a shaped output lexes (line by line) to the tokens of the value it is read as *)
Theorem C07_formatter_tokens : forall w first conts,
  ws_ok w = true -> first_ok first = true -> forallb canon_cont conts = true ->
  fmt_tokens fixed (value_text w first conts) = Ok (triple_toks w first conts) /\
  parse_value (value_text w first conts) = (w, first, conts).
Proof. intros w first conts Hw Hf Hc. exact (conj (fmt_tokens_value_text w first conts Hw Hf Hc) (parse_value_of_text w first conts Hw Hf Hc)). Qed.
Check C07_formatter_tokens : forall w first conts,
  ws_ok w = true -> first_ok first = true -> forallb canon_cont conts = true ->
  fmt_tokens fixed (value_text w first conts) = Ok (triple_toks w first conts) /\
  parse_value (value_text w first conts) = (w, first, conts).
Print Assumptions C07_formatter_tokens.

(* 7. The comparators the streams (and Control::wrap_and_sort) use meet the hypotheses. *)
Theorem C07_comparators :
  (ecmp_agrees (Some by_name) (Some name_cmp) /\ pair_cmp_consistent (Some name_cmp)) /\
  (pcmp_agrees (Some by_first_value) (Some first_value_cmp) /\ para_cmp_consistent (Some first_value_cmp)) /\
  (pcmp_agrees (Some control_order) (Some control_cmp) /\ para_cmp_consistent (Some control_cmp)).
Proof.
  exact (conj (conj by_name_agrees name_cmp_consistent)
        (conj (conj by_first_value_agrees first_value_cmp_consistent) (conj control_order_agrees control_cmp_consistent))).
Qed.
Check C07_comparators :
  (ecmp_agrees (Some by_name) (Some name_cmp) /\ pair_cmp_consistent (Some name_cmp)) /\
  (pcmp_agrees (Some by_first_value) (Some first_value_cmp) /\ para_cmp_consistent (Some first_value_cmp)) /\
  (pcmp_agrees (Some control_order) (Some control_cmp) /\ para_cmp_consistent (Some control_cmp)).
Print Assumptions C07_comparators.

(* 8. The control-file wrappers.  Control::wrap_and_sort IS the deb822-level reformatting in control
      order, without a field sort, with the control formatter (Uploaders: split at ',', trim, join
      with ",\n" -- with ", " in front of a piece that starts with '#', C07-21 --; the twelve
      relationship fields: the relations cone's formatter r; others: as they are) -- so
      C07_formatter / C07_formatter_idem speak about it wherever ctl_fmt r is shaped.
      The relations formatter is a parameter.  When the relations parser rejects the value
      (Panic 20: the assert! of format_field) the shipped wrapper panics on an error-free deb822
      document; with C07-22 the field is left as it is (C07_control_unparsable_relation_kept: for
      every relationship field name and every value C13's model rejects, and the document of the
      audit).  C07_uploaders_hash_piece: without C07-21 "Uploaders: A <a@x>, #B <b@x>" is printed with
      "#B <b@x>" on a line of its own -- the object reports two lines, the text re-reads to one. *)
Theorem C07_control : forall c r t,
  control_ws fixed (fun x => Ok (r x)) (c_ind c) (c_iel c) (c_mll c) t
  = std_ws fixed c (Some control_order) None (Some (pure_fmt (ctl_fmt r))) t.
Proof. exact control_ws_is_std. Qed.
Check C07_control : forall c r t,
  control_ws fixed (fun x => Ok (r x)) (c_ind c) (c_iel c) (c_mll c) t
  = std_ws fixed c (Some control_order) None (Some (pure_fmt (ctl_fmt r))) t.
Print Assumptions C07_control.

Theorem C07_control_unparsable_relation_panics :
  control_ws no_rel_keep (fun _ => Panic 20) (Spaces 1) false None (tree_of WC.d_bad_relation) = Panic 20.
Proof. exact control_unparsable_relation_panics. Qed.
Check C07_control_unparsable_relation_panics :
  control_ws no_rel_keep (fun _ => Panic 20) (Spaces 1) false None (tree_of WC.d_bad_relation) = Panic 20.
Print Assumptions C07_control_unparsable_relation_panics.

Theorem C07_control_unparsable_relation_kept :
  (forall name v, str_eqb name Lit.k_Uploaders = false -> is_rel_field name = true ->
     RelWrap.ctl_rel RelWrap.fixed v = Panic 20 -> real_format_field name v = Ok v) /\
  control_ws fixed (fun _ => Panic 20) (Spaces 1) false None (tree_of WC.d_bad_relation) = Ok (tree_of WC.d_bad_relation).
Proof. exact (conj real_ff_unparsable control_unparsable_relation_kept_ex). Qed.
Check C07_control_unparsable_relation_kept :
  (forall name v, str_eqb name Lit.k_Uploaders = false -> is_rel_field name = true ->
     RelWrap.ctl_rel RelWrap.fixed v = Panic 20 -> real_format_field name v = Ok v) /\
  control_ws fixed (fun _ => Panic 20) (Spaces 1) false None (tree_of WC.d_bad_relation) = Ok (tree_of WC.d_bad_relation).
Print Assumptions C07_control_unparsable_relation_kept.

Theorem C07_uploaders_hash_piece :
  ctl_reports no_upl_hash WC.d_upl_hash = Ok (WC.upl_hash_reported, Ok WC.upl_hash_reread) /\
  ctl_reports fixed WC.d_upl_hash = Ok (WC.upl_hash_kept, Ok WC.upl_hash_kept).
Proof. exact uploaders_hash_piece. Qed.
Check C07_uploaders_hash_piece :
  ctl_reports no_upl_hash WC.d_upl_hash = Ok (WC.upl_hash_reported, Ok WC.upl_hash_reread) /\
  ctl_reports fixed WC.d_upl_hash = Ok (WC.upl_hash_kept, Ok WC.upl_hash_kept).
Print Assumptions C07_uploaders_hash_piece.

(* 9. The control-file wrappers with the REAL relations branch (no parameter): format_field with
      C13's model of parse_relaxed(v, true) + Relations::wrap_and_sort + to_string in it
      (ControlSpec.real_format_field), on every control file whose relationship fields (the twelve
      names) hold a well-formed relationship field of C10's grammar in C13's safe domain and whose
      Uploaders fields have no empty piece (ControlSpec.ctl_doc_ok); every other field is arbitrary.
      Control::wrap_and_sort: no panic; the tree of the described layout (paragraphs in control
      order, stably; comment lines in front of the same field / paragraph); every field reports its
      name with the formatter's output (the canonical single-line relation text of C13, the Uploaders
      pieces one per line, otherwise the value it had); the printed result parses strictly and
      re-reads to that; indentation; one blank line between paragraphs; a second application returns
      the same tree (C13_idem inside: the relations formatter maps its own output, behind any blanks
      or line breaks, to itself). *)
Theorem C07_control_real : forall c d, ind_ok c = true -> wf_doc d = true -> ctl_doc_ok (lift d) ->
  let l1 := a_ws_doc (Some control_cmp) (a_ws_items c None (Some ctl_total)) (lift d) in
  real_control_ws c (tree_of d) = Ok (ltree_of l1) /\
  doc_items (ltree_of l1) = map (fun its => map (a_pair (Some ctl_total)) (fields_of its))
                                (sort_by (on_items control_cmp) (paras_of (lift d))) /\
  (exists t', from_str (text (ltree_of l1)) = Ok t' /\ doc_items t' = doc_items (ltree_of l1)) /\
  doc_indented c l1 = true /\ single_blanks SepStart l1 = true /\
  real_control_ws c (ltree_of l1) = Ok (ltree_of l1).
Proof. exact real_control_proof. Qed.
Check C07_control_real : forall c d, ind_ok c = true -> wf_doc d = true -> ctl_doc_ok (lift d) ->
  let l1 := a_ws_doc (Some control_cmp) (a_ws_items c None (Some ctl_total)) (lift d) in
  real_control_ws c (tree_of d) = Ok (ltree_of l1) /\
  doc_items (ltree_of l1) = map (fun its => map (a_pair (Some ctl_total)) (fields_of its))
                                (sort_by (on_items control_cmp) (paras_of (lift d))) /\
  (exists t', from_str (text (ltree_of l1)) = Ok t' /\ doc_items t' = doc_items (ltree_of l1)) /\
  doc_indented c l1 = true /\ single_blanks SepStart l1 = true /\
  real_control_ws c (ltree_of l1) = Ok (ltree_of l1).
Print Assumptions C07_control_real.

(* Source::wrap_and_sort / Binary::wrap_and_sort (ControlSpec.real_control_para_ws = Paragraph::
   wrap_and_sort without a field sort, with format_field): on every well-formed paragraph of such
   a control file -- fields and comment lines in any order --: no panic; the paragraph of
   a_ws_items (fields in their order, comment lines in front of the same field); every field
   reports its name with the formatter's output; well-formed; indented; a second application
   returns the same paragraph. *)
Theorem C07_source_binary : forall c its more, ind_ok c = true -> wf_items its more = true -> ctl_items_ok its ->
  let its1 := a_ws_items c None (Some ctl_total) its in
  real_control_para_ws c (lblock_tree (LPara its)) = Ok (lblock_tree (LPara its1)) /\
  flat_map item_pairs its1 = map (a_pair (Some ctl_total)) (fields_of its) /\
  wf_items its1 more = true /\ items_indented c its1 = true /\
  real_control_para_ws c (lblock_tree (LPara its1)) = Ok (lblock_tree (LPara its1)).
Proof. exact real_para_proof. Qed.
Check C07_source_binary : forall c its more, ind_ok c = true -> wf_items its more = true -> ctl_items_ok its ->
  let its1 := a_ws_items c None (Some ctl_total) its in
  real_control_para_ws c (lblock_tree (LPara its)) = Ok (lblock_tree (LPara its1)) /\
  flat_map item_pairs its1 = map (a_pair (Some ctl_total)) (fields_of its) /\
  wf_items its1 more = true /\ items_indented c its1 = true /\
  real_control_para_ws c (lblock_tree (LPara its1)) = Ok (lblock_tree (LPara its1)).
Print Assumptions C07_source_binary.

(* what the formatter does to one field of such a file: it answers (no panic), its output is shaped
   (the relation text is ONE line without CR and without a blank in front), and it answers the
   same on the re-laid-out field *)
Theorem C07_control_field : forall c f m, ind_ok c = true -> wf_field f m = true -> ctl_field_ok f -> field_facts c f.
Proof. exact ctl_field_facts. Qed.
Check C07_control_field : forall c f m, ind_ok c = true -> wf_field f m = true -> ctl_field_ok f -> field_facts c f.
Print Assumptions C07_control_field.

Theorem C07_relation_formatter : forall rf, RelGrammar.wf_rfield true rf = true -> RelWrapSpec.field_safe rf = true ->
  let o := text (RelWrapGrammarP.ws_tree rf) in
  real_rel (RelGrammar.rrender rf) = Ok o /\
  (forall lead, forallb lead_char lead = true -> real_rel (lead ++ o) = Ok o) /\
  no_eol o = true /\ match o with [] => True | ch :: _ => is_indent ch = false end.
Proof. exact real_rel_field. Qed.
Check C07_relation_formatter : forall rf, RelGrammar.wf_rfield true rf = true -> RelWrapSpec.field_safe rf = true ->
  let o := text (RelWrapGrammarP.ws_tree rf) in
  real_rel (RelGrammar.rrender rf) = Ok o /\
  (forall lead, forallb lead_char lead = true -> real_rel (lead ++ o) = Ok o) /\
  no_eol o = true /\ match o with [] => True | ch :: _ => is_indent ch = false end.
Print Assumptions C07_relation_formatter.

(* 10. Idempotence with ANY formatter: it holds whenever the formatter absorbs the re-layout on the
       document at hand (ControlWrapP.absorbs_on: on every field its output does not start with a
       blank or line break and comes back unchanged when fed back behind blanks / line breaks --
       which is all the re-layout adds) and the comparators do not see what is rewritten.  Something
       of the kind is needed: the formatter that appends "!" is shaped and appends another "!" on
       every application. *)
Theorem C07_formatter_idem_absorbs : forall c psort pcmp esort ecmp g d,
  ind_ok c = true -> pcmp_agrees psort pcmp -> ecmp_agrees esort ecmp -> wf_doc d = true ->
  doc_shaped (Some g) (lift d) -> absorbs_on g (lift d) ->
  pair_cmp_consistent ecmp -> para_cmp_consistent pcmp ->
  ecmp_invariant_on ecmp (Some g) (lift d) -> pcmp_invariant_on pcmp ecmp (Some g) (lift d) ->
  let l1 := a_ws_doc pcmp (a_ws_items c ecmp (Some g)) (lift d) in
  std_ws fixed c psort esort (Some (pure_fmt g)) (ltree_of l1) = Ok (ltree_of l1).
Proof. exact absorbs_on_idem_proof. Qed.
Check C07_formatter_idem_absorbs : forall c psort pcmp esort ecmp g d,
  ind_ok c = true -> pcmp_agrees psort pcmp -> ecmp_agrees esort ecmp -> wf_doc d = true ->
  doc_shaped (Some g) (lift d) -> absorbs_on g (lift d) ->
  pair_cmp_consistent ecmp -> para_cmp_consistent pcmp ->
  ecmp_invariant_on ecmp (Some g) (lift d) -> pcmp_invariant_on pcmp ecmp (Some g) (lift d) ->
  let l1 := a_ws_doc pcmp (a_ws_items c ecmp (Some g)) (lift d) in
  std_ws fixed c psort esort (Some (pure_fmt g)) (ltree_of l1) = Ok (ltree_of l1).
Print Assumptions C07_formatter_idem_absorbs.

Theorem C07_formatter_idem_needs_premise :
  doc_shaped (Some WF.bang) (lift WF.d_bang) /\
  exists t1 t2, std_ws fixed WF.c2 None None (Some (pure_fmt WF.bang)) (tree_of WF.d_bang) = Ok t1 /\ text t1 = WF.once /\
                std_ws fixed WF.c2 None None (Some (pure_fmt WF.bang)) t1 = Ok t2 /\ text t2 = WF.twice.
Proof. exact bang_not_idempotent. Qed.
Check C07_formatter_idem_needs_premise :
  doc_shaped (Some WF.bang) (lift WF.d_bang) /\
  exists t1 t2, std_ws fixed WF.c2 None None (Some (pure_fmt WF.bang)) (tree_of WF.d_bang) = Ok t1 /\ text t1 = WF.once /\
                std_ws fixed WF.c2 None None (Some (pure_fmt WF.bang)) t1 = Ok t2 /\ text t2 = WF.twice.
Print Assumptions C07_formatter_idem_needs_premise.

(* 11. Beyond the abstract grammar (no reference to Grammar.v): every tree whose entries consist of
       tokens -- KEY, COLON, WHITESPACE, VALUE, NEWLINE, INDENT, COMMENT in ANY arrangement: blanks
       before the colon, CR or LF line ends, blank and comment lines inside a value --, whose paragraphs
       consist of such entries and of COMMENT / NEWLINE tokens, and whose root consists of such
       paragraphs and of EMPTY_LINE nodes of tokens (WrapTokP.token_doc; every document the reader
       returns without an error is one -- not proved here, checked by the streams), no formatter.
       Entry::wrap_and_sort: no panic; the result is KEY/COLON tokens followed by what rebuild_value
       emits; the VALUE texts and the COMMENT texts are kept, in order; the key is kept; every INDENT
       has exactly the requested width; a second application returns the same entry. *)
Theorem C07_tokens_entry : forall ind iel mll cs,
  forallb is_tok_elem cs = true -> (entry_n ind cs =? 0)%N = false ->
  entry_ws fixed ind iel mll None (Node ENTRY cs) = Ok (entry_out ind iel mll cs) /\
  ktx VALUE (children (entry_out ind iel mll cs)) = ktx VALUE cs /\
  ktx COMMENT (children (entry_out ind iel mll cs)) = ktx COMMENT cs /\
  entry_key (entry_out ind iel mll cs) = entry_key (Node ENTRY cs) /\
  (exists O, children (entry_out ind iel mll cs) = built_of cs ++ O /\ forallb (out_elem (entry_n ind cs)) O = true) /\
  entry_ws fixed ind iel mll None (entry_out ind iel mll cs) = Ok (entry_out ind iel mll cs).
Proof.
  intros ind iel mll cs H Hn. destruct (entry_out_idem ind iel mll cs H) as (A & B & C). destruct (entry_out_shape ind iel mll cs H) as [K S].
  split; [apply entry_ws_tokens; assumption|]. split; [apply entry_out_texts; [exact H|reflexivity]|]. split; [apply entry_out_texts; [exact H|reflexivity]|].
  split; [exact K|]. split; [exact S|].
  change (entry_out ind iel mll cs) with (Node ENTRY (children (entry_out ind iel mll cs))) at 1.
  rewrite (entry_ws_tokens ind iel mll _ A), C; [reflexivity|]. rewrite B. exact Hn.
Qed.
Check C07_tokens_entry : forall ind iel mll cs,
  forallb is_tok_elem cs = true -> (entry_n ind cs =? 0)%N = false ->
  entry_ws fixed ind iel mll None (Node ENTRY cs) = Ok (entry_out ind iel mll cs) /\
  ktx VALUE (children (entry_out ind iel mll cs)) = ktx VALUE cs /\
  ktx COMMENT (children (entry_out ind iel mll cs)) = ktx COMMENT cs /\
  entry_key (entry_out ind iel mll cs) = entry_key (Node ENTRY cs) /\
  (exists O, children (entry_out ind iel mll cs) = built_of cs ++ O /\ forallb (out_elem (entry_n ind cs)) O = true) /\
  entry_ws fixed ind iel mll None (entry_out ind iel mll cs) = Ok (entry_out ind iel mll cs).
Print Assumptions C07_tokens_entry.

(* the value tokens of any entry, rebuilt, are read back as tokens that rebuild to the same *)
Theorem C07_tokens_rebuild_value : forall T kl n iel mll, forallb is_ctok T = true -> stripped T ->
  exists T2, strip_trailing (filter cfilt (rebuild_value fixed T kl n iel mll)) = elems T2 /\
             forallb is_ctok T2 = true /\ stripped T2 /\
             rebuild_value fixed T2 kl n iel mll = rebuild_value fixed T kl n iel mll.
Proof. exact rebuild_fix. Qed.
Check C07_tokens_rebuild_value : forall T kl n iel mll, forallb is_ctok T = true -> stripped T ->
  exists T2, strip_trailing (filter cfilt (rebuild_value fixed T kl n iel mll)) = elems T2 /\
             forallb is_ctok T2 = true /\ stripped T2 /\
             rebuild_value fixed T2 kl n iel mll = rebuild_value fixed T kl n iel mll.
Print Assumptions C07_tokens_rebuild_value.

(* Paragraph::wrap_and_sort on such a paragraph: no panic; the groups "loose tokens (comment lines)
   in front of an entry + that entry" sorted stably as units, every entry rebuilt, the loose tokens
   after the last entry last (p_out); a second application changes nothing, for every comparator
   that answers consistently and does not see the re-layout (esort_ok; by_name is one). *)
Theorem C07_tokens_paragraph : forall ind iel mll esort cs,
  forallb (pchild_ok ind) cs = true -> esort_ok ind iel mll esort ->
  para_ws fixed ind iel mll esort None (Node PARAGRAPH cs) = Ok (Node PARAGRAPH (p_out ind iel mll esort cs)) /\
  forallb (pchild_ok ind) (p_out ind iel mll esort cs) = true /\
  para_ws fixed ind iel mll esort None (Node PARAGRAPH (p_out ind iel mll esort cs)) = Ok (Node PARAGRAPH (p_out ind iel mll esort cs)).
Proof.
  intros ind iel mll esort cs H Hes. destruct (p_out_idem ind iel mll esort cs H Hes) as [A B].
  split; [apply para_ws_tokens, H|]. split; [exact A|]. rewrite (para_ws_tokens ind iel mll esort _ A), B. reflexivity.
Qed.
Check C07_tokens_paragraph : forall ind iel mll esort cs,
  forallb (pchild_ok ind) cs = true -> esort_ok ind iel mll esort ->
  para_ws fixed ind iel mll esort None (Node PARAGRAPH cs) = Ok (Node PARAGRAPH (p_out ind iel mll esort cs)) /\
  forallb (pchild_ok ind) (p_out ind iel mll esort cs) = true /\
  para_ws fixed ind iel mll esort None (Node PARAGRAPH (p_out ind iel mll esort cs)) = Ok (Node PARAGRAPH (p_out ind iel mll esort cs)).
Print Assumptions C07_tokens_paragraph.

(* Deb822::wrap_and_sort on such a document: no panic; the groups "comment lines in front of a
   paragraph + that paragraph" sorted stably as units, blank lines dropped, one blank line between
   paragraphs, every paragraph reformatted, every last line terminated (d_out); the result is again
   such a document; a second application returns the same tree. *)
Theorem C07_tokens_document : forall ind iel mll psort esort t, token_doc ind t = true ->
  esort_ok ind iel mll esort -> psort_ok ind iel mll psort esort ->
  let R := d_out ind iel mll psort esort (children t) in
  doc_ws fixed psort (Some (para_ws fixed ind iel mll esort None)) t = Ok R /\
  token_doc ind R = true /\
  doc_ws fixed psort (Some (para_ws fixed ind iel mll esort None)) R = Ok R.
Proof. exact token_doc_ws. Qed.
Check C07_tokens_document : forall ind iel mll psort esort t, token_doc ind t = true ->
  esort_ok ind iel mll esort -> psort_ok ind iel mll psort esort ->
  let R := d_out ind iel mll psort esort (children t) in
  doc_ws fixed psort (Some (para_ws fixed ind iel mll esort None)) t = Ok R /\
  token_doc ind R = true /\
  doc_ws fixed psort (Some (para_ws fixed ind iel mll esort None)) R = Ok R.
Print Assumptions C07_tokens_document.

Theorem C07_tokens_by_name : forall ind iel mll, esort_ok ind iel mll (Some by_name).
Proof. exact by_name_esort_ok. Qed.
Check C07_tokens_by_name : forall ind iel mll, esort_ok ind iel mll (Some by_name).
Print Assumptions C07_tokens_by_name.

(* the paragraph comparators of the streams meet psort_ok when the fields are not sorted (the
   paragraph step then keeps items() as it is) *)
Theorem C07_tokens_paragraph_comparators : forall ind iel mll,
  psort_ok ind iel mll (Some by_first_value) None /\ psort_ok ind iel mll (Some control_order) None.
Proof. intros ind iel mll. exact (conj (by_first_value_psort_ok ind iel mll) (control_order_psort_ok ind iel mll)). Qed.
Check C07_tokens_paragraph_comparators : forall ind iel mll,
  psort_ok ind iel mll (Some by_first_value) None /\ psort_ok ind iel mll (Some control_order) None.
Print Assumptions C07_tokens_paragraph_comparators.

(* 12. EVERY document the strict reader returns (from_str s = Ok t: the property's "all error-free
       documents", CR line ends, blanks before the colon, blank and comment lines inside values
       included) is such a token document; so, without a formatter, for every indentation of at
       least one column, both settings, every limit and all comparators that answer consistently
       and do not see the re-layout: no panic; the result is d_out (comment lines in front of the
       same paragraph / field, stable order); its paragraphs are those of the input in the sorted
       order, each with the fields p_out gives it -- by C07_error_free_paragraph the fields it had,
       names and values, in the stable order of the field sort --; a second application returns
       the same tree.  (That the printed result parses strictly and re-reads to the reported content
       is 13-14 below.) *)
Theorem C07_error_free_is_token_doc : forall s t ind, from_str s = Ok t -> ind_pos ind -> token_doc ind t = true.
Proof. exact error_free_is_token_doc. Qed.
Check C07_error_free_is_token_doc : forall s t ind, from_str s = Ok t -> ind_pos ind -> token_doc ind t = true.
Print Assumptions C07_error_free_is_token_doc.

Theorem C07_error_free : forall s t ind iel mll psort esort, from_str s = Ok t -> ind_pos ind ->
  esort_ok ind iel mll esort -> psort_ok ind iel mll psort esort ->
  let R := d_out ind iel mll psort esort (children t) in
  doc_ws fixed psort (Some (para_ws fixed ind iel mll esort None)) t = Ok R /\
  doc_items t = map (fun g => items (snd g)) (fst (d_groups (children t) [])) /\
  doc_items R = map (fun g => items (Node PARAGRAPH (p_out ind iel mll esort (children (snd g)))))
                    (sort_opt (option_map on_snd psort) (fst (d_groups (children t) []))) /\
  doc_ws fixed psort (Some (para_ws fixed ind iel mll esort None)) R = Ok R.
Proof. exact error_free_ws. Qed.
Check C07_error_free : forall s t ind iel mll psort esort, from_str s = Ok t -> ind_pos ind ->
  esort_ok ind iel mll esort -> psort_ok ind iel mll psort esort ->
  let R := d_out ind iel mll psort esort (children t) in
  doc_ws fixed psort (Some (para_ws fixed ind iel mll esort None)) t = Ok R /\
  doc_items t = map (fun g => items (snd g)) (fst (d_groups (children t) [])) /\
  doc_items R = map (fun g => items (Node PARAGRAPH (p_out ind iel mll esort (children (snd g)))))
                    (sort_opt (option_map on_snd psort) (fst (d_groups (children t) []))) /\
  doc_ws fixed psort (Some (para_ws fixed ind iel mll esort None)) R = Ok R.
Print Assumptions C07_error_free.

Theorem C07_error_free_paragraph : forall ind iel mll esort cs, forallb (pchild_ok ind) cs = true ->
  items (Node PARAGRAPH cs) = flat_map (fun g => epair (snd g)) (fst (p_groups cs [])) /\
  items (Node PARAGRAPH (p_out ind iel mll esort cs)) =
    flat_map (fun g => epair (snd g)) (sort_opt (option_map on_snd esort) (fst (p_groups cs []))).
Proof. exact p_out_items. Qed.
Check C07_error_free_paragraph : forall ind iel mll esort cs, forallb (pchild_ok ind) cs = true ->
  items (Node PARAGRAPH cs) = flat_map (fun g => epair (snd g)) (fst (p_groups cs [])) /\
  items (Node PARAGRAPH (p_out ind iel mll esort cs)) =
    flat_map (fun g => epair (snd g)) (sort_opt (option_map on_snd esort) (fst (p_groups cs []))).
Print Assumptions C07_error_free_paragraph.

(* 13. THE IMAGE OF THE STRICT READER (proofs/ParseImageP.v; for every cone).  XGrammar.v describes
       layouts d : xdoc -- Grammar.v's documents plus every layout choice the reader tolerates: LF or CR
       after every line, blanks before the colon, comment lines and empty lines inside a value, a value
       that begins on a continuation line or is absent.  [xwf_doc] is exactly what the lexer and
       the parser establish (the token texts: names, blanks, one newline character, '#' comments, values
       that do not start with a blank -- nor with '#' after an indentation; the grouping: an entry runs
       while indented lines follow, a paragraph ends at an empty line or at the end, only the last line
       may lack its newline).
       accept: every well-formed layout is lexed to exactly its tokens and parsed, without an error, to
       exactly its tree, whose text is the rendering and whose content is the layout's.
       complete: whatever from_str returns is the tree of a well-formed layout of the text.
       So [in_image] characterises the reader's results, and the reader is the inverse of [text] on them:
       the lexer returns the leaves, the parser the same tree (same doc_items).  C03's documents are the
       special case xdoc_of. *)
Theorem C07_parse_image_accept : forall d, xwf_doc d = true ->
  lex (xrender d) = Ok (xdoc_toks d) /\
  from_str (xrender d) = Ok (xtree_of d) /\ text (xtree_of d) = xrender d /\ doc_items (xtree_of d) = xcontent d.
Proof. exact parse_image_accept. Qed.
Check C07_parse_image_accept : forall d, xwf_doc d = true ->
  lex (xrender d) = Ok (xdoc_toks d) /\
  from_str (xrender d) = Ok (xtree_of d) /\ text (xtree_of d) = xrender d /\ doc_items (xtree_of d) = xcontent d.
Print Assumptions C07_parse_image_accept.

Theorem C07_parse_image_complete : forall s t, from_str s = Ok t ->
  exists d, xwf_doc d = true /\ xrender d = s /\ xtree_of d = t.
Proof. exact parse_image_complete. Qed.
Check C07_parse_image_complete : forall s t, from_str s = Ok t ->
  exists d, xwf_doc d = true /\ xrender d = s /\ xtree_of d = t.
Print Assumptions C07_parse_image_complete.

Theorem C07_image : forall t,
  (in_image t <-> exists s, from_str s = Ok t) /\
  (in_image t -> lex (text t) = Ok (leaves t) /\ from_str (text t) = Ok t) /\
  (in_image t -> forall ind, ind_pos ind -> token_doc ind t = true).
Proof.
  intros t. split; [apply in_image_iff|]. split; [apply image_reread|].
  intros H ind Hi. apply in_image_iff in H. destruct H as (s & Hs). exact (error_free_is_token_doc s t ind Hs Hi).
Qed.
Check C07_image : forall t,
  (in_image t <-> exists s, from_str s = Ok t) /\
  (in_image t -> lex (text t) = Ok (leaves t) /\ from_str (text t) = Ok t) /\
  (in_image t -> forall ind, ind_pos ind -> token_doc ind t = true).
Print Assumptions C07_image.

Theorem C07_grammar_in_image : forall d, wf_doc d = true ->
  xwf_doc (xdoc_of d) = true /\ xrender (xdoc_of d) = render d /\ xtree_of (xdoc_of d) = tree_of d.
Proof. exact grammar_in_image. Qed.
Check C07_grammar_in_image : forall d, wf_doc d = true ->
  xwf_doc (xdoc_of d) = true /\ xrender (xdoc_of d) = render d /\ xtree_of (xdoc_of d) = tree_of d.
Print Assumptions C07_grammar_in_image.

(* 14. The clauses 12 lacked, for EVERY error-free document, without a formatter, with no premise on
       the comparators: the text of the reformatted tree R is the rendering of a well-formed layout D
       -- so (13) the strict reader accepts it, lexes it to D's tokens and returns a tree of the image
       with exactly the content R reports --; in D every continuation line is indented by the
       requested width, nothing stands between a name and its colon, every line is terminated, and
       (xsingle_blanks) comment lines and a paragraph are followed, repeatedly, by ONE empty line, comment
       lines and a paragraph, with nothing after the last paragraph.  (R itself need not be in the image:
       the reader puts comment lines that lead a paragraph in front of it and those that end the
       document into the last paragraph, and reads "A : b" rebuilt on one line with one blank token.)
       C07_error_free_full: all clauses together. *)
Theorem C07_error_free_reread : forall s t ind iel mll psort esort, from_str s = Ok t -> ind_pos ind ->
  let R := d_out ind iel mll psort esort (children t) in
  doc_ws fixed psort (Some (para_ws fixed ind iel mll esort None)) t = Ok R /\
  exists D, xwf_doc D = true /\ xrender D = text R /\
    lex (text R) = Ok (xdoc_toks D) /\ from_str (text R) = Ok (xtree_of D) /\ doc_items (xtree_of D) = doc_items R /\
    xdoc_canon ind D = true /\ xsingle_blanks SepStart D = true /\ xdoc_terminated D = true.
Proof. exact error_free_reread. Qed.
Check C07_error_free_reread : forall s t ind iel mll psort esort, from_str s = Ok t -> ind_pos ind ->
  let R := d_out ind iel mll psort esort (children t) in
  doc_ws fixed psort (Some (para_ws fixed ind iel mll esort None)) t = Ok R /\
  exists D, xwf_doc D = true /\ xrender D = text R /\
    lex (text R) = Ok (xdoc_toks D) /\ from_str (text R) = Ok (xtree_of D) /\ doc_items (xtree_of D) = doc_items R /\
    xdoc_canon ind D = true /\ xsingle_blanks SepStart D = true /\ xdoc_terminated D = true.
Print Assumptions C07_error_free_reread.

Theorem C07_error_free_full : forall s t ind iel mll psort esort, from_str s = Ok t -> ind_pos ind ->
  esort_ok ind iel mll esort -> psort_ok ind iel mll psort esort ->
  let W := doc_ws fixed psort (Some (para_ws fixed ind iel mll esort None)) in
  let R := d_out ind iel mll psort esort (children t) in
  W t = Ok R /\
  doc_items t = map (fun g => items (snd g)) (fst (d_groups (children t) [])) /\
  doc_items R = map (fun g => items (Node PARAGRAPH (p_out ind iel mll esort (children (snd g)))))
                    (sort_opt (option_map on_snd psort) (fst (d_groups (children t) []))) /\
  (exists D, xwf_doc D = true /\ xrender D = text R /\ from_str (text R) = Ok (xtree_of D) /\ doc_items (xtree_of D) = doc_items R /\
     xdoc_canon ind D = true /\ xsingle_blanks SepStart D = true /\ xdoc_terminated D = true) /\
  W R = Ok R.
Proof. exact error_free_full. Qed.
Check C07_error_free_full : forall s t ind iel mll psort esort, from_str s = Ok t -> ind_pos ind ->
  esort_ok ind iel mll esort -> psort_ok ind iel mll psort esort ->
  let W := doc_ws fixed psort (Some (para_ws fixed ind iel mll esort None)) in
  let R := d_out ind iel mll psort esort (children t) in
  W t = Ok R /\
  doc_items t = map (fun g => items (snd g)) (fst (d_groups (children t) [])) /\
  doc_items R = map (fun g => items (Node PARAGRAPH (p_out ind iel mll esort (children (snd g)))))
                    (sort_opt (option_map on_snd psort) (fst (d_groups (children t) []))) /\
  (exists D, xwf_doc D = true /\ xrender D = text R /\ from_str (text R) = Ok (xtree_of D) /\ doc_items (xtree_of D) = doc_items R /\
     xdoc_canon ind D = true /\ xsingle_blanks SepStart D = true /\ xdoc_terminated D = true) /\
  W R = Ok R.
Print Assumptions C07_error_free_full.

(* the reported content of the result without any reference to how an entry is rebuilt: the
   paragraphs of the input (groups of d_groups) in the stable order of the paragraph comparator, each
   with the fields it had (groups of p_groups; names and values as reported, epair) in the stable
   order of the field comparator *)
Theorem C07_error_free_content : forall s t ind iel mll psort esort, from_str s = Ok t -> ind_pos ind ->
  esort_ok ind iel mll esort ->
  doc_items t = map (fun g => flat_map (fun e => epair (snd e)) (fst (p_groups (children (snd g)) [])))
                    (fst (d_groups (children t) [])) /\
  doc_items (d_out ind iel mll psort esort (children t)) =
    map (fun g => flat_map (fun e => epair (snd e)) (sort_opt (option_map on_snd esort) (fst (p_groups (children (snd g)) []))))
        (sort_opt (option_map on_snd psort) (fst (d_groups (children t) []))).
Proof. exact error_free_content. Qed.
Check C07_error_free_content : forall s t ind iel mll psort esort, from_str s = Ok t -> ind_pos ind ->
  esort_ok ind iel mll esort ->
  doc_items t = map (fun g => flat_map (fun e => epair (snd e)) (fst (p_groups (children (snd g)) [])))
                    (fst (d_groups (children t) [])) /\
  doc_items (d_out ind iel mll psort esort (children t)) =
    map (fun g => flat_map (fun e => epair (snd e)) (sort_opt (option_map on_snd esort) (fst (p_groups (children (snd g)) []))))
        (sort_opt (option_map on_snd psort) (fst (d_groups (children t) []))).
Print Assumptions C07_error_free_content.

(* the field step of 14, explicitly: what rebuild_value makes of ANY field the reader accepts
   (XWrapP.x_ws_field: the case analysis of WrapSpec.rebuild_field with CR line ends, blanks before the
   colon, comment and empty continuation lines): the text of the rebuilt entry is the text of that
   field; it is well-formed and terminated, has the name and the value, and the canonical look *)
Theorem C07_error_free_field : forall ind iel mll f more, ind_pos ind -> xwf_field f more = true ->
  let f' := x_ws_field (xn ind f) iel mll f in
  texts (children (e_out ind iel mll (xfield_tree f))) = tstr (xfield_toks f') /\
  xwf_field f' true = true /\ x_name f' = x_name f /\ xfield_value f' = xfield_value f /\
  xfield_canon (xn ind f) f' = true.
Proof.
  intros ind iel mll f more Hi Hwf f'. split; [apply e_out_xfield|].
  assert (Hv : valid_name (x_name f) = true) by (unfold xwf_field in Hwf; repeat (apply andb_true_iff in Hwf; destruct Hwf as [Hwf ?]); exact Hwf).
  split; [exact (x_ws_field_wf _ iel mll f more Hwf (xn_pos ind f Hi Hv))|].
  destruct (x_ws_field_content (xn ind f) iel mll f more Hwf) as [A B]. split; [exact A|]. split; [exact B|apply x_ws_field_canon].
Qed.
Check C07_error_free_field : forall ind iel mll f more, ind_pos ind -> xwf_field f more = true ->
  let f' := x_ws_field (xn ind f) iel mll f in
  texts (children (e_out ind iel mll (xfield_tree f))) = tstr (xfield_toks f') /\
  xwf_field f' true = true /\ x_name f' = x_name f /\ xfield_value f' = xfield_value f /\
  xfield_canon (xn ind f) f' = true.
Print Assumptions C07_error_free_field.

(* 15. The same reading of the re-read clause for the control wrappers with the real relations
       branch, on the domain of C07_control_real: the printed result is the rendering of a well-formed
       layout, whose tree the strict reader returns, with the reported content (so the formatter's
       output, too, stays inside the image of the reader). *)
Theorem C07_control_real_image : forall c d, ind_ok c = true -> wf_doc d = true -> ctl_doc_ok (lift d) ->
  let t1 := ltree_of (a_ws_doc (Some control_cmp) (a_ws_items c None (Some ctl_total)) (lift d)) in
  real_control_ws c (tree_of d) = Ok t1 /\
  exists D, xwf_doc D = true /\ xrender D = text t1 /\ from_str (text t1) = Ok (xtree_of D) /\ doc_items (xtree_of D) = doc_items t1.
Proof.
  intros c d Hc Hd Hok t1. destruct (real_control_proof c d Hc Hd Hok) as (A & _ & (t' & B & C) & _). split; [exact A|].
  destruct (parse_image_complete _ _ B) as (D & W & E1 & E2). exists D. subst t'. repeat split; assumption.
Qed.
Check C07_control_real_image : forall c d, ind_ok c = true -> wf_doc d = true -> ctl_doc_ok (lift d) ->
  let t1 := ltree_of (a_ws_doc (Some control_cmp) (a_ws_items c None (Some ctl_total)) (lift d)) in
  real_control_ws c (tree_of d) = Ok t1 /\
  exists D, xwf_doc D = true /\ xrender D = text t1 /\ from_str (text t1) = Ok (xtree_of D) /\ doc_items (xtree_of D) = doc_items t1.
Print Assumptions C07_control_real_image.

(* ---------------------------------------------------------------- non-vacuity *)
Module Examples.
  Import Coq.Strings.String.
  Local Open Scope string_scope.
  Definition s := Lit.s2l.
  (* "# top\n\nB-b: z,\n\t y\n# about A\nA:  x\nx1: 1\n# last\n\n\n# mid\nA: 1\n A: 2\nA: 1" *)
  Definition d : doc :=
    [BComment (s " top") true; BBlank;
     BPara (mk_field (s "B-b") (s " ") (s "z,") [((9%N :: s " ")%list, s "y")] true)
           [IComment (s " about A") true; IField (mk_field (s "A") (s "  ") (s "x") [] true);
            IField (mk_field (s "x1") (s " ") (s "1") [] true) ; IComment (s " last") true];
     BBlank; BBlank; BComment (s " mid") true;
     BPara (mk_field (s "A") (s " ") (s "1") [(s " ", s "A: 2")] true) [IField (mk_field (s "A") (s " ") (s "1") [] false)]].
  Definition c : wcfg := mk_wcfg FieldNameLength true (Some 10%N).

  Example hypotheses :
    wf_doc d = true /\ ind_ok c = true /\
    pcmp_agrees (Some by_first_value) (Some first_value_cmp) /\ para_cmp_consistent (Some first_value_cmp) /\
    ecmp_agrees (Some by_name) (Some name_cmp) /\ pair_cmp_consistent (Some name_cmp).
  Proof.
    split; [vm_compute; reflexivity|]. split; [reflexivity|].
    split; [exact by_first_value_agrees|]. split; [exact first_value_cmp_consistent|].
    split; [exact by_name_agrees|exact name_cmp_consistent].
  Qed.

  (* paragraphs by first value, fields as they are: the second paragraph ("1...") comes first, with its comment *)
  Example result_sorted_paragraphs :
    rmap text (std_ws fixed c (Some by_first_value) None None (tree_of d)) =
    Ok (s "# mid
A:
 1
 A: 2
A: 1

# top
B-b:
   z,
   y
# about A
A:  x
x1: 1
# last
").
  Proof. vm_compute. reflexivity. Qed.

  (* fields by name, paragraphs as they are: "# about A" moves with "A", "# last" stays last *)
  Example result_sorted_fields :
    rmap text (std_ws fixed c None (Some by_name) None (tree_of d)) =
    Ok (s "# top
# about A
A:  x
B-b:
   z,
   y
x1: 1
# last

# mid
A:
 1
 A: 2
A: 1
").
  Proof. vm_compute. reflexivity. Qed.

  (* C07_holds applies (here: sorted fields, FieldNameLength, immediate empty line, limit 10) *)
  Example instance : exists t1,
    std_ws fixed c None (Some by_name) None (tree_of d) = Ok t1 /\
    doc_items t1 = map (sort_opt (Some name_cmp)) (content d) /\
    (exists t', from_str (text t1) = Ok t' /\ doc_items t' = doc_items t1) /\
    std_ws fixed c None (Some by_name) None t1 = Ok t1.
  Proof.
    destruct (C07_holds c None None (Some by_name) (Some name_cmp) d eq_refl I by_name_agrees name_cmp_consistent I (fun _ _ => I)
                (proj1 hypotheses)) as (t1 & E1 & _ & E3 & E4 & _ & _ & E7).
    exists t1. repeat split; assumption.
  Qed.

  (* a formatter with several output lines that is shaped on a field: "Uploaders: A <a@x>, B: <b@x>" *)
  Definition upl : field := mk_field (s "Uploaders") (s " ") (s "A <a@x>, B: <b@x>") [] true.
  Example uploaders_shaped :
    fmt_shaped_on (Some (fun _ v => fmt_uploaders v)) upl = true /\
    a_pair (Some (fun _ v => fmt_uploaders v)) upl = (s "Uploaders", (s "A <a@x>," ++ 10%N :: s "B: <b@x>")%list).
  Proof. vm_compute. split; reflexivity. Qed.

  (* a control file in the domain of C07_control_real: relationship fields over several lines, with a
     version, alternatives and a substitution variable; Uploaders; comments; paragraphs out of order *)
  Definition rl (n tr : string) : RelGrammar.rel := RelGrammar.mk_rel (s n) None None None [] (s tr).
  Definition rf_bd : RelGrammar.rfield :=
    RelGrammar.mk_rfield (s " ")
      (RelGrammar.IEntry (RelGrammar.mk_rel (s "b") None (Some (RelGrammar.mk_vclause (s " ") [] RelAcc.VGe (s " ") None (s "1") [] [])) None [] []) [])
      [([10%N], RelGrammar.IEntry (rl "a" "") [])].
  Definition rf_dep : RelGrammar.rfield :=
    RelGrammar.mk_rfield (s " ") (RelGrammar.ISubst (s "misc") [s "Depends"] [])
      [(s " ", RelGrammar.IEntry (rl "z" " ") [(s " ", rl "y" "")])].
  Definition f_bd := mk_field (s "Build-Depends") (s " ") (s "b (>= 1),") [(s "  ", s "a")] true.
  Definition f_dep := mk_field (s "Depends") (s " ") (s "${misc:Depends}, z | y") [] true.
  Definition f_upl := mk_field (s "Uploaders") (s " ") (s "A <a@x>, B: <b@x>") [] true.
  Definition f_pkg := mk_field (s "Package") (s " ") (s "p") [] true.
  Definition f_desc := mk_field (s "Description") (s " ") (s "x") [(s " ", s "y")] true.
  Definition f_src := mk_field (s "Source") (s " ") (s "s") [] true.
  Definition dc : doc :=
    [BPara f_pkg [IComment (s " deps") true; IField f_dep; IField f_desc];
     BBlank; BComment (s " the source") true;
     BPara f_src [IField f_upl; IField f_bd]].

  Example control_hypotheses : wf_doc dc = true /\ ctl_doc_ok (lift dc).
  Proof.
    split; [vm_compute; reflexivity|]. intros its Hin f Hf.
    assert (Hf' : In f [f_pkg; f_dep; f_desc; f_src; f_upl; f_bd]).
    { cbn in Hin. destruct Hin as [E|[E|[E|[E|[]]]]]; try discriminate; injection E as <-;
        cbn in Hf; repeat (destruct Hf as [Hf|Hf]; [try discriminate; injection Hf as <-; cbn; tauto|]); contradiction. }
    cbn in Hf'. destruct Hf' as [<-|[<-|[<-|[<-|[<-|[<-|[]]]]]]]; unfold ctl_field_ok.
    - exact I.
    - exists rf_dep. repeat split; vm_compute; reflexivity.
    - exact I.
    - exact I.
    - vm_compute. reflexivity.
    - exists rf_bd. repeat split; vm_compute; reflexivity.
  Qed.

  Example control_result :
    rmap text (real_control_ws (mk_wcfg (Spaces 2) false None) (tree_of dc)) =
    Ok (s "# the source
Source: s
Uploaders: A <a@x>,
  B: <b@x>
Build-Depends: a, b (>= 1)

Package: p
# deps
Depends: y | z, ${misc:Depends}
Description: x
  y
").
  Proof. vm_compute. reflexivity. Qed.

  (* an error-free text outside the abstract grammar: blanks before the colon, CR line ends, a comment
     line and a blank line inside a value, no space after a colon, comments at every level: the reader's
     tree is a token document, and the reformatting (fields by name) is computed *)
  Definition cr : str := [13%N].
  Definition exotic : str := (s "Zz : b" ++ cr ++ s "  c" ++ cr ++ s "
# x
B:
 #c
 
	d
Aa:x

# t")%list.
  Example exotic_is_token_doc :
    exists t, from_str exotic = Ok t /\ token_doc (Spaces 2) t = true /\
      rmap text (doc_ws fixed None (Some (para_ws fixed (Spaces 2) true (Some 10%N) (Some by_name) None)) t) =
      Ok (s "Zz:
  b" ++ cr ++ s "  c

# x
Aa:x
B:
  #c
  
  d
# t
")%list.
  Proof. eexists. split; [vm_compute; reflexivity|]. split; vm_compute; reflexivity. Qed.
  (* the exotic text as a layout: well-formed, rendered to that text, read to its tree; the reformatted
     text is read again without an error, to the content the reformatted tree reports; the premises of
     C07_error_free_full hold (fields by name) *)
  Definition xexotic : xdoc :=
    [XPara (mk_xfield (s "Zz") (s " ") (s " ") (s "b") [mk_xcont 13 (s "  ") (PVal (s "c"))] (Some 13%N)) [];
     XBlank 10;
     XBComment (s " x") (Some 10%N);
     XPara (mk_xfield (s "B") [] [] [] [mk_xcont 10 (s " ") (PCom (s "c")); mk_xcont 10 (s " ") PNone;
                                        mk_xcont 10 [9%N] (PVal (s "d"))] (Some 10%N))
           [XField (mk_xfield (s "Aa") [] [] (s "x") [] (Some 10%N))];
     XBlank 10;
     XBComment (s " t") None].
  Example exotic_layout :
    xwf_doc xexotic = true /\ xrender xexotic = exotic /\ from_str exotic = Ok (xtree_of xexotic) /\
    doc_items (xtree_of xexotic) = [[(s "Zz", (s "b" ++ [10%N] ++ s "c")%list)]; [(s "B", s "d"); (s "Aa", s "x")]].
  Proof. repeat split; vm_compute; reflexivity. Qed.
  Example exotic_reread :
    let R := d_out (Spaces 2) true (Some 10%N) None (Some by_name) (children (xtree_of xexotic)) in
    ind_pos (Spaces 2) /\ esort_ok (Spaces 2) true (Some 10%N) (Some by_name) /\
    psort_ok (Spaces 2) true (Some 10%N) None (Some by_name) /\
    exists t', from_str (text R) = Ok t' /\ doc_items t' = doc_items R /\ t' <> R /\
      doc_items R = [[(s "Zz", (s "b" ++ [10%N] ++ s "c")%list)]; [(s "Aa", s "x"); (s "B", s "d")]].
  Proof.
    intros R. split; [reflexivity|]. split; [apply C07_tokens_by_name|]. split; [exact I|].
    eexists. split; [vm_compute; reflexivity|]. split; [vm_compute; reflexivity|]. split; [|vm_compute; reflexivity].
    vm_compute. discriminate.
  Qed.
End Examples.
