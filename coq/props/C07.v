(* placeholder while the streams are being validated *)
From V.model Require Import Base Deb822Lex Deb822Parse Deb822Wrap.
Theorem C07_placeholder : True. Proof. exact I. Qed.
Check C07_placeholder : True.
Print Assumptions C07_placeholder.
