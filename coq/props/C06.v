(* C06 — lossy and lossless deb822 readers agree on content.  Statements only. *)
From V.model Require Import Base Deb822Lex Deb822Parse Grammar Lossy.
From V.proofs Require Import LossyP AgreeP.

(* Joint acceptance and agreement on every well-formed document: both readers accept
   render d; the lossy reader returns exactly lossy_content d, the lossless one content d, and
   the two have the same paragraphs, the same names in the same order and, per field, the same
   sequence of non-blank value lines. *)
Theorem C06_wellformed : forall d : doc, wf_doc d = true ->
  exists L t, lossy_from_str (render d) = Ok L /\ from_str (render d) = Ok t /\
              nb_doc L = nb_doc (doc_items t) /\ L = lossy_content d /\ doc_items t = content d.
Proof. exact C06_joint. Qed.
Check C06_wellformed : forall d : doc, wf_doc d = true ->
  exists L t, lossy_from_str (render d) = Ok L /\ from_str (render d) = Ok t /\
              nb_doc L = nb_doc (doc_items t) /\ L = lossy_content d /\ doc_items t = content d.
Print Assumptions C06_wellformed.

(* The lossy readers are total: a value or an error for every input (no panic, enough fuel). *)
Theorem C06_lossy_total : forall s : str,
  ((exists d, lossy_from_str s = Ok d) \/ (exists e, lossy_from_str s = Err e)) /\
  ((exists p, lossy_paragraph_from_str s = Ok p) \/ (exists e, lossy_paragraph_from_str s = Err e)).
Proof. intros s. split; [apply lossy_total|apply lossy_paragraph_total]. Qed.
Check C06_lossy_total : forall s : str,
  ((exists d, lossy_from_str s = Ok d) \/ (exists e, lossy_from_str s = Err e)) /\
  ((exists p, lossy_paragraph_from_str s = Ok p) \/ (exists e, lossy_paragraph_from_str s = Err e)).
Print Assumptions C06_lossy_total.

(* The full statement: agreement on EVERY text, well-formed or not.  Whatever the lossy reader
   accepts the lossless reader accepts too (strictly, without a syntax error), and the two report
   the same paragraphs, the same field names in the same order and, per field, the same non-blank
   value lines.  (proofs/LexInvP.v: the token sequences the lexer can produce; proofs/AgreeP.v:
   the two readers step by step over such a sequence.) *)
Theorem C06_lossy_implies_lossless : forall (s : str) (L : ldoc),
  lossy_from_str s = Ok L -> exists t, from_str s = Ok t /\ nb_doc L = nb_doc (doc_items t).
Proof. exact lossy_accepts_implies_agreement. Qed.
Check C06_lossy_implies_lossless : forall (s : str) (L : ldoc),
  lossy_from_str s = Ok L -> exists t, from_str s = Ok t /\ nb_doc L = nb_doc (doc_items t).
Print Assumptions C06_lossy_implies_lossless.

Theorem C06_full : forall (s : str) (L : ldoc) (t : tree),
  lossy_from_str s = Ok L -> from_str s = Ok t -> nb_doc L = nb_doc (doc_items t).
Proof. exact C06_full_holds. Qed.
Check C06_full : forall (s : str) (L : ldoc) (t : tree),
  lossy_from_str s = Ok L -> from_str s = Ok t -> nb_doc L = nb_doc (doc_items t).
Print Assumptions C06_full.

(* The converse fails: the lossless reader accepts texts the lossy one rejects (white space
   before the colon). *)
Example C06_ex_lossless_only :
  (exists t, from_str [65; 32; 58; 32; 98; 10]%N = Ok t) /\ lossy_from_str [65; 32; 58; 32; 98; 10]%N = Err 1%N.
Proof. split; [eexists|]; vm_compute; reflexivity. Qed.

(* Non-vacuity of the full statement outside the grammar: CR line ends and an indented comment
   line inside a value are accepted by both readers. *)
Example C06_ex_outside_grammar :
  let s := [65; 58; 32; 98; 13; 32; 35; 120; 10; 32; 99]%N in
  (exists L, lossy_from_str s = Ok L) /\ (exists t, from_str s = Ok t).
Proof. split; eexists; vm_compute; reflexivity. Qed.

(* Non-vacuity: an empty first line, where the two readers report different raw values. *)
Example C06_ex_empty_first_line :
  let d := [BPara (mk_field [65]%N [] [] [([32]%N, [98]%N); ([32]%N, [99]%N)] true) []] in
  wf_doc d = true /\ lossy_content d = [[([65], [10; 98; 10; 99])]]%N /\ content d = [[([65], [98; 10; 99])]]%N.
Proof. vm_compute. repeat split. Qed.
