(* C08 — lossy deb822 values print to text that reads back equal; edits follow a list.
   Statements only.  Quantifier: every lossy document satisfying LossySpec.canon_doc (valid names;
   values = lines without LF/CR joined by LF, first line possibly empty and not starting with
   space/tab, further lines non-empty, not starting with space/tab or '#'; every paragraph
   non-empty), and every get/set/insert/remove on any paragraph (no side condition). *)
From V.model Require Import Base Deb822Lex Deb822Parse Grammar Lossy LossySpec.
From V.proofs Require Import LossyP LossyRtP.

Theorem C08_print_read : forall d, canon_doc d = true ->
  lossy_from_str (print_doc d) = Ok d /\
  print_doc d = render (layout_doc d) /\ wf_doc (layout_doc d) = true /\
  exists t, from_str (print_doc d) = Ok t /\ doc_items t = content (layout_doc d) /\
            nb_doc (doc_items t) = nb_doc d.
Proof. exact C08_roundtrip. Qed.
Check C08_print_read : forall d, canon_doc d = true ->
  lossy_from_str (print_doc d) = Ok d /\
  print_doc d = render (layout_doc d) /\ wf_doc (layout_doc d) = true /\
  exists t, from_str (print_doc d) = Ok t /\ doc_items t = content (layout_doc d) /\
            nb_doc (doc_items t) = nb_doc d.
Print Assumptions C08_print_read.

(* paragraphs are separated by exactly one blank line *)
Theorem C08_one_blank_line : forall d, canon_doc d = true -> one_blank_between (layout_doc d) = true.
Proof. exact layout_one_blank. Qed.
Check C08_one_blank_line : forall d, canon_doc d = true -> one_blank_between (layout_doc d) = true.
Print Assumptions C08_one_blank_line.

(* get returns the first field of a name *)
Theorem C08_get : forall p k,
  l_get p k = match filter (fun f => str_eqb (fst f) k) p with [] => None | f :: _ => Some (snd f) end.
Proof. exact l_get_first. Qed.
Check C08_get : forall p k,
  l_get p k = match filter (fun f => str_eqb (fst f) k) p with [] => None | f :: _ => Some (snd f) end.
Print Assumptions C08_get.

(* set updates the first field of that name in place, or appends; everything else untouched *)
Theorem C08_set : forall p k v,
  ((exists a x b, p = a ++ (k, x) :: b /\ l_get a k = None /\ l_set p k v = a ++ (k, v) :: b) \/
   (l_get p k = None /\ l_set p k v = p ++ [(k, v)])) /\
  l_get (l_set p k v) k = Some v /\
  (forall k', str_eqb k k' = false -> l_get (l_set p k v) k' = l_get p k').
Proof.
  intros p k v. split; [apply l_set_spec|]. split; [apply l_get_set_same|]. intros k'. apply l_get_set_other.
Qed.
Check C08_set : forall p k v,
  ((exists a x b, p = a ++ (k, x) :: b /\ l_get a k = None /\ l_set p k v = a ++ (k, v) :: b) \/
   (l_get p k = None /\ l_set p k v = p ++ [(k, v)])) /\
  l_get (l_set p k v) k = Some v /\
  (forall k', str_eqb k k' = false -> l_get (l_set p k v) k' = l_get p k').
Print Assumptions C08_set.

(* insert always appends; remove deletes every field of the name and nothing else *)
Theorem C08_insert_remove : forall p k v,
  l_insert p k v = p ++ [(k, v)] /\
  l_remove p k = filter (fun f => negb (str_eqb (fst f) k)) p /\
  l_get (l_remove p k) k = None /\
  (forall k', str_eqb k' k = false -> l_get (l_remove p k) k' = l_get p k').
Proof.
  intros p k v. destruct (l_remove_spec p k) as (A & B & C). split; [reflexivity|]. split; [exact B|]. split; [exact A|exact C].
Qed.
Check C08_insert_remove : forall p k v,
  l_insert p k v = p ++ [(k, v)] /\
  l_remove p k = filter (fun f => negb (str_eqb (fst f) k)) p /\
  l_get (l_remove p k) k = None /\
  (forall k', str_eqb k' k = false -> l_get (l_remove p k) k' = l_get p k').
Print Assumptions C08_insert_remove.

(* ... and for a single paragraph, through <lossy::Paragraph as FromStr>::from_str. *)
Theorem C08_paragraph : forall p, canon_para p = true -> lossy_paragraph_from_str (print_para p) = Ok p.
Proof. exact C08_paragraph_roundtrip. Qed.
Check C08_paragraph : forall p, canon_para p = true -> lossy_paragraph_from_str (print_para p) = Ok p.
Print Assumptions C08_paragraph.

(* Non-vacuity, and necessity of the domain guards (each witness breaks the round trip).  The three
   guards that exclude values the property's English admits - '#' continuation line, CR inside a
   line, empty paragraph inside a document - are recorded finding classes (known_findings.jsonl). *)
Example C08_ex_canon :
  let d := [[([65], [98; 32; 35; 58; 10; 99; 32]); ([66], [])]; [([67], [10; 120])]]%N in
  canon_doc d = true /\ lossy_from_str (print_doc d) = Ok d.
Proof. vm_compute. split; reflexivity. Qed.
Example C08_hash_guard_needed :          (* a continuation line starting with '#' is read as a comment *)
  let d := [[([65], [98; 10; 35; 99])]]%N in lossy_from_str (print_doc d) <> Ok d.
Proof. vm_compute. intros H. inversion H. Qed.
Example C08_cr_guard_needed :            (* a CR inside a line ends the line when the text is read *)
  let d := [[([65], [97; 13; 98])]]%N in lossy_from_str (print_doc d) <> Ok d.
Proof. vm_compute. intros H. inversion H. Qed.
Example C08_leading_space_guard_needed :
  let d := [[([65], [98; 10; 32; 99])]]%N in lossy_from_str (print_doc d) <> Ok d.
Proof. vm_compute. intros H. inversion H. Qed.
(* (an empty line inside a value does round-trip through the lossy reader; the property's
   domain excludes it, so it is simply outside the theorem) *)
Example C08_empty_paragraph_guard_needed :
  let d := [[([65], [98])]; []; [([66], [99])]]%N in lossy_from_str (print_doc d) <> Ok d.
Proof. vm_compute. intros H. inversion H. Qed.
