(* C10 — well-formed relationship fields are read exactly as written, by both readers.
   Statements only; proofs in proofs/RelGrammarLexP.v, RelGrammarParseP.v, RelGrammarAccP.v (lossless
   reader, sections 1-7) and proofs/RelGrammarLossyP.v (lossy reader, section 8).

   The quantifier is RelGrammar.rfield restricted by RelGrammar.wf_rfield: the Debian Policy 7.1
   relationship grammar over arbitrary package names / versions / architecture / profile names
   (any non-empty [A-Za-z0-9.+~-]+), the five operators, optional epoch (then the version may contain
   further colons), architecture lists and
   restriction formulas with or without "!", empty entries, a trailing comma, ${substitution:variables}
   where enabled, and an arbitrary run of SP / TAB / LF in every place where whitespace may stand.
   No bound on the number of entries, alternatives, terms or on any length: the proofs are
   inductions over the abstract field.

   The reader is the model of the code as of /repo 4b18f7c, i.e. with the fixes this property
   led to: 0eb8794 + c2fa7c8 + 4b18f7c (a version is the run of IDENT and COLON tokens: epoch,
   further colons, empty parts -- the last outside this grammar), 43dd02f (whitespace before
   ")"), 541b0f5 (architectures() keeps the "!").  For the code before them see C10_prefix_epoch_refuted,
   C10_prefix_space_refuted and C10_prefix_arch_negation_refuted below. *)
From V.model Require Import Base RelLex RelParse RelAcc RelGrammar RelGrammarAll.
From V.model Require RelParsePre RelLossy.
From V.proofs Require Import RelGrammarLexP RelGrammarParseP RelGrammarAccP RelGrammarLossyP.
From V.proofs Require Import RelLexInvP RelGrammarAllParseP RelGrammarAllInvP RelGrammarAllAccP RelAccStructureP.
From V.model Require RelEdit.

(* 1. the token partition of a rendered well-formed field *)
Theorem C10_lex : forall allow (f : rfield), wf_rfield allow f = true -> rlex (rrender f) = Ok (rtoks f).
Proof. exact rlex_rrender. Qed.
Check C10_lex : forall allow (f : rfield), wf_rfield allow f = true -> rlex (rrender f) = Ok (rtoks f).
Print Assumptions C10_lex.

(* 2. the parser on that token list: the tree rtree_of f, no error *)
Theorem C10_parse_tokens : forall allow (f : rfield), wf_rfield allow f = true ->
  parse_tokens allow (rtoks f) = Ok (rtree_of f, 0).
Proof. exact parse_rtoks. Qed.
Check C10_parse_tokens : forall allow (f : rfield), wf_rfield allow f = true ->
  parse_tokens allow (rtoks f) = Ok (rtree_of f, 0).
Print Assumptions C10_parse_tokens.

(* 3. the reader: no error, text back, and the accessors (entries / relations / name / archqual /
   version / architectures / profiles / substvars) report exactly what was written, in the
   accessors' own types (rcontent_acc: a negated architecture is the String "!name") *)
Theorem C10_lossless : forall allow (f : rfield), wf_rfield allow f = true ->
  parse_relaxed (rrender f) allow = Ok (rtree_of f, 0) /\
  text (rtree_of f) = rrender f /\
  racc (rtree_of f) = Ok (rcontent_acc f).
Proof. intros allow f H. destruct (C10_lossless_all allow f H) as (_ & _ & A & B & C). auto. Qed.
Check C10_lossless : forall allow (f : rfield), wf_rfield allow f = true ->
  parse_relaxed (rrender f) allow = Ok (rtree_of f, 0) /\
  text (rtree_of f) = rrender f /\
  racc (rtree_of f) = Ok (rcontent_acc f).
Print Assumptions C10_lossless.

(* 4. the strict reader, Relations::from_str (no substitution variables) *)
Theorem C10_from_str : forall f : rfield, wf_rfield false f = true ->
  relations_from_str (rrender f) = Ok (rtree_of f).
Proof. exact from_str_rrender. Qed.
Check C10_from_str : forall f : rfield, wf_rfield false f = true ->
  relations_from_str (rrender f) = Ok (rtree_of f).
Print Assumptions C10_from_str.

(* 5. The full statement of the lossless clause, for EVERY well-formed field: the accessors'
   result, read back as content (racc_view: a returned architecture "!x" is the negated x), IS the
   content -- entries, alternatives, names, qualifiers, operators, versions with epoch,
   architecture lists with their negations, profile groups, substitution variables. *)
Theorem C10_content : forall allow (f : rfield), wf_rfield allow f = true ->
  exists a, parse_relaxed (rrender f) allow = Ok (rtree_of f, 0) /\
            racc (rtree_of f) = Ok a /\ racc_view a = rcontent f.
Proof.
  intros allow f H. destruct (C10_lossless_all allow f H) as (_ & _ & A & _ & C).
  exists (rcontent_acc f). split; [exact A|]. split; [exact C|]. apply (racc_view_content allow), H.
Qed.
Check C10_content : forall allow (f : rfield), wf_rfield allow f = true ->
  exists a, parse_relaxed (rrender f) allow = Ok (rtree_of f, 0) /\
            racc (rtree_of f) = Ok a /\ racc_view a = rcontent f.
Print Assumptions C10_content.

Definition C10_full : Prop :=
  forall allow (f : rfield), wf_rfield allow f = true ->
  exists a, parse_relaxed (rrender f) allow = Ok (rtree_of f, 0) /\
            racc (rtree_of f) = Ok a /\ racc_view a = rcontent f.
Theorem C10_full_holds : C10_full.
Proof. exact C10_content. Qed.
Check C10_full_holds : C10_full.
Print Assumptions C10_full_holds.

(* 6. Before /repo 541b0f5 architectures() returned the IDENT tokens only
   (RelParsePre.relation_architectures_pre): for "a [!b]" it yields ["b"], today ["!b"]. *)
Definition C10_neg_witness : rfield :=
  mk_rfield [] (IEntry (mk_rel [97%N] None None (Some (mk_group [32%N] [mk_term [] true [98%N]] [])) [] []) []) [].
Theorem C10_prefix_arch_negation_refuted :
  wf_rfield false C10_neg_witness = true /\ has_neg_arch C10_neg_witness = true /\
  rrender C10_neg_witness = [97; 32; 91; 33; 98; 93]%N /\
  map (map RelParsePre.relation_architectures_pre) (map entry_relations (relations_entries (rtree_of C10_neg_witness)))
    = [[Some [[98%N]]]] /\
  map (map relation_architectures) (map entry_relations (relations_entries (rtree_of C10_neg_witness)))
    = [[Some [[33; 98]%N]]] /\
  map (map x_archs) (fst (rcontent C10_neg_witness)) = [[Some [(true, [98%N])]]].
Proof. vm_compute. repeat split. Qed.
Check C10_prefix_arch_negation_refuted :
  wf_rfield false C10_neg_witness = true /\ has_neg_arch C10_neg_witness = true /\
  rrender C10_neg_witness = [97; 32; 91; 33; 98; 93]%N /\
  map (map RelParsePre.relation_architectures_pre) (map entry_relations (relations_entries (rtree_of C10_neg_witness)))
    = [[Some [[98%N]]]] /\
  map (map relation_architectures) (map entry_relations (relations_entries (rtree_of C10_neg_witness)))
    = [[Some [[33; 98]%N]]] /\
  map (map x_archs) (fst (rcontent C10_neg_witness)) = [[Some [(true, [98%N])]]].
Print Assumptions C10_prefix_arch_negation_refuted.

(* 7. The code before /repo 0eb8794 / 43dd02f (model/RelParsePre.v) violated the property on
   versions with an epoch and on whitespace before ")": three errors each. *)
Definition C10_epoch_witness : rfield :=       (* "a (>= 1:2.0)" *)
  mk_rfield [] (IEntry (mk_rel [97%N] None (Some (mk_vclause [32%N] [] VGe [32%N] (Some [49%N]) [50; 46; 48]%N [] [])) None [] []) []) [].
Definition C10_space_witness : rfield :=       (* "a (>= 1 )" *)
  mk_rfield [] (IEntry (mk_rel [97%N] None (Some (mk_vclause [32%N] [] VGe [32%N] None [49%N] [] [32%N])) None [] []) []) [].
Theorem C10_prefix_epoch_refuted :
  wf_rfield false C10_epoch_witness = true /\
  rrender C10_epoch_witness = [97; 32; 40; 62; 61; 32; 49; 58; 50; 46; 48; 41]%N /\
  exists t, RelParsePre.parse (rrender C10_epoch_witness) false = Ok (t, 3) /\
            RelParse.parse (rrender C10_epoch_witness) false = Ok (rtree_of C10_epoch_witness, 0).
Proof. split; [reflexivity|]. split; [reflexivity|]. eexists. split; vm_compute; reflexivity. Qed.
Check C10_prefix_epoch_refuted :
  wf_rfield false C10_epoch_witness = true /\
  rrender C10_epoch_witness = [97; 32; 40; 62; 61; 32; 49; 58; 50; 46; 48; 41]%N /\
  exists t, RelParsePre.parse (rrender C10_epoch_witness) false = Ok (t, 3) /\
            RelParse.parse (rrender C10_epoch_witness) false = Ok (rtree_of C10_epoch_witness, 0).
Print Assumptions C10_prefix_epoch_refuted.

Theorem C10_prefix_space_refuted :
  wf_rfield false C10_space_witness = true /\
  rrender C10_space_witness = [97; 32; 40; 62; 61; 32; 49; 32; 41]%N /\
  exists t, RelParsePre.parse (rrender C10_space_witness) false = Ok (t, 3) /\
            RelParse.parse (rrender C10_space_witness) false = Ok (rtree_of C10_space_witness, 0).
Proof. split; [reflexivity|]. split; [reflexivity|]. eexists. split; vm_compute; reflexivity. Qed.
Check C10_prefix_space_refuted :
  wf_rfield false C10_space_witness = true /\
  rrender C10_space_witness = [97; 32; 40; 62; 61; 32; 49; 32; 41]%N /\
  exists t, RelParsePre.parse (rrender C10_space_witness) false = Ok (t, 3) /\
            RelParse.parse (rrender C10_space_witness) false = Ok (rtree_of C10_space_witness, 0).
Print Assumptions C10_prefix_space_refuted.

(* 8. The lossy-reader clause: the lossy reader accepts the same fields and yields the same
   structure.  The lossy reader is the model of the cone of C14 (coq/model/RelLossy.v:
   lossy::Relations::from_str with str::split / trim, a lexer run per relation, the hand-written
   token reader, and C14's model of debversion) AS PATCHED by
   proposed_fixes/C14-lossy-newlines.patch (a line break is white space wherever a blank is; white
   space is skipped after the ":" of a qualifier); [lossy_model] shows its value in the accessors'
   type RelAcc.relc -- proofs/RelGrammarLossyP.v.
   Domain: EVERY well-formed field without substitution variables (wf_rfield false), every
   whitespace slot any run of SP / TAB / LF.  Substitution variables are the only exclusion
   (C10_lossy_substvar_needed); the reader before the patch rejected twelve more layouts
   (C10_lossy_old_newline_refuted). *)
Definition C10_lossy_full (lossy_relations_from_str : str -> res (list (list relc))) : Prop :=
  forall f : rfield, wf_rfield false f = true ->
  exists es, lossy_relations_from_str (rrender f) = Ok es /\ map (map relc_view) es = fst (rcontent f).
Definition C10_lossy_RelLossy : Prop := C10_lossy_full lossy_model.

(* the exact value: the content in the accessors' type; read back as content it IS the content *)
Theorem C10_lossy : forall f : rfield, wf_rfield false f = true ->
  lossy_model (rrender f) = Ok (fst (rcontent_acc f)) /\
  map (map relc_view) (fst (rcontent_acc f)) = fst (rcontent f).
Proof. exact C10_lossy_all. Qed.
Check C10_lossy : forall f : rfield, wf_rfield false f = true ->
  lossy_model (rrender f) = Ok (fst (rcontent_acc f)) /\
  map (map relc_view) (fst (rcontent_acc f)) = fst (rcontent f).
Print Assumptions C10_lossy.

Theorem C10_lossy_full_holds : C10_lossy_RelLossy.
Proof. intros f Hwf. destruct (C10_lossy_all f Hwf) as [A B]. exists (fst (rcontent_acc f)). split; assumption. Qed.
Check C10_lossy_full_holds : C10_lossy_full lossy_model.
Print Assumptions C10_lossy_full_holds.

(* the same structure as the lossless accessors report for the same text *)
Theorem C10_lossy_agrees_with_lossless : forall f : rfield, wf_rfield false f = true ->
  exists a, relations_from_str (rrender f) = Ok (rtree_of f) /\ racc (rtree_of f) = Ok a /\
            lossy_model (rrender f) = Ok (fst a).
Proof.
  intros f Hwf. exists (rcontent_acc f). split; [apply C10_from_str, Hwf|].
  split; [apply (C10_lossless false f Hwf)|apply (C10_lossy_all f Hwf)].
Qed.
Check C10_lossy_agrees_with_lossless : forall f : rfield, wf_rfield false f = true ->
  exists a, relations_from_str (rrender f) = Ok (rtree_of f) /\ racc (rtree_of f) = Ok a /\
            lossy_model (rrender f) = Ok (fst a).
Print Assumptions C10_lossy_agrees_with_lossless.

(* the value of the lossy model itself (lossy::Relation values with C14's dversion) *)
Theorem C10_lossy_value : forall f : rfield, wf_rfield false f = true ->
  RelLossy.relations_from_str RelLossy.dv_parse (rrender f) = Ok (lossy_field f).
Proof. exact lossy_rrender. Qed.
Check C10_lossy_value : forall f : rfield, wf_rfield false f = true ->
  RelLossy.relations_from_str RelLossy.dv_parse (rrender f) = Ok (lossy_field f).
Print Assumptions C10_lossy_value.

(* the only exclusion: a field with a substitution variable ("${a}", well-formed when they are
   allowed) is not in the lossy clause's domain, and the lossy reader rejects it *)
Theorem C10_lossy_substvar_needed :
  let f := mk_rfield [] (ISubst [97%N] [] []) [] in
  wf_rfield true f = true /\ wf_rfield false f = false /\ lossy_dom f = false /\
  rrender f = [36; 123; 97; 125]%N /\ exists e, lossy_model (rrender f) = Err e.
Proof. cbv zeta. repeat split; try reflexivity. eexists. vm_compute. reflexivity. Qed.
Check C10_lossy_substvar_needed :
  let f := mk_rfield [] (ISubst [97%N] [] []) [] in
  wf_rfield true f = true /\ wf_rfield false f = false /\ lossy_dom f = false /\
  rrender f = [36; 123; 97; 125]%N /\ exists e, lossy_model (rrender f) = Err e.
Print Assumptions C10_lossy_substvar_needed.

(* History (audit A4): the lossy reader BEFORE proposed_fixes/C14-lossy-newlines.patch
   (the RelLossy.oldnl_ definitions) rejected a line break in any whitespace slot inside a relation and a blank
   after the ":" of a qualifier -- counterexamples to this clause on the code of that time, one
   well-formed field per slot; the patched reader reads all twelve:
   "a\n:b" "a: b" "a\n(= 1)" "a (\n= 1)" "a (=\n1)" "a (= 1\n)" "a\n[b]" "a [\nb]" "a [b\n]" "a\n<b>" "a <\nb>" "a <b\n>" *)
Definition lossy_model_old (s : str) : res (list (list relc)) :=
  rmap (map (map relc_of_lossy)) (RelLossy.oldnl_relations_from_str RelLossy.dv_parse s).
Definition C10_lossy_old_witnesses : list rfield :=
  let nl := [10%N] in let sp := [32%N] in let a := [97%N] in let b := [98%N] in let one := [49%N] in
  let mk q v ar ps := mk_rfield [] (IEntry (mk_rel a q v ar ps []) []) [] in
  let vc w0 w1 w2 w3 := Some (mk_vclause w0 w1 VEq w2 None one [] w3) in
  let gr w0 wt w1 := mk_group w0 [mk_term wt false b] w1 in
  [ mk (Some (mk_qual nl [] b)) None None [];  mk (Some (mk_qual [] sp b)) None None [];
    mk None (vc nl [] sp []) None [];  mk None (vc sp nl sp []) None [];  mk None (vc sp [] nl []) None [];
    mk None (vc sp [] sp nl) None [];
    mk None None (Some (gr nl [] [])) [];  mk None None (Some (gr sp nl [])) [];  mk None None (Some (gr sp [] nl)) [];
    mk None None None [gr nl [] []];  mk None None None [gr sp nl []];  mk None None None [gr sp [] nl] ].
Theorem C10_lossy_old_newline_refuted :
  length C10_lossy_old_witnesses = 12 /\
  Forall (fun f => wf_rfield false f = true /\
                   (exists e, lossy_model_old (rrender f) = Err e) /\
                   lossy_model (rrender f) = Ok (fst (rcontent_acc f))) C10_lossy_old_witnesses.
Proof.
  split; [reflexivity|].
  repeat (constructor; [split; [reflexivity|]; split; [eexists; vm_compute; reflexivity|vm_compute; reflexivity]|]).
  constructor.
Qed.
Check C10_lossy_old_newline_refuted :
  length C10_lossy_old_witnesses = 12 /\
  Forall (fun f => wf_rfield false f = true /\
                   (exists e, lossy_model_old (rrender f) = Err e) /\
                   lossy_model (rrender f) = Ok (fst (rcontent_acc f))) C10_lossy_old_witnesses.
Print Assumptions C10_lossy_old_newline_refuted.

(* non-vacuity of the lossy clause: every optional part, odd whitespace (tabs, runs of blanks, LF
   with indentation INSIDE relations as well as around "," and "|"), a blank after the ":" of a
   qualifier, an epoch with further colons, negated terms:
   "a\n (= 0:1)\n | b [!x\n y],\n"  and
   "\n libc6 \t: any\t(  >=\n\t1:2.0~rc1-1:x )  [ amd64\t\ti386\n ] <!nocheck>\t<\ncross  !nocheck >\t\n,\n  g++ (<< 4.9)\n |\n\tc,," *)
Definition C10_lossy_ex1 : rfield :=
  mk_rfield [] (IEntry (mk_rel [97%N] None (Some (mk_vclause [10; 32]%N [] VEq [32%N] (Some [48%N]) [49%N] [] [])) None [] [10; 32]%N)
                       [([32%N], mk_rel [98%N] None None (Some (mk_group [32%N] [mk_term [] true [120%N]; mk_term [10; 32]%N false [121%N]] [])) [] [])])
            [([10%N], IEmpty)].
Definition C10_lossy_ex2 : rfield :=
  let sp := [32%N] in let tb := [9%N] in
  let libc := [108; 105; 98; 99; 54]%N in let gpp := [103; 43; 43]%N in let any := [97; 110; 121]%N in
  let amd := [97; 109; 100; 54; 52]%N in let i386 := [105; 51; 56; 54]%N in
  let nocheck := [110; 111; 99; 104; 101; 99; 107]%N in let cross := [99; 114; 111; 115; 115]%N in
  let r1 := mk_rel libc (Some (mk_qual [32; 9]%N sp any))
                   (Some (mk_vclause tb [32; 32]%N VGe [10; 9]%N (Some [49%N]) [50; 46; 48; 126; 114; 99; 49; 45; 49]%N [[120%N]] sp))
                   (Some (mk_group [32; 32]%N [mk_term sp false amd; mk_term [9; 9]%N false i386] [10; 32]%N))
                   [mk_group sp [mk_term [] true nocheck] []; mk_group tb [mk_term [10%N] false cross; mk_term [32; 32]%N true nocheck] sp] [9; 10]%N in
  let r2 := mk_rel gpp None (Some (mk_vclause sp [] VLt sp None [52; 46; 57]%N [] [])) None [] [10; 32]%N in
  let r3 := mk_rel [99%N] None None None [] [] in
  mk_rfield [10; 32]%N (IEntry r1 []) [([10; 32; 32]%N, IEntry r2 [([10; 9]%N, r3)]); ([], IEmpty); ([], IEmpty)].
Example C10_lossy_ex :
  (wf_rfield false C10_lossy_ex1 = true /\
   exists es, lossy_model (rrender C10_lossy_ex1) = Ok es /\ map (map relc_view) es = fst (rcontent C10_lossy_ex1)) /\
  (wf_rfield false C10_lossy_ex2 = true /\
   exists es, lossy_model (rrender C10_lossy_ex2) = Ok es /\ map (map relc_view) es = fst (rcontent C10_lossy_ex2) /\
              map (map c_name) es = [[[108; 105; 98; 99; 54]]; [[103; 43; 43]; [99]]]%N).
Proof.
  split; [split; [reflexivity|]; eexists; split; vm_compute; reflexivity|].
  split; [reflexivity|]. eexists. split; [vm_compute; reflexivity|]. split; vm_compute; reflexivity.
Qed.

(* 9. THE IMAGE OF THE READER.  The fields of sections 1-8 are the Policy grammar; the reader accepts
   more without reporting an error.  RelGrammarAll.afield are the LIBERAL layouts: white space as
   token lists (CR included), any run of "<" ">" "=" (also none) as operator, any non-empty run of
   IDENT and ":" tokens as version, any sequence of "!" and names inside [...] (also none), any
   sequence of terms  name | "!" ws name  inside <...> (also none), any run of IDENT and ":" inside
   ${...}.  [awf] = the right shape + a token list the lexer produces ([lexable], characterised in
   proofs/RelLexInvP.v: lexable ts <-> rlex (concat texts) = Ok ts). *)

(* 9a. completeness: every text read without error IS the rendering of a liberal layout, whose
   tree is the tree read and whose content (with the accessors' documented panics) is what the
   accessors report -- both settings of allow_substvar, every string *)
Theorem C10_image : forall (s : str) (allow : bool) (t : rtree), parse_relaxed s allow = Ok (t, 0) ->
  exists g : afield, awf allow g = true /\ arender g = s /\ atree_of g = t /\ racc t = acontent g.
Proof. exact reader_image. Qed.
Check C10_image : forall (s : str) (allow : bool) (t : rtree), parse_relaxed s allow = Ok (t, 0) ->
  exists g : afield, awf allow g = true /\ arender g = s /\ atree_of g = t /\ racc t = acontent g.
Print Assumptions C10_image.

(* 9b. soundness: every liberal layout is read back, without error, to its own tree *)
Theorem C10_image_sound : forall (allow : bool) (g : afield), awf allow g = true ->
  parse_relaxed (arender g) allow = Ok (atree_of g, 0) /\ text (atree_of g) = arender g /\
  racc (atree_of g) = acontent g.
Proof. exact liberal_sound. Qed.
Check C10_image_sound : forall (allow : bool) (g : afield), awf allow g = true ->
  parse_relaxed (arender g) allow = Ok (atree_of g, 0) /\ text (atree_of g) = arender g /\
  racc (atree_of g) = acontent g.
Print Assumptions C10_image_sound.

(* 9c. hence: a text is read without error exactly when it is the rendering of a liberal layout,
   and the layout is unique (token for token) *)
Theorem C10_image_iff : forall (s : str) (allow : bool),
  (exists t, parse_relaxed s allow = Ok (t, 0)) <-> (exists g, awf allow g = true /\ arender g = s).
Proof.
  intros s allow. split.
  - intros (t & H). destruct (reader_image s allow t H) as (g & Hw & Hr & _). exists g. split; assumption.
  - intros (g & Hw & <-). exists (atree_of g). apply (liberal_sound allow g Hw).
Qed.
Check C10_image_iff : forall (s : str) (allow : bool),
  (exists t, parse_relaxed s allow = Ok (t, 0)) <-> (exists g, awf allow g = true /\ arender g = s).
Print Assumptions C10_image_iff.

Theorem C10_image_unique : forall allow g1 g2, awf allow g1 = true -> awf allow g2 = true ->
  arender g1 = arender g2 -> atoks g1 = atoks g2 /\ atree_of g1 = atree_of g2.
Proof. exact liberal_unique. Qed.
Check C10_image_unique : forall allow g1 g2, awf allow g1 = true -> awf allow g2 = true ->
  arender g1 = arender g2 -> atoks g1 = atoks g2 /\ atree_of g1 = atree_of g2.
Print Assumptions C10_image_unique.

(* 9d. the well-formed fields of this property are liberal layouts, with the same text, tokens, tree
   and content *)
Theorem C10_image_embeds : forall allow (f : rfield), wf_rfield allow f = true ->
  awf allow (lib_of f) = true /\ arender (lib_of f) = rrender f /\ atoks (lib_of f) = rtoks f /\
  atree_of (lib_of f) = rtree_of f /\ acontent (lib_of f) = Ok (rcontent_acc f).
Proof. exact lib_of_agrees. Qed.
Check C10_image_embeds : forall allow (f : rfield), wf_rfield allow f = true ->
  awf allow (lib_of f) = true /\ arender (lib_of f) = rrender f /\ atoks (lib_of f) = rtoks f /\
  atree_of (lib_of f) = rtree_of f /\ acontent (lib_of f) = Ok (rcontent_acc f).
Print Assumptions C10_image_embeds.

(* 9e. the token lists the lexer produces *)
Theorem C10_lexable : forall ts : list rtoken, lexable ts = true <-> rlex (rttext_of ts) = Ok ts.
Proof. exact lexable_iff. Qed.
Check C10_lexable : forall ts : list rtoken, lexable ts = true <-> rlex (rttext_of ts) = Ok ts.
Print Assumptions C10_lexable.

(* 9f. The accessor model of the cone of C11 (RelEdit.structure: the list of entries of alternatives,
   version text as written) agrees with racc on EVERY tree -- parsed with or without errors, edited,
   built by hand: whenever racc yields a value, structure yields the same entries and
   alternatives, field by field (rel_agree: names, qualifiers, architectures and profiles equal, the
   version equal up to debversion's re-printing).  With 9a: the structure of every error-free text
   is the content of its liberal layout. *)
Theorem C10_acc_is_structure : forall (t : rtree) a, racc t = Ok a ->
  exists S, RelEdit.structure t = Ok S /\ Forall2 (Forall2 rel_agree) S (fst a) /\
            map (@length _) S = map (@length _) (fst a).
Proof.
  intros t a H. destruct (racc_structure t a H) as (S & E & HS). exists S. split; [exact E|]. split; [exact HS|].
  apply (racc_structure_shape t a S H E).
Qed.
Check C10_acc_is_structure : forall (t : rtree) a, racc t = Ok a ->
  exists S, RelEdit.structure t = Ok S /\ Forall2 (Forall2 rel_agree) S (fst a) /\
            map (@length _) S = map (@length _) (fst a).
Print Assumptions C10_acc_is_structure.

Theorem C10_image_structure : forall (s : str) (allow : bool) (t : rtree) a,
  parse_relaxed s allow = Ok (t, 0) -> racc t = Ok a ->
  exists (g : afield) S, awf allow g = true /\ arender g = s /\ atree_of g = t /\ acontent g = Ok a /\
    RelEdit.structure t = Ok S /\ Forall2 (Forall2 rel_agree) S (fst a).
Proof.
  intros s allow t a Hp Ha. destruct (reader_image s allow t Hp) as (g & Hw & Hr & Ht & Hc).
  destruct (racc_structure t a Ha) as (S & E & HS). exists g, S. repeat split; try assumption. rewrite <- Hc. exact Ha.
Qed.
Check C10_image_structure : forall (s : str) (allow : bool) (t : rtree) a,
  parse_relaxed s allow = Ok (t, 0) -> racc t = Ok a ->
  exists (g : afield) S, awf allow g = true /\ arender g = s /\ atree_of g = t /\ acontent g = Ok a /\
    RelEdit.structure t = Ok S /\ Forall2 (Forall2 rel_agree) S (fst a).
Print Assumptions C10_image_structure.

(* liberal layouts outside the Policy grammar: "a []", "a <>", "a (= 5::)", "a (> 1)", "a ( 1 )":
   each is well-formed as a liberal layout, read without error, and the accessors give the content
   shown (version() panics when the operator is not one of the five: Panic 11) *)
Definition C10_lib_mk q v a p : afield := mk_afield [] (AEntry (mk_arel [97%N] q v a p []) []) [].
Definition C10_sp : list rtoken := [(WHITESPACE, [32%N])].
Example C10_image_ex :
  let e1 := C10_lib_mk None None (Some (mk_agroup C10_sp [] [])) [] in
  let e2 := C10_lib_mk None None None [mk_pgroup C10_sp [] []] in
  let e3 := C10_lib_mk None (Some (mk_aver C10_sp [] [61%N] C10_sp [VId [53%N]; VColon; VColon] [])) None [] in
  let e4 := C10_lib_mk None (Some (mk_aver C10_sp [] [62%N] C10_sp [VId [49%N]] [])) None [] in
  let e5 := C10_lib_mk None (Some (mk_aver C10_sp C10_sp [] [] [VId [49%N]] C10_sp)) None [] in
  map arender [e1; e2; e3; e4; e5] =
    [[97; 32; 91; 93]; [97; 32; 60; 62]; [97; 32; 40; 61; 32; 53; 58; 58; 41]; [97; 32; 40; 62; 32; 49; 41]; [97; 32; 40; 32; 49; 32; 41]]%N /\
  map (awf false) [e1; e2; e3; e4; e5] = [true; true; true; true; true] /\
  map (fun g => parse_relaxed (arender g) false) [e1; e2; e3; e4; e5] = map (fun g => Ok (atree_of g, 0)) [e1; e2; e3; e4; e5] /\
  map acontent [e1; e2; e3] =
    [Ok ([[mk_relc [97%N] None None (Some []) []]], []); Ok ([[mk_relc [97%N] None None None [[]]]], []);
     Ok ([[mk_relc [97%N] None (Some (VEq, [53; 58; 58]%N)) None []]], [])] /\
  map acontent [e4; e5] = [Panic 11%N; Panic 11%N].
Proof. vm_compute. repeat split. Qed.
(* ... and odd but error-free text: "\r a:b(=<1:)[!! x\t!]<a!b ! c><>|z , ${::a:},," *)
Example C10_image_ex_text :
  let s := [13; 32; 97; 58; 98; 40; 61; 60; 49; 58; 41; 91; 33; 33; 32; 120; 9; 33; 93; 60; 97; 33; 98; 32; 33; 32; 99; 62; 60; 62; 124; 122; 32; 44; 32; 36; 123; 58; 58; 97; 58; 125; 44; 44]%N in
  (exists t, parse_relaxed s true = Ok (t, 0)) /\ (exists g, awf true g = true /\ arender g = s).
Proof.
  cbv zeta. assert (H : exists t, parse_relaxed [13; 32; 97; 58; 98; 40; 61; 60; 49; 58; 41; 91; 33; 33; 32; 120; 9; 33; 93; 60; 97; 33; 98; 32; 33; 32; 99; 62; 60; 62; 124; 122; 32; 44; 32; 36; 123; 58; 58; 97; 58; 125; 44; 44]%N true = Ok (t, 0))
    by (eexists; vm_compute; reflexivity).
  split; [exact H|]. apply C10_image_iff. exact H.
Qed.

(* Non-vacuity: a field using every construct and every whitespace slot is well-formed.
   " libc6:any (>= 1:2.0~rc1-1) [amd64 i386] <!nocheck> < cross\n !nocheck > | g++( <<4.9\n )|\n a : any\n ,\n ${misc:Depends} ,, g++( <<4.9\n )," *)
Definition C10_ex : rfield :=
  let sp := [32%N] in let nl := [10; 32]%N in
  let libc := [108; 105; 98; 99; 54]%N in let gpp := [103; 43; 43]%N in let any := [97; 110; 121]%N in
  let amd := [97; 109; 100; 54; 52]%N in let i386 := [105; 51; 56; 54]%N in
  let nocheck := [110; 111; 99; 104; 101; 99; 107]%N in let cross := [99; 114; 111; 115; 115]%N in
  let r1 := mk_rel libc (Some (mk_qual [] [] any))
                   (Some (mk_vclause sp [] VGe sp (Some [49%N]) [50; 46; 48; 126; 114; 99; 49; 45; 49]%N [] []))
                   (Some (mk_group sp [mk_term [] false amd; mk_term sp false i386] []))
                   [mk_group sp [mk_term [] true nocheck] []; mk_group sp [mk_term sp false cross; mk_term nl true nocheck] sp] sp in
  let r2 := mk_rel gpp None (Some (mk_vclause [] sp VLt [] None [52; 46; 57]%N [] nl)) None [] [] in
  let r3 := mk_rel [97%N] (Some (mk_qual sp sp any)) None None [] nl in
  mk_rfield sp (IEntry r1 [(sp, r2); (nl, r3)])
    [(nl, ISubst [109; 105; 115; 99]%N [[68; 101; 112; 101; 110; 100; 115]%N] sp); ([], IEmpty); (sp, IEntry r2 []); ([], IEmpty)].
Example C10_ex_wf :
  wf_rfield true C10_ex = true /\
  rrender C10_ex =
    [32; 108; 105; 98; 99; 54; 58; 97; 110; 121; 32; 40; 62; 61; 32; 49; 58; 50; 46; 48; 126; 114; 99; 49; 45; 49; 41;
     32; 91; 97; 109; 100; 54; 52; 32; 105; 51; 56; 54; 93; 32; 60; 33; 110; 111; 99; 104; 101; 99; 107; 62; 32; 60; 32;
     99; 114; 111; 115; 115; 10; 32; 33; 110; 111; 99; 104; 101; 99; 107; 32; 62; 32; 124; 32; 103; 43; 43; 40; 32; 60;
     60; 52; 46; 57; 10; 32; 41; 124; 10; 32; 97; 32; 58; 32; 97; 110; 121; 10; 32; 44; 10; 32; 36; 123; 109; 105; 115;
     99; 58; 68; 101; 112; 101; 110; 100; 115; 125; 32; 44; 44; 32; 103; 43; 43; 40; 32; 60; 60; 52; 46; 57; 10; 32; 41; 44]%N /\
  map (map x_name) (fst (rcontent C10_ex)) = [[[108; 105; 98; 99; 54]; [103; 43; 43]; [97]]; [[103; 43; 43]]]%N /\
  snd (rcontent C10_ex) = [[36; 123; 109; 105; 115; 99; 58; 68; 101; 112; 101; 110; 100; 115; 125]]%N.
Proof. vm_compute. repeat split. Qed.
(* a version with colons after the epoch, "a (= 0:09:09-s)" (the input that led to /repo c2fa7c8) *)
Example C10_ex_colons :
  let f := mk_rfield [] (IEntry (mk_rel [97%N] None (Some (mk_vclause [32%N] [] VEq [32%N] (Some [48%N]) [48; 57]%N [[48; 57; 45; 115]%N] [])) None [] []) []) [] in
  wf_rfield false f = true /\
  rrender f = [97; 32; 40; 61; 32; 48; 58; 48; 57; 58; 48; 57; 45; 115; 41]%N /\
  map (map x_ver) (fst (rcontent f)) = [[Some (VEq, [48; 58; 48; 57; 58; 48; 57; 45; 115]%N)]].
Proof. vm_compute. repeat split. Qed.
(* a field without substitution variables, inside the lossy clause's domain *)
Example C10_ex_strict :
  let f := mk_rfield [] (IEntry (mk_rel [97%N] None (Some (mk_vclause [32%N] [] VEq [32%N] (Some [48%N]) [49%N] [] [32%N])) None [] [10; 32]%N)
                               [([32%N], mk_rel [98%N] None None None [] [])]) [([10; 32]%N, IEmpty)] in
  wf_rfield false f = true /\ lossy_dom f = true /\
  rrender f = [97; 32; 40; 61; 32; 48; 58; 49; 32; 41; 10; 32; 124; 32; 98; 44; 10; 32]%N.
Proof. vm_compute. repeat split. Qed.
