(* C18 — typed field values round-trip through their text form.
   Statements only; proofs in proofs/CodecStrP.v, EnumTabP.v, CodecsP.v, VcsP.v.

   Quantifier: all values of each type (enumerations: every value of ANY keyword table that
   satisfies the decidable side condition enum_ok, which the tables regenerated from the Rust
   sources satisfy — C18_tables_ok, closed by vm_compute over the finite tables; records: all
   whitespace-free non-empty tokens and all sizes below 2^64; VCS locations: all four
   combinations of branch and subpath), and ALL strings for the rejection / canonical clauses.
   No length bound anywhere.

   Signature is modelled with proposed_fixes/C18-signature-keyblock.patch applied; the reader as
   it is in the unpatched tree violates the round trip for every key block
   (C18_signature_unfixed_refuted). *)
From Coq Require Import Permutation.
From V.model Require Import Base CodecStr EnumTab Codecs Vcs.
From V.gen Require Import Enums_gen.
From V.proofs Require Import CodecStrP EnumTabP CodecsP VcsP.

Local Open Scope N_scope.

(* ================================================================== the generated tables *)
Theorem C18_tables_ok :
  forallb enum_ok all_enums = true /\
  enum_tokens_ok Priority_tab = true /\ et_pre Priority_tab = PreNone /\
  origin_ok OriginCategory_tab parse_origin_tab = true.
Proof. vm_compute. repeat split; reflexivity. Qed.
Check C18_tables_ok :
  forallb enum_ok all_enums = true /\
  enum_tokens_ok Priority_tab = true /\ et_pre Priority_tab = PreNone /\
  origin_ok OriginCategory_tab parse_origin_tab = true.
Print Assumptions C18_tables_ok.

(* the seven enumerations of the statement are all present in the generated file *)
Theorem C18_tables_present :
  all_enums = [MultiArch_tab; Priority_tab; Urgency_tab; VersionConstraint_tab; OriginCategory_tab;
               RepositoryType_tab; YesNoForce_tab].
Proof. reflexivity. Qed.
Check C18_tables_present :
  all_enums = [MultiArch_tab; Priority_tab; Urgency_tab; VersionConstraint_tab; OriginCategory_tab;
               RepositoryType_tab; YesNoForce_tab].
Print Assumptions C18_tables_present.

(* ================================================================== enumerations *)
(* parsing the text form of a value returns that value — every value of the type *)
Theorem C18_enum_roundtrip : forall t, enum_ok t = true ->
  forall v, v < enum_size t -> exists k, enum_print t v = Ok k /\ enum_parse t k = Ok v.
Proof. exact enum_roundtrip. Qed.
Check C18_enum_roundtrip : forall t, enum_ok t = true ->
  forall v, v < enum_size t -> exists k, enum_print t v = Ok k /\ enum_parse t k = Ok v.
Print Assumptions C18_enum_roundtrip.

(* every accepted string is — after the reader's own normalisation (identity, or to_lowercase
   for Urgency) — the printed form of the value read: printing a parsed canonical text returns it *)
Theorem C18_enum_canonical : forall t, enum_ok t = true ->
  forall s v, enum_parse t s = Ok v ->
  exists s', enum_pre t s = Ok s' /\ enum_print t v = Ok s' /\ v < enum_size t.
Proof. exact enum_canonical. Qed.
Check C18_enum_canonical : forall t, enum_ok t = true ->
  forall s v, enum_parse t s = Ok v ->
  exists s', enum_pre t s = Ok s' /\ enum_print t v = Ok s' /\ v < enum_size t.
Print Assumptions C18_enum_canonical.

(* all strings: a string that is not (after normalisation) the keyword of some value is rejected
   with the error value — never mapped to a default, never a panic *)
Theorem C18_enum_reject : forall t, enum_ok t = true ->
  forall s s', enum_pre t s = Ok s' ->
  (forall v, v < enum_size t -> enum_print t v <> Ok s') -> enum_parse t s = Err 1.
Proof. exact enum_reject. Qed.
Check C18_enum_reject : forall t, enum_ok t = true ->
  forall s s', enum_pre t s = Ok s' ->
  (forall v, v < enum_size t -> enum_print t v <> Ok s') -> enum_parse t s = Err 1.
Print Assumptions C18_enum_reject.

Theorem C18_enum_total : forall t, enum_ok t = true ->
  forall s, (exists v, enum_parse t s = Ok v) \/ enum_parse t s = Err 1.
Proof. exact enum_parse_total. Qed.
Check C18_enum_total : forall t, enum_ok t = true ->
  forall s, (exists v, enum_parse t s = Ok v) \/ enum_parse t s = Err 1.
Print Assumptions C18_enum_total.

(* the instance for the tables translated from the current sources *)
Theorem C18_enums_generated : forall t, In t all_enums ->
  (forall v, v < enum_size t -> exists k, enum_print t v = Ok k /\ enum_parse t k = Ok v) /\
  (forall s v, enum_parse t s = Ok v ->
     exists s', enum_pre t s = Ok s' /\ enum_print t v = Ok s' /\ v < enum_size t) /\
  (forall s s', enum_pre t s = Ok s' ->
     (forall v, v < enum_size t -> enum_print t v <> Ok s') -> enum_parse t s = Err 1).
Proof.
  intros t Hin. destruct C18_tables_ok as [H _]. rewrite forallb_forall in H. specialize (H t Hin).
  split; [exact (enum_roundtrip t H)|]. split; [exact (enum_canonical t H)|exact (enum_reject t H)].
Qed.
Check C18_enums_generated : forall t, In t all_enums ->
  (forall v, v < enum_size t -> exists k, enum_print t v = Ok k /\ enum_parse t k = Ok v) /\
  (forall s v, enum_parse t s = Ok v ->
     exists s', enum_pre t s = Ok s' /\ enum_print t v = Ok s' /\ v < enum_size t) /\
  (forall s s', enum_pre t s = Ok s' ->
     (forall v, v < enum_size t -> enum_print t v <> Ok s') -> enum_parse t s = Err 1).
Print Assumptions C18_enums_generated.

(* ================================================================== integers inside the records *)
Theorem C18_usize_roundtrip : forall n, n < usize_limit -> parse_usize (print_usize n) = Ok n.
Proof. exact usize_roundtrip. Qed.
Check C18_usize_roundtrip : forall n, n < usize_limit -> parse_usize (print_usize n) = Ok n.
Print Assumptions C18_usize_roundtrip.

Theorem C18_usize_canonical : forall s n,
  canon_dec s = true -> parse_usize s = Ok n -> print_usize n = s.
Proof. exact usize_canonical. Qed.
Check C18_usize_canonical : forall s n,
  canon_dec s = true -> parse_usize s = Ok n -> print_usize n = s.
Print Assumptions C18_usize_canonical.

(* ================================================================== the four checksum records *)
Theorem C18_cksum_roundtrip : forall (k : ck_kind) (v : cksum),
  cksum_valid v = true -> cksum_from_str k (cksum_to_string k v) = Ok v.
Proof. exact cksum_roundtrip. Qed.
Check C18_cksum_roundtrip : forall (k : ck_kind) (v : cksum),
  cksum_valid v = true -> cksum_from_str k (cksum_to_string k v) = Ok v.
Print Assumptions C18_cksum_roundtrip.

Theorem C18_cksum_canonical : forall (k : ck_kind) (s : str) (v : cksum),
  cksum_canon s = true -> cksum_from_str k s = Ok v -> cksum_to_string k v = s.
Proof. exact cksum_canonical. Qed.
Check C18_cksum_canonical : forall (k : ck_kind) (s : str) (v : cksum),
  cksum_canon s = true -> cksum_from_str k s = Ok v -> cksum_to_string k v = s.
Print Assumptions C18_cksum_canonical.

Theorem C18_cksum_canon_accepted : forall (k : ck_kind) (s : str),
  cksum_canon s = true ->
  (forall a b c, split_ws s = [a; b; c] -> dval 0 b < usize_limit) ->
  exists v, cksum_from_str k s = Ok v.
Proof. exact cksum_canon_accepted. Qed.
Check C18_cksum_canon_accepted : forall (k : ck_kind) (s : str),
  cksum_canon s = true ->
  (forall a b c, split_ws s = [a; b; c] -> dval 0 b < usize_limit) ->
  exists v, cksum_from_str k s = Ok v.
Print Assumptions C18_cksum_canon_accepted.

(* ================================================================== changes::File *)
Theorem C18_file_roundtrip : forall (prio : enum_tab) (v : cfile),
  enum_ok prio = true -> enum_tokens_ok prio = true -> file_valid prio v = true ->
  exists text, file_to_string prio v = Ok text /\ file_from_str prio text = Ok v.
Proof. exact file_roundtrip. Qed.
Check C18_file_roundtrip : forall (prio : enum_tab) (v : cfile),
  enum_ok prio = true -> enum_tokens_ok prio = true -> file_valid prio v = true ->
  exists text, file_to_string prio v = Ok text /\ file_from_str prio text = Ok v.
Print Assumptions C18_file_roundtrip.

Theorem C18_file_canonical : forall (prio : enum_tab) (s : str) (v : cfile),
  enum_ok prio = true -> et_pre prio = PreNone ->
  file_canon s = true -> file_from_str prio s = Ok v -> file_to_string prio v = Ok s.
Proof. exact file_canonical. Qed.
Check C18_file_canonical : forall (prio : enum_tab) (s : str) (v : cfile),
  enum_ok prio = true -> et_pre prio = PreNone ->
  file_canon s = true -> file_from_str prio s = Ok v -> file_to_string prio v = Ok s.
Print Assumptions C18_file_canonical.

(* ================================================================== PackageListEntry *)
Theorem C18_ple_roundtrip : forall (prio : enum_tab) (v : ple) (order : list (str * str)),
  enum_ok prio = true -> enum_tokens_ok prio = true -> ple_valid prio v = true ->
  Permutation order (pl_extra v) ->
  exists text, ple_to_string prio v order = Ok text /\
    ple_from_str prio text =
      Ok {| pl_package := pl_package v; pl_type := pl_type v; pl_section := pl_section v;
            pl_priority := pl_priority v; pl_extra := order |}.
Proof. exact ple_roundtrip. Qed.
Check C18_ple_roundtrip : forall (prio : enum_tab) (v : ple) (order : list (str * str)),
  enum_ok prio = true -> enum_tokens_ok prio = true -> ple_valid prio v = true ->
  Permutation order (pl_extra v) ->
  exists text, ple_to_string prio v order = Ok text /\
    ple_from_str prio text =
      Ok {| pl_package := pl_package v; pl_type := pl_type v; pl_section := pl_section v;
            pl_priority := pl_priority v; pl_extra := order |}.
Print Assumptions C18_ple_roundtrip.

Theorem C18_ple_canonical : forall (prio : enum_tab) (s : str) (v : ple),
  enum_ok prio = true -> et_pre prio = PreNone ->
  ple_canon s = true -> ple_from_str prio s = Ok v -> ple_to_string prio v (pl_extra v) = Ok s.
Proof. exact ple_canonical. Qed.
Check C18_ple_canonical : forall (prio : enum_tab) (s : str) (v : ple),
  enum_ok prio = true -> et_pre prio = PreNone ->
  ple_canon s = true -> ple_from_str prio s = Ok v -> ple_to_string prio v (pl_extra v) = Ok s.
Print Assumptions C18_ple_canonical.

(* the record theorems for the Priority table translated from the current sources *)
Theorem C18_records_generated :
  (forall v, file_valid Priority_tab v = true ->
     exists text, file_to_string Priority_tab v = Ok text /\ file_from_str Priority_tab text = Ok v) /\
  (forall s v, file_canon s = true -> file_from_str Priority_tab s = Ok v -> file_to_string Priority_tab v = Ok s) /\
  (forall v order, ple_valid Priority_tab v = true -> Permutation order (pl_extra v) ->
     exists text, ple_to_string Priority_tab v order = Ok text /\
       ple_from_str Priority_tab text =
         Ok {| pl_package := pl_package v; pl_type := pl_type v; pl_section := pl_section v;
               pl_priority := pl_priority v; pl_extra := order |}) /\
  (forall s v, ple_canon s = true -> ple_from_str Priority_tab s = Ok v ->
     ple_to_string Priority_tab v (pl_extra v) = Ok s).
Proof.
  destruct C18_tables_ok as [H [Htk [Hpre _]]]. rewrite forallb_forall in H.
  assert (Hok : enum_ok Priority_tab = true) by (apply H; rewrite C18_tables_present; cbn; auto).
  split; [intros v; exact (file_roundtrip Priority_tab v Hok Htk)|].
  split; [intros s v; exact (file_canonical Priority_tab s v Hok Hpre)|].
  split; [intros v order; exact (ple_roundtrip Priority_tab v order Hok Htk)|].
  intros s v; exact (ple_canonical Priority_tab s v Hok Hpre).
Qed.
Check C18_records_generated :
  (forall v, file_valid Priority_tab v = true ->
     exists text, file_to_string Priority_tab v = Ok text /\ file_from_str Priority_tab text = Ok v) /\
  (forall s v, file_canon s = true -> file_from_str Priority_tab s = Ok v -> file_to_string Priority_tab v = Ok s) /\
  (forall v order, ple_valid Priority_tab v = true -> Permutation order (pl_extra v) ->
     exists text, ple_to_string Priority_tab v order = Ok text /\
       ple_from_str Priority_tab text =
         Ok {| pl_package := pl_package v; pl_type := pl_type v; pl_section := pl_section v;
               pl_priority := pl_priority v; pl_extra := order |}) /\
  (forall s v, ple_canon s = true -> ple_from_str Priority_tab s = Ok v ->
     ple_to_string Priority_tab v (pl_extra v) = Ok s).
Print Assumptions C18_records_generated.

(* ================================================================== BuildProfile, Forwarded, Origin, AppliedUpstream *)
Theorem C18_profile :
  (forall v, profile_valid v = true -> profile_from_str (profile_to_string v) = Ok v) /\
  (forall s v, profile_from_str s = Ok v -> profile_to_string v = s).
Proof. split; [exact profile_roundtrip|exact profile_canonical]. Qed.
Check C18_profile :
  (forall v, profile_valid v = true -> profile_from_str (profile_to_string v) = Ok v) /\
  (forall s v, profile_from_str s = Ok v -> profile_to_string v = s).
Print Assumptions C18_profile.

Theorem C18_forwarded :
  (forall v, forwarded_valid v = true -> forwarded_from_str (forwarded_to_string v) = Ok v) /\
  (forall s v, forwarded_from_str s = Ok v -> forwarded_to_string v = s).
Proof. split; [exact forwarded_roundtrip|exact forwarded_canonical]. Qed.
Check C18_forwarded :
  (forall v, forwarded_valid v = true -> forwarded_from_str (forwarded_to_string v) = Ok v) /\
  (forall s v, forwarded_from_str s = Ok v -> forwarded_to_string v = s).
Print Assumptions C18_forwarded.

Theorem C18_origin_applied :
  (forall v, commit_or_valid v = true -> origin_from_str (origin_to_string v) = Ok v) /\
  (forall s v, origin_from_str s = Ok v -> origin_to_string v = s) /\
  (forall v, commit_or_valid v = true -> applied_from_str (applied_to_string v) = Ok v) /\
  (forall s v, applied_from_str s = Ok v -> applied_to_string v = s).
Proof.
  split; [exact origin_roundtrip|]. split; [exact origin_canonical|].
  split; [exact applied_roundtrip|exact applied_canonical].
Qed.
Check C18_origin_applied :
  (forall v, commit_or_valid v = true -> origin_from_str (origin_to_string v) = Ok v) /\
  (forall s v, origin_from_str s = Ok v -> origin_to_string v = s) /\
  (forall v, commit_or_valid v = true -> applied_from_str (applied_to_string v) = Ok v) /\
  (forall s v, applied_from_str s = Ok v -> applied_to_string v = s).
Print Assumptions C18_origin_applied.

(* Origin values with their category prefix: parse_origin / format_origin *)
Theorem C18_origin_with_category : forall (cat : enum_tab) (o : origin_tab),
  enum_ok cat = true -> origin_ok cat o = true ->
  (forall c v, porigin_valid cat o c v = true ->
     exists text, format_origin cat o c v = Ok text /\ parse_origin o text = (c, v)) /\
  (forall s c v, porigin_canon o s = true -> parse_origin o s = (c, v) -> format_origin cat o c v = Ok s).
Proof.
  intros cat o Hc Ho. split.
  - intros c v. exact (porigin_roundtrip cat o c v Hc Ho).
  - intros s c v. exact (porigin_canonical cat o s c v Hc Ho).
Qed.
Check C18_origin_with_category : forall (cat : enum_tab) (o : origin_tab),
  enum_ok cat = true -> origin_ok cat o = true ->
  (forall c v, porigin_valid cat o c v = true ->
     exists text, format_origin cat o c v = Ok text /\ parse_origin o text = (c, v)) /\
  (forall s c v, porigin_canon o s = true -> parse_origin o s = (c, v) -> format_origin cat o c v = Ok s).
Print Assumptions C18_origin_with_category.

Theorem C18_origin_with_category_generated :
  (forall c v, porigin_valid OriginCategory_tab parse_origin_tab c v = true ->
     exists text, format_origin OriginCategory_tab parse_origin_tab c v = Ok text /\
                  parse_origin parse_origin_tab text = (c, v)) /\
  (forall s c v, porigin_canon parse_origin_tab s = true -> parse_origin parse_origin_tab s = (c, v) ->
     format_origin OriginCategory_tab parse_origin_tab c v = Ok s).
Proof.
  destruct C18_tables_ok as [H [_ [_ Ho]]]. rewrite forallb_forall in H.
  assert (Hok : enum_ok OriginCategory_tab = true) by (apply H; rewrite C18_tables_present; cbn; auto 10).
  exact (C18_origin_with_category _ _ Hok Ho).
Qed.
Check C18_origin_with_category_generated :
  (forall c v, porigin_valid OriginCategory_tab parse_origin_tab c v = true ->
     exists text, format_origin OriginCategory_tab parse_origin_tab c v = Ok text /\
                  parse_origin parse_origin_tab text = (c, v)) /\
  (forall s c v, porigin_canon parse_origin_tab s = true -> parse_origin parse_origin_tab s = (c, v) ->
     format_origin OriginCategory_tab parse_origin_tab c v = Ok s).
Print Assumptions C18_origin_with_category_generated.

(* ================================================================== License, Signature *)
Theorem C18_license :
  (forall v, license_valid v = true -> license_from_str (license_to_string v) = Ok v) /\
  (forall s v, license_from_str s = Ok v -> license_to_string v = s).
Proof. split; [exact license_roundtrip|exact license_canonical]. Qed.
Check C18_license :
  (forall v, license_valid v = true -> license_from_str (license_to_string v) = Ok v) /\
  (forall s v, license_from_str s = Ok v -> license_to_string v = s).
Print Assumptions C18_license.

Theorem C18_signature :
  (forall v, signature_valid v = true -> signature_from_str (signature_to_string v) = Ok v) /\
  (forall s v, signature_canon s = true -> signature_from_str s = Ok v -> signature_to_string v = s).
Proof. split; [exact signature_roundtrip|exact signature_canonical]. Qed.
Check C18_signature :
  (forall v, signature_valid v = true -> signature_from_str (signature_to_string v) = Ok v) /\
  (forall s v, signature_canon s = true -> signature_from_str s = Ok v -> signature_to_string v = s).
Print Assumptions C18_signature.

(* the reader in the unpatched tree: no key block at all reads back as itself (the defect the
   proposed fix repairs); the fix changes the reader only on texts that start with a newline *)
Theorem C18_signature_unfixed_refuted :
  (forall t, signature_from_str_unfixed (signature_to_string (KeyBlock t)) = Ok (KeyBlock (10 :: t)) /\
             signature_from_str_unfixed (signature_to_string (KeyBlock t)) <> Ok (KeyBlock t)) /\
  (forall s, starts_with [10] s = false -> signature_from_str s = signature_from_str_unfixed s).
Proof. split; [exact signature_unfixed_refuted|exact signature_fix_scope]. Qed.
Check C18_signature_unfixed_refuted :
  (forall t, signature_from_str_unfixed (signature_to_string (KeyBlock t)) = Ok (KeyBlock (10 :: t)) /\
             signature_from_str_unfixed (signature_to_string (KeyBlock t)) <> Ok (KeyBlock t)) /\
  (forall s, starts_with [10] s = false -> signature_from_str s = signature_from_str_unfixed s).
Print Assumptions C18_signature_unfixed_refuted.

(* ================================================================== VCS locations *)
(* every combination of branch and subpath (pvcs_valid distinguishes the four cases) *)
Theorem C18_parsed_vcs_roundtrip : forall v,
  pvcs_valid v = true -> parsed_vcs_from_str (parsed_vcs_to_string v) = Ok v.
Proof. exact pvcs_roundtrip. Qed.
Check C18_parsed_vcs_roundtrip : forall v,
  pvcs_valid v = true -> parsed_vcs_from_str (parsed_vcs_to_string v) = Ok v.
Print Assumptions C18_parsed_vcs_roundtrip.

Theorem C18_parsed_vcs_canonical : forall s v,
  pvcs_canon s = true -> parsed_vcs_from_str s = Ok v -> parsed_vcs_to_string v = s.
Proof. exact pvcs_canonical. Qed.
Check C18_parsed_vcs_canonical : forall s v,
  pvcs_canon s = true -> parsed_vcs_from_str s = Ok v -> parsed_vcs_to_string v = s.
Print Assumptions C18_parsed_vcs_canonical.

Theorem C18_parsed_vcs_total : forall s, exists v, parsed_vcs_from_str s = Ok v.
Proof. exact pvcs_total. Qed.
Check C18_parsed_vcs_total : forall s, exists v, parsed_vcs_from_str s = Ok v.
Print Assumptions C18_parsed_vcs_total.

Theorem C18_vcs_field :
  (forall v, vcs_valid v = true -> vcs_from_field (fst (vcs_to_field v)) (snd (vcs_to_field v)) = Ok v) /\
  (forall n s v, vcs_canon n s = true -> vcs_from_field n s = Ok v -> vcs_to_field v = (n, s)) /\
  (forall n s, vcs_known_name n = false -> vcs_from_field n s = Err 1).
Proof. split; [exact vcs_roundtrip|]. split; [exact vcs_canonical|exact vcs_reject]. Qed.
Check C18_vcs_field :
  (forall v, vcs_valid v = true -> vcs_from_field (fst (vcs_to_field v)) (snd (vcs_to_field v)) = Ok v) /\
  (forall n s v, vcs_canon n s = true -> vcs_from_field n s = Ok v -> vcs_to_field v = (n, s)) /\
  (forall n s, vcs_known_name n = false -> vcs_from_field n s = Err 1).
Print Assumptions C18_vcs_field.

(* ================================================================== parse_identity (reader only) *)
Theorem C18_identity : forall name email,
  identity_valid name email = true ->
  parse_identity (name ++ [32; 60] ++ email ++ [62]) = Ok (name, email).
Proof. exact identity_roundtrip. Qed.
Check C18_identity : forall name email,
  identity_valid name email = true ->
  parse_identity (name ++ [32; 60] ++ email ++ [62]) = Ok (name, email).
Print Assumptions C18_identity.

(* ================================================================== every representability guard is needed *)
Theorem C18_guards_needed :
  (exists v, cksum_valid v = false /\ cksum_from_str Md5 (cksum_to_string Md5 v) <> Ok v) /\
  (exists v, profile_valid v = false /\ profile_from_str (profile_to_string v) <> Ok v) /\
  (exists v, forwarded_valid v = false /\ forwarded_from_str (forwarded_to_string v) <> Ok v) /\
  (exists v, commit_or_valid v = false /\ origin_from_str (origin_to_string v) <> Ok v
             /\ applied_from_str (applied_to_string v) <> Ok v) /\
  (exists v, license_valid v = false /\ license_from_str (license_to_string v) <> Ok v) /\
  (exists v, signature_valid v = false /\ signature_from_str (signature_to_string v) <> Ok v) /\
  (exists v, vcs_valid v = false /\ vcs_from_field (fst (vcs_to_field v)) (snd (vcs_to_field v)) <> Ok v) /\
  (* Origin without category whose text begins with a category keyword *)
  (exists v, porigin_valid OriginCategory_tab parse_origin_tab None v = false /\
     forall text, format_origin OriginCategory_tab parse_origin_tab None v = Ok text ->
                  parse_origin parse_origin_tab text <> (None, v)).
Proof.
  split; [exact cksum_token_guard_needed|]. split; [exact profile_guard_needed|].
  split; [exact forwarded_guard_needed|]. split; [exact origin_guard_needed|].
  split; [exact (proj1 license_guard_needed)|]. split; [exact signature_guard_needed|].
  split; [exact vcs_guard_cvs_needed|].
  (* Other k, k the keyword of the first category (whatever it is called) *)
  exists (Other (match enum_print OriginCategory_tab 0 with Ok k => k | _ => [] end)).
  split; [vm_compute; reflexivity|]. intros text H. vm_compute in H. apply Ok_inj in H. subst text.
  vm_compute. discriminate.
Qed.
Check C18_guards_needed :
  (exists v, cksum_valid v = false /\ cksum_from_str Md5 (cksum_to_string Md5 v) <> Ok v) /\
  (exists v, profile_valid v = false /\ profile_from_str (profile_to_string v) <> Ok v) /\
  (exists v, forwarded_valid v = false /\ forwarded_from_str (forwarded_to_string v) <> Ok v) /\
  (exists v, commit_or_valid v = false /\ origin_from_str (origin_to_string v) <> Ok v
             /\ applied_from_str (applied_to_string v) <> Ok v) /\
  (exists v, license_valid v = false /\ license_from_str (license_to_string v) <> Ok v) /\
  (exists v, signature_valid v = false /\ signature_from_str (signature_to_string v) <> Ok v) /\
  (exists v, vcs_valid v = false /\ vcs_from_field (fst (vcs_to_field v)) (snd (vcs_to_field v)) <> Ok v) /\
  (exists v, porigin_valid OriginCategory_tab parse_origin_tab None v = false /\
     forall text, format_origin OriginCategory_tab parse_origin_tab None v = Ok text ->
                  parse_origin parse_origin_tab text <> (None, v)).
Print Assumptions C18_guards_needed.

(* for the open types the guards are exact: a value reads back from its own text form if and
   only if it satisfies the guard (nothing representable is excluded) *)
Theorem C18_open_guards_exact :
  (forall v, profile_from_str (profile_to_string v) = Ok v <-> profile_valid v = true) /\
  (forall v, forwarded_from_str (forwarded_to_string v) = Ok v <-> forwarded_valid v = true) /\
  (forall v, origin_from_str (origin_to_string v) = Ok v <-> commit_or_valid v = true) /\
  (forall v, applied_from_str (applied_to_string v) = Ok v <-> commit_or_valid v = true) /\
  (forall v, license_from_str (license_to_string v) = Ok v <-> license_valid v = true) /\
  (forall v, signature_from_str (signature_to_string v) = Ok v <-> signature_valid v = true).
Proof.
  split; [exact profile_guard_exact|]. split; [exact forwarded_guard_exact|].
  split; [intros v; exact (proj1 (origin_guard_exact v))|].
  split; [intros v; exact (proj2 (origin_guard_exact v))|].
  split; [exact license_guard_exact|exact signature_guard_exact].
Qed.
Check C18_open_guards_exact :
  (forall v, profile_from_str (profile_to_string v) = Ok v <-> profile_valid v = true) /\
  (forall v, forwarded_from_str (forwarded_to_string v) = Ok v <-> forwarded_valid v = true) /\
  (forall v, origin_from_str (origin_to_string v) = Ok v <-> commit_or_valid v = true) /\
  (forall v, applied_from_str (applied_to_string v) = Ok v <-> commit_or_valid v = true) /\
  (forall v, license_from_str (license_to_string v) = Ok v <-> license_valid v = true) /\
  (forall v, signature_from_str (signature_to_string v) = Ok v <-> signature_valid v = true).
Print Assumptions C18_open_guards_exact.

(* PackageListEntry: an extra key containing '=' does not read back; License::Named with an empty
   name reads back as License::Text *)
Theorem C18_guards_needed_records :
  (exists prio v, enum_ok prio = true /\ ple_valid prio v = false /\
     forall text, ple_to_string prio v (pl_extra v) = Ok text -> ple_from_str prio text <> Ok v) /\
  (exists t, license_from_str (license_to_string (LNamed [] t)) <> Ok (LNamed [] t)) /\
  (exists v, cksum_from_str Md5 (cksum_to_string Md5 v) = Err 12).
Proof.
  split; [exact ple_key_guard_needed|]. split; [exact (proj2 license_guard_needed)|exact cksum_size_guard_needed].
Qed.
Check C18_guards_needed_records :
  (exists prio v, enum_ok prio = true /\ ple_valid prio v = false /\
     forall text, ple_to_string prio v (pl_extra v) = Ok text -> ple_from_str prio text <> Ok v) /\
  (exists t, license_from_str (license_to_string (LNamed [] t)) <> Ok (LNamed [] t)) /\
  (exists v, cksum_from_str Md5 (cksum_to_string Md5 v) = Err 12).
Print Assumptions C18_guards_needed_records.

(* each conjunct of pvcs_valid is needed (one failing value per guard) *)
Theorem C18_parsed_vcs_guards_needed :
  rt_fails (pv [32; 117] None None) /\ rt_fails (pv [117; 32] None None) /\
  rt_fails (pv [117; 32; 91; 97; 93] None None) /\ rt_fails (pv [117; 32; 45; 98; 32; 118] None None) /\
  rt_fails (pv [] (Some [98]) None) /\ rt_fails (pv [117; 32; 45; 98] (Some [120]) None) /\
  rt_fails (pv [117] (Some [91; 120; 93]) None) /\ rt_fails (pv [117] (Some []) None) /\
  rt_fails (pv [117] (Some [98; 32]) None) /\ rt_fails (pv [117] None (Some [])) /\
  rt_fails (pv [117] None (Some [97; 32; 98])) /\ rt_fails (pv [117] None (Some [97; 93])).
Proof.
  repeat split; first
    [ exact (proj1 pvcs_guard_lead_ws_needed) | exact (proj2 pvcs_guard_lead_ws_needed)
    | exact (proj1 pvcs_guard_trail_ws_needed) | exact (proj2 pvcs_guard_trail_ws_needed)
    | exact (proj1 pvcs_guard_url_bracket_needed) | exact (proj2 pvcs_guard_url_bracket_needed)
    | exact (proj1 pvcs_guard_url_dash_b_needed) | exact (proj2 pvcs_guard_url_dash_b_needed)
    | exact (proj1 pvcs_guard_url_empty_needed) | exact (proj2 pvcs_guard_url_empty_needed)
    | exact (proj1 pvcs_guard_dash_b_last_needed) | exact (proj2 pvcs_guard_dash_b_last_needed)
    | exact (proj1 pvcs_guard_branch_bracket_needed) | exact (proj2 pvcs_guard_branch_bracket_needed)
    | exact (proj1 pvcs_guard_branch_empty_needed) | exact (proj2 pvcs_guard_branch_empty_needed)
    | exact (proj1 pvcs_guard_branch_trail_needed) | exact (proj2 pvcs_guard_branch_trail_needed)
    | exact (proj1 pvcs_guard_sub_empty_needed) | exact (proj2 pvcs_guard_sub_empty_needed)
    | exact (proj1 pvcs_guard_sub_space_needed) | exact (proj2 pvcs_guard_sub_space_needed)
    | exact (proj1 pvcs_guard_sub_bracket_needed) | exact (proj2 pvcs_guard_sub_bracket_needed) ].
Qed.
Check C18_parsed_vcs_guards_needed :
  rt_fails (pv [32; 117] None None) /\ rt_fails (pv [117; 32] None None) /\
  rt_fails (pv [117; 32; 91; 97; 93] None None) /\ rt_fails (pv [117; 32; 45; 98; 32; 118] None None) /\
  rt_fails (pv [] (Some [98]) None) /\ rt_fails (pv [117; 32; 45; 98] (Some [120]) None) /\
  rt_fails (pv [117] (Some [91; 120; 93]) None) /\ rt_fails (pv [117] (Some []) None) /\
  rt_fails (pv [117] (Some [98; 32]) None) /\ rt_fails (pv [117] None (Some [])) /\
  rt_fails (pv [117] None (Some [97; 32; 98])) /\ rt_fails (pv [117] None (Some [97; 93])).
Print Assumptions C18_parsed_vcs_guards_needed.

(* ================================================================== non-vacuity: the hypotheses have non-trivial inhabitants *)
(* (the examples do not depend on which keywords the generated tables happen to contain, only on
   their being non-empty: a source change that keeps the property must not break an Example) *)
Definition ex_tab : enum_tab :=            (* enum { Low, High }, reader lower-cases first *)
  {| et_name := []; et_variants := [[76; 111; 119]; [72; 105; 103; 104]];
     et_display := [(0, [108; 111; 119]); (1, [104; 105; 103; 104])]; et_pre := PreLower;
     et_fromstr := [([108; 111; 119], 0); ([104; 105; 103; 104], 1)]; et_default := DefErr;
     et_recognised := true |}.
Example C18_ex_enum :              (* "HIGH" is read as High and printed as "high"; "high " is rejected *)
  enum_ok ex_tab = true /\
  enum_parse ex_tab [72; 73; 71; 72] = Ok 1 /\ enum_print ex_tab 1 = Ok [104; 105; 103; 104] /\
  enum_parse ex_tab [104; 105; 103; 104; 32] = Err 1 /\
  (* a table whose catch-all arm maps unknown keywords to a default is not accepted *)
  enum_ok {| et_name := []; et_variants := et_variants ex_tab; et_display := et_display ex_tab;
             et_pre := PreNone; et_fromstr := et_fromstr ex_tab; et_default := DefValue 0;
             et_recognised := true |} = false /\
  (* the generated tables are not empty *)
  forallb (fun t => 0 <? enum_size t) all_enums = true.
Proof. vm_compute. repeat split; reflexivity. Qed.

Example C18_ex_cksum :             (* "d41d8cd9 18446744073709551615 hello_1.0.dsc" *)
  let v := {| ck_hash := [100; 52; 49; 100; 56; 99; 100; 57]; ck_size := 18446744073709551615;
              ck_file := [104; 101; 108; 108; 111; 95; 49; 46; 48; 46; 100; 115; 99] |} in
  cksum_valid v = true /\ cksum_canon (cksum_to_string Sha256 v) = true /\
  cksum_from_str Sha256 (cksum_to_string Sha256 v) = Ok v.
Proof. vm_compute. repeat split; reflexivity. Qed.

Example C18_ex_file_ple :
  let f := {| cf_md5 := [97; 98]; cf_size := 1024; cf_section := [117; 116; 105; 108; 115]; cf_priority := 0;
              cf_file := [120; 46; 100; 101; 98] |} in
  let p := {| pl_package := [104]; pl_type := [100; 101; 98]; pl_section := [115]; pl_priority := 0;
              pl_extra := [([97; 114; 99; 104], [97; 110; 121]); ([107], [])] |} in
  file_valid Priority_tab f = true /\ ple_valid Priority_tab p = true /\
  (exists t, ple_to_string Priority_tab p (rev (pl_extra p)) = Ok t /\ ple_canon t = true) /\
  (exists t, file_to_string Priority_tab f = Ok t /\ file_canon t = true).
Proof. vm_compute. repeat split; try reflexivity; eexists; split; reflexivity. Qed.

Example C18_ex_vcs :               (* "https://x/y -b debian/sid [sub dir]" is not valid (space); "[sub]" is *)
  let u := [104; 116; 116; 112; 115; 58; 47; 47; 120; 47; 121] in
  let b := [100; 101; 98; 105; 97; 110; 47; 115; 105; 100] in
  pvcs_valid (pv u (Some b) (Some [115; 117; 98])) = true /\ pvcs_valid (pv u (Some b) None) = true /\
  pvcs_valid (pv u None (Some [115; 117; 98])) = true /\ pvcs_valid (pv u None None) = true /\
  pvcs_canon (parsed_vcs_to_string (pv u (Some b) (Some [115; 117; 98]))) = true /\
  vcs_valid (Cvs [58; 112; 115; 58; 47; 99] (Some [109; 32; 120])) = true /\
  vcs_known_name [68; 97; 114; 99; 115] = false.
Proof. vm_compute. repeat split; reflexivity. Qed.

Example C18_ex_open :
  profile_valid (Disabled [33; 120]) = true /\ forwarded_valid (FwYes [110; 111; 116]) = true /\
  commit_or_valid (Other [99; 111; 109; 109; 105; 116]) = true /\
  porigin_valid OriginCategory_tab parse_origin_tab (Some 0) (Commit [97; 98]) = true /\
  porigin_valid OriginCategory_tab parse_origin_tab None (Other [104; 116; 116; 112; 58; 47; 47; 120]) = true /\
  porigin_canon parse_origin_tab [104; 116; 116; 112; 58; 47; 47; 120] = true /\
  license_valid (LNamed [71; 80; 76] [116; 10; 117]) = true /\
  signature_valid (KeyBlock [45; 45; 10; 97]) = true /\ signature_canon [10; 45; 45; 10; 97] = true /\
  identity_valid [74; 111; 101; 32; 69] [106; 64; 120] = true.
Proof. vm_compute. repeat split; reflexivity. Qed.
