(* C17 — copyright lookup: the last matching Files paragraph wins; DEP-5 globs and licences.
   Statements only; proofs in proofs/GlobP.v, proofs/CopyrightP.v, proofs/CopyrightRefuteP.v.

   Quantifiers: every pattern g : str, every path p : str (any characters, LF and '/' included);
   every document d (any list of paragraphs, each any list of (field, value) pairs: any number
   and order of Files paragraphs, any number of patterns per paragraph separated by any Unicode
   whitespace — i.e. on one or several lines —, overlapping patterns, patterns with invalid
   escapes, inline and stand-alone licences, duplicated fields, unknown paragraphs) that spells
   the field names Files / License / Copyright / Format in exactly this case ([exact_case], the
   complement of the recorded finding field-name-case); every text s.  No bound anywhere;
   nothing is proved by evaluation except the concrete witnesses.

   The vocabulary (sget, files_paragraphs, para_matches, is_last_such, licence_answer, wf_doc,
   found_rel, exact_case, the clauses and C17_full) is defined in model/CopyrightSpec.v;
   glob_matches (the declarative DEP-5 matching relation) in model/Glob.v.  The specification
   looks fields up modulo case (Policy 5.1), the code exactly: C17_iter is a theorem with the
   hypothesis exact_case, and C17_field_name_case_witness shows the hypothesis is necessary.

   Variants of the code (model/Copyright.v): [shipped] (before any fix), [committed] (the four
   fixes that are in /repo: aa779ad 03f3b49 9fb8927 c9dae02), [fixed] (= committed + the two
   proposed patches C17-invalid-glob-escape and C17-non-utf8-path).  The positive theorems are
   about [fixed]; what holds of [committed] carries the extra hypothesis doc_valid
   (C17_lookup_committed) and C17_invalid_escape_witness shows that hypothesis is necessary
   there; the `_refuted` theorems are about [shipped], [committed] and each variant that lacks
   exactly one fix (so every fix is shown necessary). *)
From V.model Require Import Base Deb822Lex Deb822Parse Glob Copyright CopyrightSpec.
From V.proofs Require Import GlobP CopyrightP CopyrightRefuteP.

(* ------------------------------------------------------------------ the whole property *)
Theorem C17_holds : C17_full fixed.
Proof. exact C17_all. Qed.
Check C17_holds :
  glob_clause true /\ lookup_clause fixed /\ agree_clause fixed /\ accept_clause fixed /\ gate_clause fixed.
Print Assumptions C17_holds.

Theorem C17_shipped_refuted : ~ C17_full shipped.
Proof. exact C17_shipped_refuted_all. Qed.
Check C17_shipped_refuted : ~ C17_full shipped.
Print Assumptions C17_shipped_refuted.

Theorem C17_committed_refuted : ~ C17_full committed.
Proof. exact C17_committed_refuted_all. Qed.
Check C17_committed_refuted : ~ C17_full committed.
Print Assumptions C17_committed_refuted.

(* ------------------------------------------------------------------ clause 1: globs *)
(* glob_to_regex succeeds on every pattern with valid escapes, the regex it returns accepts
   exactly the paths that the DEP-5 reading of the pattern accepts, and the executable
   reference matcher computes the same answer. *)
Theorem C17_glob : forall g, valid_escapes g = true ->
  exists r, glob_to_regex g = Ok r /\
    forall p, (rmatch true r p = true <-> glob_matches g p) /\
              glob_match true g p = Ok (spec_match g p).
Proof. exact glob_correct. Qed.
Check C17_glob : forall g, valid_escapes g = true ->
  exists r, glob_to_regex g = Ok r /\
    forall p, (rmatch true r p = true <-> glob_matches g p) /\
              glob_match true g p = Ok (spec_match g p).
Print Assumptions C17_glob.

(* the domain guard, made explicit: glob_to_regex panics exactly on an invalid escape *)
Theorem C17_glob_panics_iff : forall g,
  (exists k, glob_to_regex g = Panic k) <-> valid_escapes g = false.
Proof. exact glob_panics_iff. Qed.
Check C17_glob_panics_iff : forall g,
  (exists k, glob_to_regex g = Panic k) <-> valid_escapes g = false.
Print Assumptions C17_glob_panics_iff.

(* glob_matches() of the patched code, on EVERY pattern: true exactly when the DEP-5 relation
   holds — a pattern with an invalid escape matches nothing, it does not panic *)
Theorem C17_glob_lenient : forall g p, glob_is_match true g p = true <-> glob_matches g p.
Proof. exact glob_is_match_iff. Qed.
Check C17_glob_lenient : forall g p, glob_is_match true g p = true <-> glob_matches g p.
Print Assumptions C17_glob_lenient.

(* the shipped regex (no (?s)) is right on paths that contain no newline ... *)
Theorem C17_glob_shipped_partial : forall g p, valid_escapes g = true -> ~ In 10%N p ->
  exists b, glob_match false g p = Ok b /\ (b = true <-> glob_matches g p).
Proof. exact glob_correct_shipped_nolf. Qed.
Check C17_glob_shipped_partial : forall g p, valid_escapes g = true -> ~ In 10%N p ->
  exists b, glob_match false g p = Ok b /\ (b = true <-> glob_matches g p).
Print Assumptions C17_glob_shipped_partial.

(* ... and wrong otherwise: "a?b" does not match "a\nb"  (DESIGN §5 row 24) *)
Theorem C17_glob_refuted : ~ glob_clause false.
Proof. exact glob_clause_shipped_refuted. Qed.
Check C17_glob_refuted :
  ~ (forall g, valid_escapes g = true ->
     forall p, exists b, glob_match false g p = Ok b /\ (b = true <-> glob_matches g p)).
Print Assumptions C17_glob_refuted.

(* "whitespace-separated": the three equations that determine split_whitespace, and the shape
   of what it returns (non-empty, whitespace-free pieces) *)
Theorem C17_patterns_whitespace :
  split_whitespace [] = [] /\
  (forall a, a <> [] -> no_ws a -> split_whitespace a = [a]) /\
  (forall a w b, is_whitespace w = true ->
     split_whitespace (a ++ w :: b) = split_whitespace a ++ split_whitespace b) /\
  (forall s, Forall (fun w => w <> [] /\ no_ws w) (split_whitespace s)).
Proof.
  split; [exact split_whitespace_nil|]. split; [exact split_whitespace_word|].
  split; [exact split_whitespace_sep|exact split_whitespace_pieces].
Qed.
Check C17_patterns_whitespace :
  split_whitespace [] = [] /\
  (forall a, a <> [] -> no_ws a -> split_whitespace a = [a]) /\
  (forall a w b, is_whitespace w = true ->
     split_whitespace (a ++ w :: b) = split_whitespace a ++ split_whitespace b) /\
  (forall s, Forall (fun w => w <> [] /\ no_ws w) (split_whitespace s)).
Print Assumptions C17_patterns_whitespace.

(* ------------------------------------------------------------------ clause 2: lookups *)
(* lossless reader, EVERY document outside field-name-case (patterns with invalid escapes
   included: such a pattern matches nothing) and every path: find_files returns the last Files
   paragraph (in file order) one of whose patterns matches; find_license_for_file returns its
   own licence when that has text, else the first stand-alone paragraph of that name, else
   nothing.  Never an error, panic or fuel exhaustion. *)
Theorem C17_lookup : forall d path, exact_case d ->
  exists r ans,
    ll_find_files fixed d path = Ok r /\
    is_last_such (fun p => para_matches p path) (files_paragraphs d) r /\
    ll_find_license_for_file fixed d path = Ok ans /\
    licence_answer d r ans.
Proof. exact (lookup_clause_lenient fixed good_fixed eq_refl). Qed.
Check C17_lookup : forall d path, exact_case d ->
  exists r ans,
    ll_find_files fixed d path = Ok r /\
    is_last_such (fun p => para_matches p path) (files_paragraphs d) r /\
    ll_find_license_for_file fixed d path = Ok ans /\
    licence_answer d r ans.
Print Assumptions C17_lookup.

(* the code as committed (without C17-invalid-glob-escape): the same for documents all of
   whose patterns have valid escapes ... *)
Theorem C17_lookup_committed : forall d path, exact_case d -> doc_valid d ->
  exists r ans,
    ll_find_files committed d path = Ok r /\
    is_last_such (fun p => para_matches p path) (files_paragraphs d) r /\
    ll_find_license_for_file committed d path = Ok ans /\
    licence_answer d r ans.
Proof. exact (lookup_clause_valid_good committed good_committed). Qed.
Check C17_lookup_committed : forall d path, exact_case d -> doc_valid d ->
  exists r ans,
    ll_find_files committed d path = Ok r /\
    is_last_such (fun p => para_matches p path) (files_paragraphs d) r /\
    ll_find_license_for_file committed d path = Ok ans /\
    licence_answer d r ans.
Print Assumptions C17_lookup_committed.

(* ... and that hypothesis is necessary there: "Files: zzz\" in a second paragraph makes both
   readers panic for a path that "Files: *" in the first paragraph matches; with the fix the
   first paragraph answers.  Hence the clause fails for [committed] and for the variant that
   lacks only this fix. *)
Theorem C17_invalid_escape_witness :
  exact_case Wit.d_bad /\ ~ doc_valid Wit.d_bad /\
  ll_find_files committed Wit.d_bad Wit.p_f = Panic 2%N /\
  ll_find_license_for_file committed Wit.d_bad Wit.p_f = Panic 2%N /\
  (exists c, ly_of_doc committed Wit.d_bad = Ok c /\ ly_find_files committed c Wit.p_f = Panic 2%N /\
             ly_find_license_for_file committed c Wit.p_f = Panic 2%N) /\
  (exists p, ll_find_files fixed Wit.d_bad Wit.p_f = Ok (Some (0, p))) /\
  ll_find_license_for_file fixed Wit.d_bad Wit.p_f = Ok (Some (LNamed [77; 73; 84]%N [116; 101; 120; 116]%N)).
Proof. exact invalid_escape_witness. Qed.
Check C17_invalid_escape_witness :
  exact_case Wit.d_bad /\ ~ doc_valid Wit.d_bad /\
  ll_find_files committed Wit.d_bad Wit.p_f = Panic 2%N /\
  ll_find_license_for_file committed Wit.d_bad Wit.p_f = Panic 2%N /\
  (exists c, ly_of_doc committed Wit.d_bad = Ok c /\ ly_find_files committed c Wit.p_f = Panic 2%N /\
             ly_find_license_for_file committed c Wit.p_f = Panic 2%N) /\
  (exists p, ll_find_files fixed Wit.d_bad Wit.p_f = Ok (Some (0, p))) /\
  ll_find_license_for_file fixed Wit.d_bad Wit.p_f = Ok (Some (LNamed [77; 73; 84]%N [116; 101; 120; 116]%N)).
Print Assumptions C17_invalid_escape_witness.

Theorem C17_invalid_escape_refuted : ~ lookup_clause committed /\ ~ lookup_clause no_lenient.
Proof. exact lookup_clause_committed_refuted. Qed.
Check C17_invalid_escape_refuted :
  ~ lookup_clause committed /\ ~ lookup_clause (mk_variant true true true true false true).
Print Assumptions C17_invalid_escape_refuted.

(* find_license_by_name: the first stand-alone licence paragraph with that name *)
Theorem C17_find_license_by_name : forall d n, exact_case d ->
  exists q, is_first_such (named n) (licence_paragraphs d) q /\
    ll_find_license_by_name fixed d n =
      Ok (match q with Some q' => para_licence q' | None => None end).
Proof. intros d n H. exact (find_license_by_name_spec fixed d n good_fixed H). Qed.
Check C17_find_license_by_name : forall d n, exact_case d ->
  exists q, is_first_such (named n) (licence_paragraphs d) q /\
    ll_find_license_by_name fixed d n =
      Ok (match q with Some q' => para_licence q' | None => None end).
Print Assumptions C17_find_license_by_name.

(* iter_files / iter_licenses are the Files / stand-alone licence paragraphs of the document —
   the specification's, which looks field names up modulo case; the code looks them up exactly,
   so this needs (and C17_field_name_case_witness shows it needs) exact_case *)
Theorem C17_iter : forall d, exact_case d ->
  ll_iter_files fixed d = files_paragraphs d /\ ll_iter_licenses fixed d = licence_paragraphs d.
Proof. intros d H. exact (iter_spec fixed d good_fixed H). Qed.
Check C17_iter : forall d, exact_case d ->
  ll_iter_files fixed d = files_paragraphs d /\ ll_iter_licenses fixed d = licence_paragraphs d.
Print Assumptions C17_iter.

(* finding field-name-case: "files: *" is a Files paragraph no reader sees (find_files = None
   although it matches; the paragraph is listed by iter_licenses instead), and "format: x" is
   refused as not machine readable although it starts with a Format field *)
Theorem C17_field_name_case_witness :
  Known_field_name_case Wit.d_case /\
  ll_find_files fixed Wit.d_case Wit.p_f = Ok None /\
  ~ is_last_such (fun p => para_matches p Wit.p_f) (files_paragraphs Wit.d_case) None /\
  List.length (ll_iter_licenses fixed Wit.d_case) = 1 /\ licence_paragraphs Wit.d_case = [] /\
  starts_with_format_field Wit.t_case /\ ll_from_str Wit.t_case = Err 2%N /\
  ly_from_str fixed Wit.t_case = Err 2%N.
Proof. exact field_name_case_witness. Qed.
Check C17_field_name_case_witness :
  Known_field_name_case Wit.d_case /\
  ll_find_files fixed Wit.d_case Wit.p_f = Ok None /\
  ~ is_last_such (fun p => para_matches p Wit.p_f) (files_paragraphs Wit.d_case) None /\
  List.length (ll_iter_licenses fixed Wit.d_case) = 1 /\ licence_paragraphs Wit.d_case = [] /\
  starts_with_format_field Wit.t_case /\ ll_from_str Wit.t_case = Err 2%N /\
  ly_from_str fixed Wit.t_case = Err 2%N.
Print Assumptions C17_field_name_case_witness.

(* on documents outside the class the two lookups coincide for the four names *)
Theorem C17_exact_case_lookup : forall d p K, exact_case d -> In p d -> In K special_names ->
  sget p K = pget p K.
Proof. intros d p K H Hp HK. apply sget_pget; [exact HK|exact (exact_case_in d p H Hp)]. Qed.
Check C17_exact_case_lookup : forall d p K, exact_case d -> In p d -> In K special_names ->
  sget p K = pget p K.
Print Assumptions C17_exact_case_lookup.

(* the lossy reader's find_files, directly on its own paragraphs (any patterns) *)
Theorem C17_lossy_find_files_last : forall c path,
  exists r, ly_find_files fixed c path = Ok r /\
    is_last_such (fun fp => exists g, In g (lf_files fp) /\ glob_matches g path) (c_files c) r.
Proof. intros c path. exact (ly_find_files_last fixed c path good_fixed (or_introl eq_refl)). Qed.
Check C17_lossy_find_files_last : forall c path,
  exists r, ly_find_files fixed c path = Ok r /\
    is_last_such (fun fp => exists g, In g (lf_files fp) /\ glob_matches g path) (c_files c) r.
Print Assumptions C17_lossy_find_files_last.

(* the licence rule fails when LicenseParagraph::name() ignores name-only paragraphs *)
Theorem C17_license_name_refuted : ~ lookup_clause no_lp_name /\ ~ agree_clause no_lp_name.
Proof. split; [exact lookup_clause_no_lp_name_refuted|exact agree_clause_no_lp_name_refuted]. Qed.
Check C17_license_name_refuted :
  ~ lookup_clause (mk_variant true true false true true true) /\
  ~ agree_clause (mk_variant true true false true true true).
Print Assumptions C17_license_name_refuted.

(* Totality.  Every variant and every document: the lookups answer or panic — never an error
   value, never out of fuel — find_license_by_name always answers, and the lossy
   name().unwrap() (Panic 12) is never reached.  With C17-invalid-glob-escape nothing panics. *)
Theorem C17_total : forall v d c path n,
  ok_or_panic (ll_find_files v d path) /\ ok_or_panic (ll_find_license_for_file v d path) /\
  (exists a, ll_find_license_by_name v d n = Ok a) /\
  ok_or_panic (ly_find_files v c path) /\ ok_or_panic (ly_find_license_for_file v c path) /\
  ly_find_license_for_file v c path <> Panic 12%N.
Proof.
  intros v d c path n.
  split; [apply ll_find_files_shape|]. split; [apply ll_find_license_for_file_shape|].
  split; [apply ll_find_license_by_name_ok|]. split; [apply ly_find_files_shape|].
  apply ly_find_license_for_file_shape.
Qed.
Check C17_total : forall v d c path n,
  ok_or_panic (ll_find_files v d path) /\ ok_or_panic (ll_find_license_for_file v d path) /\
  (exists a, ll_find_license_by_name v d n = Ok a) /\
  ok_or_panic (ly_find_files v c path) /\ ok_or_panic (ly_find_license_for_file v c path) /\
  ly_find_license_for_file v c path <> Panic 12%N.
Print Assumptions C17_total.

Theorem C17_never_panics : forall v d c path, v_lenient v = true ->
  (exists r, ll_find_files v d path = Ok r) /\ (exists a, ll_find_license_for_file v d path = Ok a) /\
  (exists r, ly_find_files v c path = Ok r) /\ (exists a, ly_find_license_for_file v c path = Ok a).
Proof. exact lookups_ok_lenient. Qed.
Check C17_never_panics : forall v d c path, v_lenient v = true ->
  (exists r, ll_find_files v d path = Ok r) /\ (exists a, ll_find_license_for_file v d path = Ok a) /\
  (exists r, ly_find_files v c path = Ok r) /\ (exists a, ly_find_license_for_file v c path = Ok a).
Print Assumptions C17_never_panics.

(* ------------------------------------------------------------------ clause 3: the readers agree *)
(* Whenever the lossy reader accepts the document, for every path: same outcome of find_files
   (the same paragraph position, the lossy paragraph being the conversion of the lossless one),
   the same licence for the file, the same licence by name.  No hypothesis on the patterns or
   on the case of field names (both readers use the same exact lookup). *)
Theorem C17_readers_agree : forall d c, ly_of_doc fixed d = Ok c ->
  forall path,
    found_rel (files_conv fixed) (ll_find_files fixed d path) (ly_find_files fixed c path) /\
    ll_find_license_for_file fixed d path = ly_find_license_for_file fixed c path /\
    forall n, ll_find_license_by_name fixed d n = Ok (ly_find_license_by_name c n).
Proof. exact (agree_clause_good fixed good_fixed). Qed.
Check C17_readers_agree : forall d c, ly_of_doc fixed d = Ok c ->
  forall path,
    found_rel (files_conv fixed) (ll_find_files fixed d path) (ly_find_files fixed c path) /\
    ll_find_license_for_file fixed d path = ly_find_license_for_file fixed c path /\
    forall n, ll_find_license_by_name fixed d n = Ok (ly_find_license_by_name c n).
Print Assumptions C17_readers_agree.

(* the same of the code as committed (the readers also panic together) *)
Theorem C17_readers_agree_committed : agree_clause committed.
Proof. exact (agree_clause_good committed good_committed). Qed.
Check C17_readers_agree_committed : forall d c, ly_of_doc committed d = Ok c ->
  forall path,
    found_rel (files_conv committed) (ll_find_files committed d path) (ly_find_files committed c path) /\
    ll_find_license_for_file committed d path = ly_find_license_for_file committed c path /\
    forall n, ll_find_license_by_name committed d n = Ok (ly_find_license_by_name c n).
Print Assumptions C17_readers_agree_committed.

(* hence the lossy reader itself obeys "last match wins" and the licence rule, stated against
   the document it was read from *)
Theorem C17_lossy_lookup : forall d c path, exact_case d -> ly_of_doc fixed d = Ok c ->
  exists r ans,
    is_last_such (fun p => para_matches p path) (files_paragraphs d) r /\
    licence_answer d r ans /\
    rmap (option_map fst) (ly_find_files fixed c path) = Ok (option_map fst r) /\
    (forall j fp, ly_find_files fixed c path = Ok (Some (j, fp)) ->
                  exists p, r = Some (j, p) /\ files_conv fixed p fp) /\
    ly_find_license_for_file fixed c path = Ok ans.
Proof. intros d c path H E. exact (ly_lookup fixed d c path good_fixed H (or_introl eq_refl) E). Qed.
Check C17_lossy_lookup : forall d c path, exact_case d -> ly_of_doc fixed d = Ok c ->
  exists r ans,
    is_last_such (fun p => para_matches p path) (files_paragraphs d) r /\
    licence_answer d r ans /\
    rmap (option_map fst) (ly_find_files fixed c path) = Ok (option_map fst r) /\
    (forall j fp, ly_find_files fixed c path = Ok (Some (j, fp)) ->
                  exists p, r = Some (j, p) /\ files_conv fixed p fp) /\
    ly_find_license_for_file fixed c path = Ok ans.
Print Assumptions C17_lossy_lookup.

(* ... and the lossy reader accepts every well-formed document (any variant) *)
Theorem C17_wellformed_accepted : forall v d, exact_case d -> wf_doc d -> exists c, ly_of_doc v d = Ok c.
Proof. exact accept_clause_any. Qed.
Check C17_wellformed_accepted : forall v d, exact_case d -> wf_doc d -> exists c, ly_of_doc v d = Ok c.
Print Assumptions C17_wellformed_accepted.

(* DESIGN §5 row 23: 'Files: a/* b/*' is one pattern to the shipped lossy reader *)
Theorem C17_lossy_patterns_refuted : ~ agree_clause no_lossy_ws /\ ~ agree_clause shipped.
Proof. split; [exact agree_clause_no_lossy_ws_refuted|exact agree_clause_shipped_refuted]. Qed.
Check C17_lossy_patterns_refuted :
  ~ agree_clause (mk_variant true false true true true true) /\ ~ agree_clause shipped.
Print Assumptions C17_lossy_patterns_refuted.

(* the shipped lossless reader answers from the header's License field *)
Theorem C17_header_license_refuted : ~ agree_clause no_skip_header.
Proof. exact agree_clause_no_skip_header_refuted. Qed.
Check C17_header_license_refuted : ~ agree_clause (mk_variant true true true false true true).
Print Assumptions C17_header_license_refuted.

(* ------------------------------------------------------------------ clause 4: the text entry points *)
(* NotMachineReadable (Err 2) exactly when the text does not start with the seven characters
   "Format:" — all three entry points, every variant.  (The gate is the code's reading of
   "starts with a Format field": exact case, no blank before the colon; another case of the
   name is the finding field-name-case, witness above.) *)
Theorem C17_format_gate : forall v s,
  (ll_from_str s = Err 2%N <-> format_gate s = false) /\
  (ll_from_str_relaxed s = Err 2%N <-> format_gate s = false) /\
  (ly_from_str v s = Err 2%N <-> format_gate s = false).
Proof. exact not_machine_readable_iff. Qed.
Check C17_format_gate : forall v s,
  (ll_from_str s = Err 2%N <-> format_gate s = false) /\
  (ll_from_str_relaxed s = Err 2%N <-> format_gate s = false) /\
  (ly_from_str v s = Err 2%N <-> format_gate s = false).
Print Assumptions C17_format_gate.

Theorem C17_format_gate_prefix : forall s,
  format_gate s = true <-> exists t, s = s_Format_colon ++ t.
Proof. intro s. apply starts_with_iff. Qed.
Check C17_format_gate_prefix : forall s,
  format_gate s = true <-> exists t, s = s_Format_colon ++ t.
Print Assumptions C17_format_gate_prefix.

(* A text that passes the gate is either a syntax error for both strict readers, or is parsed by
   the deb822 reader into a tree t, and then both readers look up in the same document
   doc_items t: the clauses above apply to it.  Total: never Panic / OutOfFuel. *)
Theorem C17_text : forall v s, format_gate s = true ->
  (exists t, Deb822Parse.from_str s = Ok t /\ ll_from_str s = Ok (doc_items t) /\
             ly_from_str v s = ly_of_doc v (doc_items t) /\
             ll_from_str_relaxed s = Ok (doc_items t, 0)) \/
  (Deb822Parse.from_str s = Err 1%N /\ ll_from_str s = Err 1%N /\ ly_from_str v s = Err 1%N /\
   exists t n, n <> 0 /\ ll_from_str_relaxed s = Ok (doc_items t, n)).
Proof. exact format_gate_accepts. Qed.
Check C17_text : forall v s, format_gate s = true ->
  (exists t, Deb822Parse.from_str s = Ok t /\ ll_from_str s = Ok (doc_items t) /\
             ly_from_str v s = ly_of_doc v (doc_items t) /\
             ll_from_str_relaxed s = Ok (doc_items t, 0)) \/
  (Deb822Parse.from_str s = Err 1%N /\ ll_from_str s = Err 1%N /\ ly_from_str v s = Err 1%N /\
   exists t n, n <> 0 /\ ll_from_str_relaxed s = Ok (doc_items t, n)).
Print Assumptions C17_text.

(* the abstraction is exact: Paragraph::get on a parsed paragraph is pget on its items *)
Theorem C17_get_items : forall (p : tree) key, Deb822Parse.get p key = pget (items p) key.
Proof. exact get_items. Qed.
Check C17_get_items : forall (p : tree) key, Deb822Parse.get p key = pget (items p) key.
Print Assumptions C17_get_items.

(* ------------------------------------------------------------------ paths that are not valid UTF-8 *)
(* The path quantifier above is over sequences of Unicode scalar values.  With
   C17-non-utf8-path a path that is not valid UTF-8 is read through Path::to_string_lossy():
   the lookups see the str in which every maximal invalid sequence reads as U+FFFD, and the
   theorems above apply to that str (so "*" matches such a path, "?" one invalid sequence).
   Without the patch both matches() unwrap Path::to_str(): the modelled panic, recorded as
   finding non-utf8-path until the patch is committed. *)
Theorem C17_nonutf8_path_witness :
  (exists c, ly_of_doc committed Wit.d_ws = Ok c /\ ly_find_files_nonutf8 committed c = Panic 13%N /\
             ly_find_license_for_file_nonutf8 committed c = Panic 13%N) /\
  ll_find_files_nonutf8 committed Wit.d_ws = Panic 13%N /\
  ll_find_license_for_file_nonutf8 committed Wit.d_ws = Panic 13%N /\
  ll_find_files_nonutf8 no_lossy_path Wit.d_ws = Panic 13%N /\
  ll_find_files_nonutf8 committed [Wit.header; [(k_Files, []); (k_License, [88%N])]] = Ok None.
Proof. exact nonutf8_path_witness. Qed.
Check C17_nonutf8_path_witness :
  (exists c, ly_of_doc committed Wit.d_ws = Ok c /\ ly_find_files_nonutf8 committed c = Panic 13%N /\
             ly_find_license_for_file_nonutf8 committed c = Panic 13%N) /\
  ll_find_files_nonutf8 committed Wit.d_ws = Panic 13%N /\
  ll_find_license_for_file_nonutf8 committed Wit.d_ws = Panic 13%N /\
  ll_find_files_nonutf8 no_lossy_path Wit.d_ws = Panic 13%N /\
  ll_find_files_nonutf8 committed [Wit.header; [(k_Files, []); (k_License, [88%N])]] = Ok None.
Print Assumptions C17_nonutf8_path_witness.

(* ------------------------------------------------------------------ recorded finding: regex size *)
(* glob-regex-size-limit: the model takes Regex::new(..) to succeed.  The regex crate refuses
   a pattern whose compiled program exceeds 10 MiB (then glob_to_regex panics; with
   C17-invalid-glob-escape the pattern matches nothing instead).  The compiled size is NOT a
   function of the number of characters.  Measured on the real code: a literal costs 32 bytes
   per UTF-8 *byte* (first failure at 327 675 bytes whatever the characters: 327 675 x 'a',
   163 838 x U+00E9, 109 225 x U+4E2D, 81 919 x U+1F600), a wildcard between 964 and 1 064
   bytes (first failures at 9 855 .. 10 878 wildcards, depending on the flags and the
   wildcard), and the costs add up (100 000 x 'a' + 7 257 x '*', 200 000 x 'a' + 4 239 x '?',
   300 000 x 'a' + 883 x '*' fail).  The recorded class is the decidable over-approximation
   below (wildcard weight rounded up to 1 100, bound rounded down to 10^7).  It is NOT an exact
   description of where the implementation fails: it contains that region as far as the linear
   cost model above holds (which is a measurement, not a theorem), and also patterns the
   implementation still handles.  Every theorem above holds for the model also inside the
   class (the model has no such limit). *)
Definition Known_glob_regex_size_limit (g : str) : Prop :=
  (10000000 <= 1100 * N.of_nat (List.length (filter (fun c => (c =? 42) || (c =? 63)) g))
               + 32 * utf8_size g)%N.

(* ------------------------------------------------------------------ non-vacuity *)
Module Examples.
  Import Coq.Strings.String.
  Local Open Scope string_scope.
  Definition L := s2l.

  (* a pattern with every kind of atom, regex metacharacters included, has valid escapes,
     matches a path that contains '/', LF and the escaped characters, and rejects a near miss *)
  Definition g1 : str := L "src/*.[ch]\*+(?)\\\?".
  Example C17_ex_glob :
    valid_escapes g1 = true /\
    glob_match true g1 (L "src/a/b" ++ [10%N] ++ L ".[ch]*+(x)\?")%list = Ok true /\
    glob_match true g1 (L "src/a.ch*+(x)\?") = Ok false /\
    glob_matches (L "a?b") [97; 10; 98]%N.
  Proof.
    split; [reflexivity|]. split; [vm_compute; reflexivity|]. split; [vm_compute; reflexivity|].
    exact q_matches.
  Qed.
  Example C17_ex_invalid_escape :
    valid_escapes (L "a\x") = false /\ glob_to_regex (L "a\x") = Panic 1%N /\ glob_to_regex (L "a\") = Panic 2%N /\
    (* any() stops at the first match: the bad pattern behind it is never compiled *)
    any_match true false [L "a"; L "\x"] (L "a") = Ok true /\ any_match true false [L "a"; L "\x"] (L "b") = Panic 1%N /\
    (* with C17-invalid-glob-escape the bad pattern matches nothing and the next one is tried *)
    any_match true true [L "\x"; L "b"] (L "b") = Ok true /\ any_match true true [L "\x"] (L "x") = Ok false.
  Proof. repeat split; vm_compute; reflexivity. Qed.

  (* a well-formed text with overlapping patterns on one and on several lines, an inline
     licence, a stand-alone one, a name-only one and a header licence *)
  Definition t1 : str := L "Format: https://www.debian.org/doc/packaging-manuals/copyright-format/1.0/
Upstream-Name: foo
License: GPL-3+
 the header's text

Files: * src/*
Copyright: 2020 Joe
License: GPL-3+
Comment: p0

Files: debian/*
 src/*.c
Copyright: 2023 Ann
License: MIT
 inline text
Comment: p1

License: GPL-3+

License: GPL-3+
 This program is free software

Files: src/gen/*
Copyright: 2024 Bo
License: GPL-3+
Comment: p2
".
  Example C17_ex_doc :
    exists d c,
      ll_from_str t1 = Ok d /\ ly_from_str fixed t1 = Ok c /\ exact_case d /\ wf_doc d /\ doc_valid d /\
      List.length (files_paragraphs d) = 3 /\ List.length (licence_paragraphs d) = 2 /\
      (* src/gen/x.c matches paragraphs 0, 1 and 2: the last one wins, in both readers;
         its licence has no text: the first stand-alone GPL-3+ paragraph (name only) answers *)
      (exists p, ll_find_files fixed d (L "src/gen/x.c") = Ok (Some (2, p))) /\
      (exists p, ly_find_files fixed c (L "src/gen/x.c") = Ok (Some (2, p))) /\
      ll_find_license_for_file fixed d (L "src/gen/x.c") = Ok (Some (LName (L "GPL-3+"))) /\
      ly_find_license_for_file fixed c (L "src/gen/x.c") = Ok (Some (LName (L "GPL-3+"))) /\
      (* src/a.c: paragraphs 0 and 1; paragraph 1 carries its own text *)
      ll_find_license_for_file fixed d (L "src/a.c") = Ok (Some (LNamed (L "MIT") (L "inline text"))) /\
      (* a path with a newline is matched by '*' *)
      (exists p, ll_find_files fixed d [97; 10; 98]%N = Ok (Some (0, p))) /\
      (* nothing matches the empty path except '*' *)
      (exists p, ly_find_files fixed c [] = Ok (Some (0, p))).
  Proof.
    destruct (ll_from_str t1) as [d| | |] eqn:Ed; try (vm_compute in Ed; discriminate).
    destruct (ly_from_str fixed t1) as [c| | |] eqn:Ec; try (vm_compute in Ec; discriminate).
    exists d, c. split; [reflexivity|]. split; [reflexivity|].
    vm_compute in Ed. injection Ed as <-. vm_compute in Ec. injection Ec as <-.
    split; [reflexivity|]. split; [vm_compute; auto|].
    split.
    { intros p g Hp Hg. vm_compute in Hp.
      destruct Hp as [<-|[<-|[<-|[]]]]; vm_compute in Hg;
        repeat (destruct Hg as [<-|Hg]; [reflexivity|]); destruct Hg. }
    repeat split; try (vm_compute; reflexivity); eexists; vm_compute; reflexivity.
  Qed.

  (* texts that are refused as not machine readable, and one that is not *)
  Example C17_ex_gate :
    ll_from_str (L "
This is not machine readable.
") = Err 2%N /\
    ly_from_str fixed (L "Files: *
Copyright: x
License: MIT
") = Err 2%N /\
    ll_from_str_relaxed (L "format: x") = Err 2%N /\
    (exists d, ll_from_str (L "Format:x") = Ok d) /\
    ll_from_str (L "Format: x
 : oops
:") = Err 1%N.
  Proof. repeat split; try (vm_compute; reflexivity). eexists. vm_compute. reflexivity. Qed.

  (* the lossy reader rejects what is not a copyright file, the lossless reader does not *)
  Example C17_ex_lossy_rejects :
    exists d, ll_from_str (L "Format: x

Files: *
License: MIT
") = Ok d /\ ~ wf_doc d /\ ly_of_doc fixed d = Err 3%N.
  Proof.
    eexists. split; [vm_compute; reflexivity|]. split; [|vm_compute; reflexivity].
    vm_compute. intros [_ H]. discriminate.
  Qed.
End Examples.
