(* C16 — derived struct/paragraph conversions round-trip and update only own fields.
   Statements only; proofs in proofs/DeriveP.v (which builds on proofs/LossyRtP.v) and
   proofs/DeriveExtP.v (which builds on the codec theorems of C18 and C14).

   Quantifier.  A struct is any list of field specs (key, the macro's syntactic Option test,
   serialiser id, deserialiser id): every shape the macro distinguishes.  A value is a list of
   optional universal values, [val_ok]: well typed and in the round-trip domain of each field's
   codec pair ([val_dom]: e.g. numbers below 2^bits, list items without the separator).  The
   paragraph back-end is ANY [ParaLike] satisfying [ParaLaws] (and [LayoutLaws] for the layout
   clause); both real back-ends are instances (C16_lossy_backend, C16_lossless_backend).  Prior
   paragraphs for update: all of them.  The tables of the shipped structs are regenerated from the
   Rust sources on every run (gen/Structs_gen.v) and checked by computation (C16_tables); the text of
   the macro's templates is pinned by the translator (C16_macro_pinned).  No size bound anywhere:
   the proofs are inductions over the field list.

   External codecs.  The generic theorems (C16_roundtrip … C16_shipped) take the numbered codecs
   SExt i / DExt i as arbitrary functions subject to [ext_rt_law].  C16_shipped_closed instantiates
   them with the Coq models of the twelve codecs that are workspace code (model/DeriveExt.v:
   Priority, MultiArch, YesNoForce, License, Signature, Forwarded, AppliedUpstream, DEP-3 Origin,
   ParsedVcs, lossy Relations, buildinfo Environment, sources Types) and discharges the law for them
   (C16_ext_law) on the validity predicates of the cones that own them; what REMAINS ASSUMED is
   exactly: [version_rt_law] (debversion::Version: FromStr inverts Display on [vdom]) and
   [other_rt_law] for 2 = url::Url, 14 = Vec<Url> (split_whitespace + Url), 15 = chrono::NaiveDate
   with "%Y-%m-%d".

   Known class (known_findings.jsonl `empty_list_split_newline`, pending
   proposed_fixes/C16-empty-list-newline.patch): a Vec<String> field written by join("\n") and read
   by split('\n') (apt::Source.package_list, FilesParagraph.copyright) does not read an EMPTY list
   back ("" reads as [""]): the empty list is outside [val_dom] for the pair (SJoinNl, DSplitNl);
   C16_empty_list_class shows the exclusion is exactly that one value and is necessary, and that the
   patched reader (DSplitNlE) takes it.
   Repaired meanwhile: apt-sources PDiffs serialiser (f9a3124), Signature key block (2e5530c). *)
From Coq Require Import ZArith.
From V.model Require Import Base Deb822Lex Deb822Parse Grammar Lossy CodecStr EnumTab Codecs Vcs RelLex RelLossy Derive DeriveExt.
From V.proofs Require Import LossyRtP CodecsP VcsP DeriveP DeriveExtP.
From V.gen Require Import Enums_gen Structs_gen.

(* the full statement of the property for a struct table [s] (what C16_shipped proves for every
   generated struct outside the known class, over every back-end satisfying the laws) *)
Definition C16_full : Prop :=
  forall (E : Type) (ext_print : N -> E -> str) (ext_parse : N -> str -> option E) (ext_dom : N -> E -> Prop)
         (PL : ParaLike), ParaLaws PL -> ext_rt_law E ext_print ext_parse ext_dom ->
  forall s, In s all_structs -> s_from s = true -> s_to s = true ->
  forall (v : list (option (uval E))), val_typed E ext_print (s_fields s) v ->
    exists p, to_paragraph E ext_print PL (s_fields s) v = Some p /\ from_paragraph E ext_parse PL (s_fields s) p = DOk v.
(* C16_full quantifies over all TYPED values of all generated structs; it is false outside the
   representable domain of a codec (e.g. a list item containing the separator: C16_ex_domain_needed; the
   empty list of a join("\n")/split('\n') field: C16_empty_list_class).  What is proved is the same
   statement with [val_ok] (typed AND representable): C16_shipped, C16_shipped_closed. *)

(* every (serialiser, deserialiser) pair of the catalogue inverts on its value domain; external codecs by assumption ext_rt_law *)
Theorem C16_codec_rt : forall (E : Type) (ext_print : N -> E -> str) (ext_parse : N -> str -> option E) (ext_dom : N -> E -> Prop) s d (v : uval E),
  ext_rt_law E ext_print ext_parse ext_dom -> val_dom E ext_dom s d v ->
  exists t, ser E ext_print s v = Some t /\ de E ext_parse d t = Some v.
Proof.
  exact codec_rt.
Qed.
Check C16_codec_rt : forall (E : Type) (ext_print : N -> E -> str) (ext_parse : N -> str -> option E) (ext_dom : N -> E -> Prop) s d (v : uval E),
  ext_rt_law E ext_print ext_parse ext_dom -> val_dom E ext_dom s d v ->
  exists t, ser E ext_print s v = Some t /\ de E ext_parse d t = Some v.
Print Assumptions C16_codec_rt.

(* from_paragraph(to_paragraph v) = Ok v; the paragraph lists exactly the present fields, in declaration order, under their keys, printed by their serialisers *)
Theorem C16_roundtrip : forall (E : Type) (ext_print : N -> E -> str) (ext_parse : N -> str -> option E) (ext_dom : N -> E -> Prop) (PL : ParaLike), ParaLaws PL ->
  forall fs (v : list (option (uval E))),
  ext_rt_law E ext_print ext_parse ext_dom -> NoDup (map f_key fs) -> val_ok E ext_dom fs v ->
  exists p, to_paragraph E ext_print PL fs v = Some p /\
            from_paragraph E ext_parse PL fs p = DOk v /\
            pl_items PL p = present_items E ext_print fs v /\
            map fst (pl_items PL p) = present_keys E fs v.
Proof.
  exact derive_rt_order.
Qed.
Check C16_roundtrip : forall (E : Type) (ext_print : N -> E -> str) (ext_parse : N -> str -> option E) (ext_dom : N -> E -> Prop) (PL : ParaLike), ParaLaws PL ->
  forall fs (v : list (option (uval E))),
  ext_rt_law E ext_print ext_parse ext_dom -> NoDup (map f_key fs) -> val_ok E ext_dom fs v ->
  exists p, to_paragraph E ext_print PL fs v = Some p /\
            from_paragraph E ext_parse PL fs p = DOk v /\
            pl_items PL p = present_items E ext_print fs v /\
            map fst (pl_items PL p) = present_keys E fs v.
Print Assumptions C16_roundtrip.

(* the same for structs that only derive ToDeb822 (no reading back): order, omission of absent optionals, serialisers *)
Theorem C16_order : forall (E : Type) (ext_print : N -> E -> str) (PL : ParaLike), ParaLaws PL ->
  forall fs (v : list (option (uval E))), val_typed E ext_print fs v ->
  exists p, to_paragraph E ext_print PL fs v = Some p /\
            pl_items PL p = present_items E ext_print fs v /\
            map fst (pl_items PL p) = present_keys E fs v.
Proof.
  exact derive_order.
Qed.
Check C16_order : forall (E : Type) (ext_print : N -> E -> str) (PL : ParaLike), ParaLaws PL ->
  forall fs (v : list (option (uval E))), val_typed E ext_print fs v ->
  exists p, to_paragraph E ext_print PL fs v = Some p /\
            pl_items PL p = present_items E ext_print fs v /\
            map fst (pl_items PL p) = present_keys E fs v.
Print Assumptions C16_order.

(* update_paragraph on ANY prior paragraph: reads back as v; foreign fields keep value, multiplicity and order; absent optionals are gone (every occurrence) *)
Theorem C16_update : forall (E : Type) (ext_print : N -> E -> str) (ext_parse : N -> str -> option E) (ext_dom : N -> E -> Prop) (PL : ParaLike), ParaLaws PL ->
  forall fs (v : list (option (uval E))) (p : pl_T PL),
  ext_rt_law E ext_print ext_parse ext_dom -> NoDup (map f_key fs) -> val_ok E ext_dom fs v ->
  exists p', update_paragraph E ext_print PL fs v p = Some p' /\
    from_paragraph E ext_parse PL fs p' = DOk v /\
    (forall k, ~ In k (map f_key fs) -> pl_get PL p' k = pl_get PL p k) /\
    not_owned_items fs (pl_items PL p') = not_owned_items fs (pl_items PL p) /\
    Forall2 (fun f x => x = None -> ~ In (f_key f) (map fst (pl_items PL p'))) fs v /\
    Forall2 (fun f x => pl_get PL p' (f_key f) = fprint E ext_print f x) fs v.
Proof.
  exact derive_update.
Qed.
Check C16_update : forall (E : Type) (ext_print : N -> E -> str) (ext_parse : N -> str -> option E) (ext_dom : N -> E -> Prop) (PL : ParaLike), ParaLaws PL ->
  forall fs (v : list (option (uval E))) (p : pl_T PL),
  ext_rt_law E ext_print ext_parse ext_dom -> NoDup (map f_key fs) -> val_ok E ext_dom fs v ->
  exists p', update_paragraph E ext_print PL fs v p = Some p' /\
    from_paragraph E ext_parse PL fs p' = DOk v /\
    (forall k, ~ In k (map f_key fs) -> pl_get PL p' k = pl_get PL p k) /\
    not_owned_items fs (pl_items PL p') = not_owned_items fs (pl_items PL p) /\
    Forall2 (fun f x => x = None -> ~ In (f_key f) (map fst (pl_items PL p'))) fs v /\
    Forall2 (fun f x => pl_get PL p' (f_key f) = fprint E ext_print f x) fs v.
Print Assumptions C16_update.

(* the part of the update clause that needs no codec law (also for ToDeb822-only structs) *)
Theorem C16_update_frame : forall (E : Type) (ext_print : N -> E -> str) (PL : ParaLike), ParaLaws PL ->
  forall fs (v : list (option (uval E))) (p : pl_T PL),
  NoDup (map f_key fs) -> val_typed E ext_print fs v ->
  exists p', update_paragraph E ext_print PL fs v p = Some p' /\
    (forall k, ~ In k (map f_key fs) -> pl_get PL p' k = pl_get PL p k) /\
    not_owned_items fs (pl_items PL p') = not_owned_items fs (pl_items PL p) /\
    Forall2 (fun f x => pl_get PL p' (f_key f) = fprint E ext_print f x) fs v.
Proof.
  exact derive_update_frame.
Qed.
Check C16_update_frame : forall (E : Type) (ext_print : N -> E -> str) (PL : ParaLike), ParaLaws PL ->
  forall fs (v : list (option (uval E))) (p : pl_T PL),
  NoDup (map f_key fs) -> val_typed E ext_print fs v ->
  exists p', update_paragraph E ext_print PL fs v p = Some p' /\
    (forall k, ~ In k (map f_key fs) -> pl_get PL p' k = pl_get PL p k) /\
    not_owned_items fs (pl_items PL p') = not_owned_items fs (pl_items PL p) /\
    Forall2 (fun f x => pl_get PL p' (f_key f) = fprint E ext_print f x) fs v.
Print Assumptions C16_update_frame.

(* comments and the text of every field the struct does not own survive an update, in order; the only change allowed is appended line ends (lay_rel) *)
Theorem C16_update_layout : forall (E : Type) (ext_print : N -> E -> str) (PL : ParaLike) (render : str -> str -> str),
  LayoutLaws PL render ->
  forall fs (v : list (option (uval E))) (p p' : pl_T PL),
  update_paragraph E ext_print PL fs v p = Some p' ->
  lay_rel (filter (foreign_piece fs) (pl_layout PL p)) (filter (foreign_piece fs) (pl_layout PL p')).
Proof.
  exact derive_update_layout.
Qed.
Check C16_update_layout : forall (E : Type) (ext_print : N -> E -> str) (PL : ParaLike) (render : str -> str -> str),
  LayoutLaws PL render ->
  forall fs (v : list (option (uval E))) (p p' : pl_T PL),
  update_paragraph E ext_print PL fs v p = Some p' ->
  lay_rel (filter (foreign_piece fs) (pl_layout PL p)) (filter (foreign_piece fs) (pl_layout PL p')).
Print Assumptions C16_update_layout.

(* a missing mandatory field (all earlier fields readable) gives exactly `missing field: K` *)
Theorem C16_missing : forall (E : Type) (ext_parse : N -> str -> option E) (PL : ParaLike) a f b (p : pl_T PL),
  Forall (field_reads E ext_parse (pl_get PL p)) a -> f_opt f = false -> pl_get PL p (f_key f) = None ->
  from_paragraph E ext_parse PL (a ++ f :: b) p = DErr (Missing (f_key f)) /\
  derr_prefix (Missing (f_key f)) = [109; 105; 115; 115; 105; 110; 103; 32; 102; 105; 101; 108; 100; 58; 32]%N ++ f_key f.
Proof.
  intros. split; [apply derive_missing; assumption|reflexivity].
Qed.
Check C16_missing : forall (E : Type) (ext_parse : N -> str -> option E) (PL : ParaLike) a f b (p : pl_T PL),
  Forall (field_reads E ext_parse (pl_get PL p)) a -> f_opt f = false -> pl_get PL p (f_key f) = None ->
  from_paragraph E ext_parse PL (a ++ f :: b) p = DErr (Missing (f_key f)) /\
  derr_prefix (Missing (f_key f)) = [109; 105; 115; 115; 105; 110; 103; 32; 102; 105; 101; 108; 100; 58; 32]%N ++ f_key f.
Print Assumptions C16_missing.

(* an unparsable value (optional or mandatory field) gives `parsing field K: ` + the codec's message *)
Theorem C16_parse_error : forall (E : Type) (ext_parse : N -> str -> option E) (PL : ParaLike) a f b (p : pl_T PL) s,
  Forall (field_reads E ext_parse (pl_get PL p)) a -> pl_get PL p (f_key f) = Some s -> de E ext_parse (f_de f) s = None ->
  from_paragraph E ext_parse PL (a ++ f :: b) p = DErr (Parsing (f_key f)) /\
  derr_prefix (Parsing (f_key f)) = [112; 97; 114; 115; 105; 110; 103; 32; 102; 105; 101; 108; 100; 32]%N ++ f_key f ++ [58; 32]%N.
Proof.
  intros. split; [eapply derive_parse_error; eassumption|reflexivity].
Qed.
Check C16_parse_error : forall (E : Type) (ext_parse : N -> str -> option E) (PL : ParaLike) a f b (p : pl_T PL) s,
  Forall (field_reads E ext_parse (pl_get PL p)) a -> pl_get PL p (f_key f) = Some s -> de E ext_parse (f_de f) s = None ->
  from_paragraph E ext_parse PL (a ++ f :: b) p = DErr (Parsing (f_key f)) /\
  derr_prefix (Parsing (f_key f)) = [112; 97; 114; 115; 105; 110; 103; 32; 102; 105; 101; 108; 100; 32]%N ++ f_key f ++ [58; 32]%N.
Print Assumptions C16_parse_error.

(* conversely every error names the FIRST field in declaration order that cannot be read, with the right reason *)
Theorem C16_error_sound : forall (E : Type) (ext_parse : N -> str -> option E) (PL : ParaLike) fs (p : pl_T PL) e,
  from_paragraph E ext_parse PL fs p = DErr e ->
  exists a f b, fs = a ++ f :: b /\ Forall (field_reads E ext_parse (pl_get PL p)) a /\
    ((e = Missing (f_key f) /\ f_opt f = false /\ pl_get PL p (f_key f) = None) \/
     (e = Parsing (f_key f) /\ exists s, pl_get PL p (f_key f) = Some s /\ de E ext_parse (f_de f) s = None)).
Proof.
  exact derive_error_sound.
Qed.
Check C16_error_sound : forall (E : Type) (ext_parse : N -> str -> option E) (PL : ParaLike) fs (p : pl_T PL) e,
  from_paragraph E ext_parse PL fs p = DErr e ->
  exists a f b, fs = a ++ f :: b /\ Forall (field_reads E ext_parse (pl_get PL p)) a /\
    ((e = Missing (f_key f) /\ f_opt f = false /\ pl_get PL p (f_key f) = None) \/
     (e = Parsing (f_key f) /\ exists s, pl_get PL p (f_key f) = Some s /\ de E ext_parse (f_de f) s = None)).
Print Assumptions C16_error_sound.

(* from_paragraph succeeds iff every field can be read *)
Theorem C16_total : forall (E : Type) (ext_parse : N -> str -> option E) (PL : ParaLike) fs (p : pl_T PL),
  (exists v, from_paragraph E ext_parse PL fs p = DOk v) <-> Forall (field_reads E ext_parse (pl_get PL p)) fs.
Proof.
  exact derive_total.
Qed.
Check C16_total : forall (E : Type) (ext_parse : N -> str -> option E) (PL : ParaLike) fs (p : pl_T PL),
  (exists v, from_paragraph E ext_parse PL fs p = DOk v) <-> Forall (field_reads E ext_parse (pl_get PL p)) fs.
Print Assumptions C16_total.

(* identical for lossy and lossless paragraphs: same items from to_paragraph; on paragraphs with the same items, the same from_paragraph result and the same items after update *)
Theorem C16_backends_agree : forall (E : Type) (ext_print : N -> E -> str) (ext_parse : N -> str -> option E) (PL1 PL2 : ParaLike),
  ParaLaws PL1 -> ParaLaws PL2 -> forall fs (v : list (option (uval E))),
  (match to_paragraph E ext_print PL1 fs v, to_paragraph E ext_print PL2 fs v with
   | Some p1, Some p2 => pl_items PL1 p1 = pl_items PL2 p2
   | None, None => True
   | _, _ => False
   end) /\
  (forall p1 p2, pl_items PL1 p1 = pl_items PL2 p2 ->
     from_paragraph E ext_parse PL1 fs p1 = from_paragraph E ext_parse PL2 fs p2 /\
     match update_paragraph E ext_print PL1 fs v p1, update_paragraph E ext_print PL2 fs v p2 with
     | Some q1, Some q2 => pl_items PL1 q1 = pl_items PL2 q2
     | None, None => True
     | _, _ => False
     end).
Proof.
  exact derive_backend_independent.
Qed.
Check C16_backends_agree : forall (E : Type) (ext_print : N -> E -> str) (ext_parse : N -> str -> option E) (PL1 PL2 : ParaLike),
  ParaLaws PL1 -> ParaLaws PL2 -> forall fs (v : list (option (uval E))),
  (match to_paragraph E ext_print PL1 fs v, to_paragraph E ext_print PL2 fs v with
   | Some p1, Some p2 => pl_items PL1 p1 = pl_items PL2 p2
   | None, None => True
   | _, _ => False
   end) /\
  (forall p1 p2, pl_items PL1 p1 = pl_items PL2 p2 ->
     from_paragraph E ext_parse PL1 fs p1 = from_paragraph E ext_parse PL2 fs p2 /\
     match update_paragraph E ext_print PL1 fs v p1, update_paragraph E ext_print PL2 fs v p2 with
     | Some q1, Some q2 => pl_items PL1 q1 = pl_items PL2 q2
     | None, None => True
     | _, _ => False
     end).
Print Assumptions C16_backends_agree.

(* the lossy back-end (model of src/lossy.rs Paragraph::{get,set,remove,from_iter,Display}) satisfies the laws *)
Theorem C16_lossy_backend : ParaLaws lossy_para_like /\ LayoutLaws lossy_para_like (fun k v => print_field (k, v)) /\
  (forall p, pl_text lossy_para_like p = print_para p).
Proof.
  split; [exact lossy_laws|split; [exact lossy_layout_laws|exact lossy_text]].
Qed.
Check C16_lossy_backend : ParaLaws lossy_para_like /\ LayoutLaws lossy_para_like (fun k v => print_field (k, v)) /\
  (forall p, pl_text lossy_para_like p = print_para p).
Print Assumptions C16_lossy_backend.

(* the tree model of lossless::Paragraph::{get,set,remove,from_iter}, in the variants the translator found in src/lossless.rs, satisfies the laws (the side condition ll_variants_ok is closed by computation on the generated flags) *)
Theorem C16_lossless_backend : ParaLaws (lossless_para_like ll_set_variant ll_remove_variant) /\
  LayoutLaws (lossless_para_like ll_set_variant ll_remove_variant) (fun k v => text (new_entry k v)) /\
  (forall cs, pl_text (lossless_para_like LlSetEnsureNl LlRemoveAll) cs = text (ll_node cs)).
Proof.
  assert (H : ll_variants_ok ll_set_variant ll_remove_variant = true) by (vm_compute; reflexivity).
  split; [exact (lossless_laws _ _ H)|split; [exact (lossless_layout_laws _ _ H)|exact lossless_text]].
Qed.
Check C16_lossless_backend : ParaLaws (lossless_para_like ll_set_variant ll_remove_variant) /\
  LayoutLaws (lossless_para_like ll_set_variant ll_remove_variant) (fun k v => text (new_entry k v)) /\
  (forall cs, pl_text (lossless_para_like LlSetEnsureNl LlRemoveAll) cs = text (ll_node cs)).
Print Assumptions C16_lossless_backend.

(* the variant of Paragraph::remove the tree had before 392c6dc (first match only) does not satisfy the law — a regression would break C16_lossless_backend *)
Theorem C16_lossless_remove_first_only_refuted : let p := ll_of_list [([65], [49]); ([65], [50])]%N in
  ll_get (ll_remove LlRemoveFirst p [65%N]) [65%N] = Some [50%N].
Proof.
  exact lossless_remove_first_refuted.
Qed.
Check C16_lossless_remove_first_only_refuted : let p := ll_of_list [([65], [49]); ([65], [50])]%N in
  ll_get (ll_remove LlRemoveFirst p [65%N]) [65%N] = Some [50%N].
Print Assumptions C16_lossless_remove_first_only_refuted.

(* every generated struct table (regenerated from the Rust sources on each run) passes the decidable check: distinct keys, recognised functions, every (ser, de) pair an inverse pair *)
Theorem C16_tables : forall s, In s all_structs ->
  ok_struct s = true /\ NoDup (map f_key (s_fields s)) /\
  (s_from s = true -> s_to s = true -> Forall (fun f => rt_pair (f_ser f) (f_de f) = true) (s_fields s)) /\
  Forall (fun f => (s_to s = true -> f_ser f <> SUnrecognised) /\ (s_from s = true -> f_de f <> DUnrecognised)) (s_fields s).
Proof.
  assert (Hall : forallb ok_struct all_structs = true) by (vm_compute; reflexivity).
  intros s Hin. rewrite forallb_forall in Hall. specialize (Hall s Hin).
  split; [exact Hall|]. split; [apply ok_struct_nodup; exact Hall|]. split; [apply ok_struct_pairs; exact Hall|apply ok_struct_recognised; exact Hall].
Qed.
Check C16_tables : forall s, In s all_structs ->
  ok_struct s = true /\ NoDup (map f_key (s_fields s)) /\
  (s_from s = true -> s_to s = true -> Forall (fun f => rt_pair (f_ser f) (f_de f) = true) (s_fields s)) /\
  Forall (fun f => (s_to s = true -> f_ser f <> SUnrecognised) /\ (s_from s = true -> f_de f <> DUnrecognised)) (s_fields s).
Print Assumptions C16_tables.

(* an accepted pair has representable values: the table check does not make the round-trip theorem vacuous *)
Theorem C16_pairs_inhabited : forall (E : Type) (ext_dom : N -> E -> Prop) s d,
  rt_pair s d = true -> (forall i, exists e, ext_dom i e) -> exists v : uval E, val_dom E ext_dom s d v.
Proof.
  exact rt_pair_inhabited.
Qed.
Check C16_pairs_inhabited : forall (E : Type) (ext_dom : N -> E -> Prop) s d,
  rt_pair s d = true -> (forall i, exists e, ext_dom i e) -> exists v : uval E, val_dom E ext_dom s d v.
Print Assumptions C16_pairs_inhabited.

(* the headline instance, codecs abstract: for every deriving struct of the workspace (and the test structs), any back-end, any representable value *)
Theorem C16_shipped : forall (E : Type) (ext_print : N -> E -> str) (ext_parse : N -> str -> option E) (ext_dom : N -> E -> Prop) (PL : ParaLike), ParaLaws PL -> ext_rt_law E ext_print ext_parse ext_dom ->
  forall s, In s all_structs ->
  forall (v : list (option (uval E))), val_ok E ext_dom (s_fields s) v ->
  (exists p, to_paragraph E ext_print PL (s_fields s) v = Some p /\
             from_paragraph E ext_parse PL (s_fields s) p = DOk v /\
             map fst (pl_items PL p) = present_keys E (s_fields s) v) /\
  (forall p, exists p', update_paragraph E ext_print PL (s_fields s) v p = Some p' /\
             from_paragraph E ext_parse PL (s_fields s) p' = DOk v /\
             not_owned_items (s_fields s) (pl_items PL p') = not_owned_items (s_fields s) (pl_items PL p)).
Proof.
  intros E ep epa ed PL HL Hext s Hin v Hv. destruct (C16_tables s Hin) as (_ & Hnd & _).
  split.
  - destruct (derive_rt_order E ep epa ed PL HL _ _ Hext Hnd Hv) as (p & H1 & H2 & _ & H4). exists p. auto.
  - intros p. destruct (derive_update E ep epa ed PL HL _ _ p Hext Hnd Hv) as (p' & H1 & H2 & _ & H4 & _). exists p'. auto.
Qed.
Check C16_shipped : forall (E : Type) (ext_print : N -> E -> str) (ext_parse : N -> str -> option E) (ext_dom : N -> E -> Prop) (PL : ParaLike), ParaLaws PL -> ext_rt_law E ext_print ext_parse ext_dom ->
  forall s, In s all_structs ->
  forall (v : list (option (uval E))), val_ok E ext_dom (s_fields s) v ->
  (exists p, to_paragraph E ext_print PL (s_fields s) v = Some p /\
             from_paragraph E ext_parse PL (s_fields s) p = DOk v /\
             map fst (pl_items PL p) = present_keys E (s_fields s) v) /\
  (forall p, exists p', update_paragraph E ext_print PL (s_fields s) v p = Some p' /\
             from_paragraph E ext_parse PL (s_fields s) p' = DOk v /\
             not_owned_items (s_fields s) (pl_items PL p') = not_owned_items (s_fields s) (pl_items PL p)).
Print Assumptions C16_shipped.

(* ------------------------------------------------------------------ the external codecs of the shipped structs *)
(* the law the generic theorems assume, for the codecs that are workspace code: from the theorems of the cones that own
   them (C18: CodecsP/VcsP/EnumTabP; C14: RelLossyP) and, for Environment / Types, DeriveExtP; the generated keyword
   tables and the Signature flag enter by computation *)
Theorem C16_ext_law : forall (V : Type) (vparse : str -> option V) (vprint : V -> str) (vdom : V -> Prop)
  (X : Type) (xparse : N -> str -> option X) (xprint : N -> X -> str) (xdom : N -> X -> Prop),
  version_rt_law V vparse vprint vdom -> other_rt_law X xparse xprint xdom ->
  ext_rt_law (cval V X) (c_print V vprint X xprint) (c_parse V vparse X xparse) (c_dom V vparse vprint vdom X xdom).
Proof.
  exact shipped_ext_rt_law.
Qed.
Check C16_ext_law : forall (V : Type) (vparse : str -> option V) (vprint : V -> str) (vdom : V -> Prop)
  (X : Type) (xparse : N -> str -> option X) (xprint : N -> X -> str) (xdom : N -> X -> Prop),
  version_rt_law V vparse vprint vdom -> other_rt_law X xparse xprint xdom ->
  ext_rt_law (cval V X) (c_print V vprint X xprint) (c_parse V vparse X xparse) (c_dom V vparse vprint vdom X xdom).
Print Assumptions C16_ext_law.

(* what the two remaining premises say, spelled out (so that the statement below can be read on its own) *)
Theorem C16_remaining_assumptions : forall (V : Type) (vparse : str -> option V) (vprint : V -> str) (vdom : V -> Prop)
  (X : Type) (xparse : N -> str -> option X) (xprint : N -> X -> str) (xdom : N -> X -> Prop),
  (version_rt_law V vparse vprint vdom <-> (forall v, vdom v -> vparse (vprint v) = Some v)) /\
  (other_rt_law X xparse xprint xdom <->
   (forall i x, (i = 2%N \/ i = 14%N \/ i = 15%N) -> xdom i x -> xparse i (xprint i x) = Some x)).
Proof.
  intros. split; reflexivity.
Qed.
Check C16_remaining_assumptions : forall (V : Type) (vparse : str -> option V) (vprint : V -> str) (vdom : V -> Prop)
  (X : Type) (xparse : N -> str -> option X) (xprint : N -> X -> str) (xdom : N -> X -> Prop),
  (version_rt_law V vparse vprint vdom <-> (forall v, vdom v -> vparse (vprint v) = Some v)) /\
  (other_rt_law X xparse xprint xdom <->
   (forall i x, (i = 2%N \/ i = 14%N \/ i = 15%N) -> xdom i x -> xparse i (xprint i x) = Some x)).
Print Assumptions C16_remaining_assumptions.

(* THE headline instance: every deriving struct of the workspace (and the test structs), any back-end, the codecs of
   the workspace at their models; the only premises left are the laws of debversion::Version, url::Url (single and
   white-space separated list) and chrono::NaiveDate *)
Theorem C16_shipped_closed : forall (V : Type) (vparse : str -> option V) (vprint : V -> str) (vdom : V -> Prop)
  (X : Type) (xparse : N -> str -> option X) (xprint : N -> X -> str) (xdom : N -> X -> Prop) (PL : ParaLike),
  ParaLaws PL -> version_rt_law V vparse vprint vdom -> other_rt_law X xparse xprint xdom ->
  forall s, In s all_structs ->
  forall (v : list (option (uval (cval V X)))), val_ok (cval V X) (c_dom V vparse vprint vdom X xdom) (s_fields s) v ->
  (exists p, to_paragraph (cval V X) (c_print V vprint X xprint) PL (s_fields s) v = Some p /\
             from_paragraph (cval V X) (c_parse V vparse X xparse) PL (s_fields s) p = DOk v /\
             map fst (pl_items PL p) = present_keys (cval V X) (s_fields s) v) /\
  (forall p, exists p', update_paragraph (cval V X) (c_print V vprint X xprint) PL (s_fields s) v p = Some p' /\
             from_paragraph (cval V X) (c_parse V vparse X xparse) PL (s_fields s) p' = DOk v /\
             not_owned_items (s_fields s) (pl_items PL p') = not_owned_items (s_fields s) (pl_items PL p)).
Proof.
  intros V vpa vpr vd X xpa xpr xd PL HL Hv Hx s Hin v Hok.
  exact (C16_shipped _ _ _ _ PL HL (shipped_ext_rt_law V vpa vpr vd X xpa xpr xd Hv Hx) s Hin v Hok).
Qed.
Check C16_shipped_closed : forall (V : Type) (vparse : str -> option V) (vprint : V -> str) (vdom : V -> Prop)
  (X : Type) (xparse : N -> str -> option X) (xprint : N -> X -> str) (xdom : N -> X -> Prop) (PL : ParaLike),
  ParaLaws PL -> version_rt_law V vparse vprint vdom -> other_rt_law X xparse xprint xdom ->
  forall s, In s all_structs ->
  forall (v : list (option (uval (cval V X)))), val_ok (cval V X) (c_dom V vparse vprint vdom X xdom) (s_fields s) v ->
  (exists p, to_paragraph (cval V X) (c_print V vprint X xprint) PL (s_fields s) v = Some p /\
             from_paragraph (cval V X) (c_parse V vparse X xparse) PL (s_fields s) p = DOk v /\
             map fst (pl_items PL p) = present_keys (cval V X) (s_fields s) v) /\
  (forall p, exists p', update_paragraph (cval V X) (c_print V vprint X xprint) PL (s_fields s) v p = Some p' /\
             from_paragraph (cval V X) (c_parse V vparse X xparse) PL (s_fields s) p' = DOk v /\
             not_owned_items (s_fields s) (pl_items PL p') = not_owned_items (s_fields s) (pl_items PL p)).
Print Assumptions C16_shipped_closed.

(* the domains of the discharged codecs are inhabited at every codec number a shipped struct uses (no vacuity) *)
Theorem C16_ext_dom_inhabited : forall (V : Type) (vparse : str -> option V) (vprint : V -> str) (vdom : V -> Prop)
  (X : Type) (xdom : N -> X -> Prop) i,
  In i [3; 4; 5; 6; 7; 8; 9; 10; 11; 12; 13; 16]%N -> exists c : cval V X, c_dom V vparse vprint vdom X xdom i c.
Proof.
  intros V vpa vpr vd X xd i Hi. cbn [In] in Hi.
  destruct Hi as [<-|[<-|[<-|[<-|[<-|[<-|[<-|[<-|[<-|[<-|[<-|[<-|[]]]]]]]]]]]]].
  - exists (CRelations []). split; [reflexivity|constructor].
  - exists (CEnum 0). eexists. split; [reflexivity|vm_compute; reflexivity].
  - exists (CEnum 0). eexists. split; [reflexivity|vm_compute; reflexivity].
  - exists (CLicense (LName [])). split; reflexivity.
  - exists (CSignature (KeyBlock [])). split; reflexivity.
  - exists (CEnum 0). eexists. split; [reflexivity|vm_compute; reflexivity].
  - exists (CForwarded FwNo). split; reflexivity.
  - exists (CApplied (Commit [])). split; reflexivity.
  - exists (CVcs {| repo_url := [117%N]; branch := Some [98%N]; subpath := Some [112%N] |}). split; [reflexivity|vm_compute; reflexivity].
  - exists (CEnv [([65%N], [49%N]); ([66%N], [])]). split; [reflexivity|vm_compute; reflexivity].
  - exists (CTypes [0; 1]%N). split; [reflexivity|vm_compute; auto].
  - exists (COrigin (Some 2%N) (Commit [97%N])). split; [reflexivity|vm_compute; reflexivity].
Qed.
Check C16_ext_dom_inhabited : forall (V : Type) (vparse : str -> option V) (vprint : V -> str) (vdom : V -> Prop)
  (X : Type) (xdom : N -> X -> Prop) i,
  In i [3; 4; 5; 6; 7; 8; 9; 10; 11; 12; 13; 16]%N -> exists c : cval V X, c_dom V vparse vprint vdom X xdom i c.
Print Assumptions C16_ext_dom_inhabited.

(* the text of the macro (deb822-derive/src/lib.rs: the twelve quote! templates, fn is_option, and the lines that choose
   between the templates) is the text model/Derive.v was transcribed from — compared by translate/structs.py on every run *)
Theorem C16_macro_pinned : macro_templates_pinned = true.
Proof.
  vm_compute. reflexivity.
Qed.
Check C16_macro_pinned : macro_templates_pinned = true.
Print Assumptions C16_macro_pinned.

(* the known class `empty_list_split_newline`: for a list field written by join("\n") and read by split('\n') the domain
   excludes exactly the empty list (given items without LF), the exclusion is necessary (the empty list prints as "" and
   reads back as the list holding one empty string), and the patched reader DSplitNlE reads it back *)
Theorem C16_empty_list_class : forall (E : Type) (ext_print : N -> E -> str) (ext_parse : N -> str -> option E) (ext_dom : N -> E -> Prop),
  (forall l, forallb no_lf l = true -> (val_dom E ext_dom SJoinNl DSplitNl (VList l) <-> l <> [])) /\
  (exists t, ser E ext_print SJoinNl (VList []) = Some t /\ de E ext_parse DSplitNl t = Some (VList [[]])) /\
  (exists t, ser E ext_print SJoinNl (VList []) = Some t /\ de E ext_parse DSplitNlE t = Some (VList [])) /\
  val_dom E ext_dom SJoinNl DSplitNlE (VList []).
Proof.
  intros E ep epa ed. split; [|split; [|split]].
  - intros l Hl. cbn [val_dom]. split; [intros [H _]; exact H|intros H; split; [exact H|exact Hl]].
  - eexists. split; reflexivity.
  - eexists. split; reflexivity.
  - cbn [val_dom]. split; [reflexivity|discriminate].
Qed.
Check C16_empty_list_class : forall (E : Type) (ext_print : N -> E -> str) (ext_parse : N -> str -> option E) (ext_dom : N -> E -> Prop),
  (forall l, forallb no_lf l = true -> (val_dom E ext_dom SJoinNl DSplitNl (VList l) <-> l <> [])) /\
  (exists t, ser E ext_print SJoinNl (VList []) = Some t /\ de E ext_parse DSplitNl t = Some (VList [[]])) /\
  (exists t, ser E ext_print SJoinNl (VList []) = Some t /\ de E ext_parse DSplitNlE t = Some (VList [])) /\
  val_dom E ext_dom SJoinNl DSplitNlE (VList []).
Print Assumptions C16_empty_list_class.

(* ------------------------------------------------------------------ non-vacuity *)
(* a struct covering the shapes the macro distinguishes: mandatory/optional, renamed key, custom and
   default codecs, scalar / list / enum-like external; values on both back-ends *)
Definition ex_fs : list fieldspec :=
  [mk_fspec [83]%N false SStr DStr;            (* S: String *)
   mk_fspec [78]%N true SNum (DNum 32);         (* N: Option<u32> *)
   mk_fspec [89]%N true SYesNo DYesNo;          (* Y: Option<bool>, yes/no functions *)
   mk_fspec [76]%N false SJoinWs DSplitWs;      (* L: Vec<String> *)
   mk_fspec [80]%N true (SExt 4) (DExt 4);      (* P: Option<Priority> *)
   mk_fspec [66]%N false SBool DBool].          (* B: bool *)
Definition ex_table : ext_table := [(4, [111; 112; 116], Some [111; 112; 116])]%N.
Definition ex_dom (i : N) (e : str) : Prop := table_parse ex_table i e = Some e.
Definition ex_v : list (option (uval str)) :=
  [Some (VStr [104; 105]%N); Some (VNum 42%N); None; Some (VList [[97%N]; [98%N]]); Some (VExt [111; 112; 116]%N); Some (VBool false)].

Example C16_ex_hypotheses :
  ext_rt_law str table_print (table_parse ex_table) ex_dom /\
  NoDup (map f_key ex_fs) /\ val_ok str ex_dom ex_fs ex_v.
Proof.
  split; [|split].
  - intros i e H. exact H.
  - apply nodup_keys_NoDup. vm_compute. reflexivity.
  - repeat constructor; vm_compute; auto; try reflexivity; split; reflexivity.
Qed.
(* … and the conclusions computed on both back-ends: declaration order, the absent optional omitted,
   yes/no and join(" ") used *)
Example C16_ex_lossy :
  x_to_lossy ex_fs ex_v = Some [([83], [104; 105]); ([78], [52; 50]); ([76], [97; 32; 98]); ([80], [111; 112; 116]); ([66], [102; 97; 108; 115; 101])]%N /\
  (forall p, x_to_lossy ex_fs ex_v = Some p -> x_from_lossy ex_table ex_fs p = DOk ex_v).
Proof. split; [vm_compute; reflexivity|]. intros p H. vm_compute in H. injection H as <-. vm_compute. reflexivity. Qed.
Example C16_ex_lossless :
  exists p, x_to_ll LlSetEnsureNl LlRemoveAll ex_fs ex_v = Some p /\
            text (ll_node p) = [83; 58; 32; 104; 105; 10; 78; 58; 32; 52; 50; 10; 76; 58; 32; 97; 32; 98; 10; 80; 58; 32; 111; 112; 116; 10; 66; 58; 32; 102; 97; 108; 115; 101; 10]%N /\
            x_from_ll ex_table LlSetEnsureNl LlRemoveAll ex_fs p = DOk ex_v.
Proof. eexists. split; [vm_compute; reflexivity|]. split; vm_compute; reflexivity. Qed.

(* update on the lossless paragraph "S: old\n# c\nY: no\nX: 1" (no final newline): S replaced in place, Y (absent)
   removed, the comment and the foreign field X untouched, X's unterminated line terminated before N is appended *)
Example C16_ex_update_lossless :
  let prior := [83; 58; 32; 111; 108; 100; 10; 35; 32; 99; 10; 89; 58; 32; 110; 111; 10; 88; 58; 32; 49]%N in
  exists p0 p1, paragraph_from_str prior = Ok p0 /\
    x_update_ll LlSetEnsureNl LlRemoveAll ex_fs ex_v (children p0) = Some p1 /\
    text (ll_node p1) = [83; 58; 32; 104; 105; 10; 35; 32; 99; 10; 88; 58; 32; 49; 10; 78; 58; 32; 52; 50; 10; 76; 58; 32; 97; 32; 98; 10; 80; 58; 32; 111; 112; 116; 10; 66; 58; 32; 102; 97; 108; 115; 101; 10]%N /\
    x_from_ll ex_table LlSetEnsureNl LlRemoveAll ex_fs p1 = DOk ex_v.
Proof.
  cbv zeta. eexists. eexists. split; [vm_compute; reflexivity|]. split; [vm_compute; reflexivity|].
  split; vm_compute; reflexivity.
Qed.

(* errors: S missing; N = "4x" unparsable; the FIRST failing field decides (S missing and N bad: S) *)
Example C16_ex_errors :
  x_from_lossy ex_table ex_fs [([76], []); ([66], [116; 114; 117; 101])]%N = DErr (Missing [83%N]) /\
  x_from_lossy ex_table ex_fs [([83], []); ([78], [52; 120]); ([76], []); ([66], [116; 114; 117; 101])]%N = DErr (Parsing [78%N]) /\
  x_from_lossy ex_table ex_fs [([78], [52; 120]); ([76], [])]%N = DErr (Missing [83%N]) /\
  derr_prefix (Missing [83%N]) = [109; 105; 115; 115; 105; 110; 103; 32; 102; 105; 101; 108; 100; 58; 32; 83]%N.
Proof. repeat split; vm_compute; reflexivity. Qed.

(* the domain guards are needed: a list item containing the separator does not come back *)
Example C16_ex_domain_needed :
  let v : list (option (uval str)) := [Some (VStr []); None; None; Some (VList [[97; 32; 98]%N]); None; Some (VBool true)] in
  exists p, x_to_lossy ex_fs v = Some p /\ x_from_lossy ex_table ex_fs p <> DOk v.
Proof. eexists. split; [vm_compute; reflexivity|]. vm_compute. intros H. inversion H. Qed.
(* … and so is NoDup of the keys: two fields sharing a key read the same text *)
Example C16_ex_nodup_needed :
  let fs := [mk_fspec [75]%N false SStr DStr; mk_fspec [75]%N false SStr DStr] in
  let v : list (option (uval str)) := [Some (VStr [97%N]); Some (VStr [98%N])] in
  exists p, x_to_lossy fs v = Some p /\ x_from_lossy [] fs p <> DOk v.
Proof. eexists. split; [vm_compute; reflexivity|]. vm_compute. intros H. inversion H. Qed.
