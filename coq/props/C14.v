(* C14 — lossy relations round-trip through text (and convert faithfully to lossless).
   Statements only; proofs in proofs/RelLossyP.v.  Model: model/RelLossy.v, a transcription of
   debian-control/src/lossy/relations.rs WITH proposed_fixes/C14-lossy-relations.patch applied
   (the pre-fix code is kept as RelLossy.old_..., see the ..._refuted theorems at the end).

   Scope of this cone: the lossy reader (both FromStr entry points) and the two printers.
   Quantifier: every string (totality); every lossy Relation / Relations value over valid
   component strings (round trip), no bound on lengths or on the number of entries,
   alternatives, architectures, profile groups and terms.
   `debversion::Version` is external: the general theorems quantify over ANY parser/printer pair
   (vparse, vprint) and ask, per version occurring in the value, that its printed form consists
   of identifier characters and ':' and is read back as the same version ([version_ok]); the
   ..._dv theorems discharge that for the concrete model of debversion 0.4.4 on the syntactic
   class [dv_canonical].
   The conversion clauses (lossy <-> lossless; model/RelConv.v, through cone C11's model of
   RelationBuilder::build and cone C10's accessor and reader models) are the C14_conv_... theorems:
   text equality for every value, the way back and "the lossless reader reads the printed text as
   the same structure" for every valid value (the latter through cone C10's image theorem for the
   liberal layouts, which also cover "[]", "<>" and versions with empty colon parts);
   [C14_conv_full] puts the three clauses together and is a theorem. *)
From V.model Require Import Base RelLex RelParse RelLossy RelConv.
From V.proofs Require Import RelLossyP.
From V.proofs Require RelConvP RelConvAllP.

(* ---------------------------------------------------------------- totality: every string *)
Theorem C14_relation_total : forall (V : Type) (vparse : str -> option V) (s : str),
  (exists r, relation_from_str vparse s = Ok r) \/ (exists e, relation_from_str vparse s = Err e).
Proof. intros V vparse s. apply fine_cases, relation_from_str_fine. Qed.
Check C14_relation_total : forall (V : Type) (vparse : str -> option V) (s : str),
  (exists r, relation_from_str vparse s = Ok r) \/ (exists e, relation_from_str vparse s = Err e).
Print Assumptions C14_relation_total.

Theorem C14_relations_total : forall (V : Type) (vparse : str -> option V) (s : str),
  (exists rs, relations_from_str vparse s = Ok rs) \/ (exists e, relations_from_str vparse s = Err e).
Proof. intros V vparse s. apply fine_cases, relations_from_str_fine. Qed.
Check C14_relations_total : forall (V : Type) (vparse : str -> option V) (s : str),
  (exists rs, relations_from_str vparse s = Ok rs) \/ (exists e, relations_from_str vparse s = Err e).
Print Assumptions C14_relations_total.

(* ---------------------------------------------------------------- round trip: every valid value *)
Theorem C14_relation_rt : forall (V : Type) (vparse : str -> option V) (vprint : V -> str) (r : relation V),
  relation_ok vparse vprint r -> relation_from_str vparse (print_relation vprint r) = Ok r.
Proof. exact relation_rt. Qed.
Check C14_relation_rt : forall (V : Type) (vparse : str -> option V) (vprint : V -> str) (r : relation V),
  relation_ok vparse vprint r -> relation_from_str vparse (print_relation vprint r) = Ok r.
Print Assumptions C14_relation_rt.

Theorem C14_relations_rt : forall (V : Type) (vparse : str -> option V) (vprint : V -> str)
    (rs : list (list (relation V))),
  relations_ok vparse vprint rs -> relations_from_str vparse (print_relations vprint rs) = Ok rs.
Proof. exact relations_rt. Qed.
Check C14_relations_rt : forall (V : Type) (vparse : str -> option V) (vprint : V -> str)
    (rs : list (list (relation V))),
  relations_ok vparse vprint rs -> relations_from_str vparse (print_relations vprint rs) = Ok rs.
Print Assumptions C14_relations_rt.

(* ---------------------------------------------------------------- everything the reader returns is in the domain *)
(* names, qualifiers, architectures and profile names of a value returned by the reader are valid
   components (they come from IDENT tokens) and no entry is empty *)
Theorem C14_reader_range : forall (V : Type) (vparse : str -> option V) (s : str),
  (forall r, relation_from_str vparse s = Ok r -> relation_shape_ok r) /\
  (forall rs, relations_from_str vparse s = Ok rs -> Forall (fun e => e <> [] /\ Forall relation_shape_ok e) rs).
Proof. intros V vparse s. split; [apply relation_from_str_range|apply relations_from_str_range]. Qed.
Check C14_reader_range : forall (V : Type) (vparse : str -> option V) (s : str),
  (forall r, relation_from_str vparse s = Ok r -> relation_shape_ok r) /\
  (forall rs, relations_from_str vparse s = Ok rs -> Forall (fun e => e <> [] /\ Forall relation_shape_ok e) rs).
Print Assumptions C14_reader_range.

(* hence printing is a right inverse of reading on everything the reader accepts, as soon as the
   external version printer/parser agree on the versions read (all strings s, no other condition) *)
Theorem C14_relation_reread : forall (V : Type) (vparse : str -> option V) (vprint : V -> str) (s : str) (r : relation V),
  relation_from_str vparse s = Ok r ->
  match r_version r with Some (_, v) => version_ok vparse vprint v | None => True end ->
  relation_from_str vparse (print_relation vprint r) = Ok r.
Proof. exact relation_reread. Qed.
Check C14_relation_reread : forall (V : Type) (vparse : str -> option V) (vprint : V -> str) (s : str) (r : relation V),
  relation_from_str vparse s = Ok r ->
  match r_version r with Some (_, v) => version_ok vparse vprint v | None => True end ->
  relation_from_str vparse (print_relation vprint r) = Ok r.
Print Assumptions C14_relation_reread.

Theorem C14_relations_reread : forall (V : Type) (vparse : str -> option V) (vprint : V -> str) (s : str)
    (rs : list (list (relation V))),
  relations_from_str vparse s = Ok rs ->
  Forall (Forall (fun r => match r_version r with Some (_, v) => version_ok vparse vprint v | None => True end)) rs ->
  relations_from_str vparse (print_relations vprint rs) = Ok rs.
Proof. exact relations_reread. Qed.
Check C14_relations_reread : forall (V : Type) (vparse : str -> option V) (vprint : V -> str) (s : str)
    (rs : list (list (relation V))),
  relations_from_str vparse s = Ok rs ->
  Forall (Forall (fun r => match r_version r with Some (_, v) => version_ok vparse vprint v | None => True end)) rs ->
  relations_from_str vparse (print_relations vprint rs) = Ok rs.
Print Assumptions C14_relations_reread.

(* ---------------------------------------------------------------- the external, made concrete *)
(* the assumption about debversion holds for the model of debversion 0.4.4 on canonical versions *)
Theorem C14_debversion_canonical : forall v : dversion,
  dv_canonical v = true -> version_text_ok (dv_print v) = true /\ dv_parse (dv_print v) = Some v.
Proof. exact dv_canonical_ok. Qed.
Check C14_debversion_canonical : forall v : dversion,
  dv_canonical v = true -> version_text_ok (dv_print v) = true /\ dv_parse (dv_print v) = Some v.
Print Assumptions C14_debversion_canonical.

Theorem C14_relation_rt_dv : forall r : relation dversion,
  relation_okb r = true -> relation_from_str dv_parse (print_relation dv_print r) = Ok r.
Proof. exact relation_rt_dv. Qed.
Check C14_relation_rt_dv : forall r : relation dversion,
  relation_okb r = true -> relation_from_str dv_parse (print_relation dv_print r) = Ok r.
Print Assumptions C14_relation_rt_dv.

Theorem C14_relations_rt_dv : forall rs : list (list (relation dversion)),
  relations_okb rs = true -> relations_from_str dv_parse (print_relations dv_print rs) = Ok rs.
Proof. exact relations_rt_dv. Qed.
Check C14_relations_rt_dv : forall rs : list (list (relation dversion)),
  relations_okb rs = true -> relations_from_str dv_parse (print_relations dv_print rs) = Ok rs.
Print Assumptions C14_relations_rt_dv.

Theorem C14_domain_decidable : forall rs : list (list (relation dversion)),
  relations_okb rs = true -> relations_ok dv_parse dv_print rs.
Proof. exact relations_okb_ok. Qed.
Check C14_domain_decidable : forall rs : list (list (relation dversion)),
  relations_okb rs = true -> relations_ok dv_parse dv_print rs.
Print Assumptions C14_domain_decidable.

(* the modelled debversion reads back whatever it read (all strings) ... *)
Theorem C14_debversion_stable : forall (s : str) (v : dversion),
  dv_parse s = Some v -> version_text_ok (dv_print v) = true /\ dv_parse (dv_print v) = Some v.
Proof. exact dv_parse_stable. Qed.
Check C14_debversion_stable : forall (s : str) (v : dversion),
  dv_parse s = Some v -> version_text_ok (dv_print v) = true /\ dv_parse (dv_print v) = Some v.
Print Assumptions C14_debversion_stable.

(* ... so with it the re-read theorems hold for ALL strings with no side condition: printing what a
   reader returned and reading again returns the same value (print . read is idempotent) *)
Theorem C14_reread_dv : forall s : str,
  (forall r, relation_from_str dv_parse s = Ok r ->
             relation_from_str dv_parse (print_relation dv_print r) = Ok r) /\
  (forall rs, relations_from_str dv_parse s = Ok rs ->
              relations_from_str dv_parse (print_relations dv_print rs) = Ok rs).
Proof. intros s. split; [apply relation_reread_dv|apply relations_reread_dv]. Qed.
Check C14_reread_dv : forall s : str,
  (forall r, relation_from_str dv_parse s = Ok r ->
             relation_from_str dv_parse (print_relation dv_print r) = Ok r) /\
  (forall rs, relations_from_str dv_parse s = Ok rs ->
              relations_from_str dv_parse (print_relations dv_print rs) = Ok rs).
Print Assumptions C14_reread_dv.

(* ---------------------------------------------------------------- the side conditions are needed *)
Theorem C14_empty_entry_needed :
  relations_from_str dv_parse (print_relations dv_print [[] : list (relation dversion)]) = Ok [].
Proof. exact empty_entry_needed. Qed.
Check C14_empty_entry_needed :
  relations_from_str dv_parse (print_relations dv_print [[] : list (relation dversion)]) = Ok [].
Print Assumptions C14_empty_entry_needed.

Theorem C14_canonical_version_needed :
  let v := mkDv None [49; 45; 50]%N None in                                   (* upstream "1-2", no revision *)
  dv_parse (dv_print v) = Some (mkDv None [49%N] (Some [50%N])) /\
  relation_from_str dv_parse (print_relation dv_print (mkRel [97%N] None None (Some (VC_eq, v)) []))
  = Ok (mkRel [97%N] None None (Some (VC_eq, mkDv None [49%N] (Some [50%N]))) []).
Proof. exact canonical_version_needed. Qed.
Check C14_canonical_version_needed :
  let v := mkDv None [49; 45; 50]%N None in
  dv_parse (dv_print v) = Some (mkDv None [49%N] (Some [50%N])) /\
  relation_from_str dv_parse (print_relation dv_print (mkRel [97%N] None None (Some (VC_eq, v)) []))
  = Ok (mkRel [97%N] None None (Some (VC_eq, mkDv None [49%N] (Some [50%N]))) []).
Print Assumptions C14_canonical_version_needed.

Theorem C14_ident_name_needed :                                                (* the name "a b" *)
  relation_from_str dv_parse (print_relation dv_print (mkRel [97; 32; 98]%N None None None [] : relation dversion)) = Err 9%N.
Proof. exact ident_name_needed. Qed.
Check C14_ident_name_needed :
  relation_from_str dv_parse (print_relation dv_print (mkRel [97; 32; 98]%N None None None [] : relation dversion)) = Err 9%N.
Print Assumptions C14_ident_name_needed.

(* ---------------------------------------------------------------- the conversion clauses *)
(* 1. lossless::Relation::from(r).to_string() == r.to_string()  -- EVERY lossy value, valid or not;
      likewise Entry::from(Vec<lossy::Relation>) and Relations::from(Vec<Entry>) of the converted parts.
      No panic: RelationBuilder::build runs to the end on the store model of cone C11. *)
Theorem C14_conv_text :
  (forall r : relation dversion,
     exists t, to_lossless r = Ok t /\ text t = print_relation dv_print r) /\
  (forall e : list (relation dversion),
     exists t, entry_to_lossless e = Ok t /\ text t = print_entry dv_print e) /\
  (forall rs : list (list (relation dversion)),
     exists t, field_to_lossless rs = Ok t /\ text t = print_relations dv_print rs).
Proof.
  split; [|split].
  - intros r. eexists. split; [apply RelConvP.to_lossless_tree|apply RelConvP.conv_tree_text].
  - intros e. eexists. split; [apply RelConvP.entry_to_lossless_tree|apply RelConvP.entry_tree_text].
  - intros rs. eexists. split; [apply RelConvP.field_to_lossless_tree|apply RelConvP.field_tree_text].
Qed.
Check C14_conv_text :
  (forall r : relation dversion,
     exists t, to_lossless r = Ok t /\ text t = print_relation dv_print r) /\
  (forall e : list (relation dversion),
     exists t, entry_to_lossless e = Ok t /\ text t = print_entry dv_print e) /\
  (forall rs : list (list (relation dversion)),
     exists t, field_to_lossless rs = Ok t /\ text t = print_relations dv_print rs).
Print Assumptions C14_conv_text.

(* 2. lossy::Relation::from(lossless::Relation::from(r)) == r for every valid r (the whole decidable
      domain of the round-trip theorems: also [] and <>, any canonical version), and the same through
      Entry / Vec<lossy::Relation> and through a whole field *)
Theorem C14_conv_back :
  (forall r : relation dversion, relation_okb r = true ->
     exists t, to_lossless r = Ok t /\ to_lossy t = Ok r) /\
  (forall e : list (relation dversion), forallb relation_okb e = true ->
     exists t, entry_to_lossless e = Ok t /\ entry_to_lossy t = Ok e) /\
  (forall rs : list (list (relation dversion)), forallb (forallb relation_okb) rs = true ->
     exists t, field_to_lossless rs = Ok t /\ field_to_lossy t = Ok rs).
Proof.
  split; [|split].
  - intros r H. eexists. split; [apply RelConvP.to_lossless_tree|apply RelConvP.to_lossy_conv_tree, H].
  - intros e H. eexists. split; [apply RelConvP.entry_to_lossless_tree|apply RelConvP.entry_to_lossy_tree, H].
  - intros rs H. eexists. split; [apply RelConvP.field_to_lossless_tree|apply RelConvP.field_to_lossy_tree, H].
Qed.
Check C14_conv_back :
  (forall r : relation dversion, relation_okb r = true ->
     exists t, to_lossless r = Ok t /\ to_lossy t = Ok r) /\
  (forall e : list (relation dversion), forallb relation_okb e = true ->
     exists t, entry_to_lossless e = Ok t /\ entry_to_lossy t = Ok e) /\
  (forall rs : list (list (relation dversion)), forallb (forallb relation_okb) rs = true ->
     exists t, field_to_lossless rs = Ok t /\ field_to_lossy t = Ok rs).
Print Assumptions C14_conv_back.

(* 3. the lossless reader reads the printed lossy text as the same structure, for EVERY valid value:
      text.parse::<lossless::Relation>() converted to lossy is r; likewise Entry and Relations (strict
      from_str, and parse_relaxed(_, true) without error and with the text conserved).  Also for an
      empty architecture list " []", an empty profile group " <>" and versions such as "7:1::2". *)
Theorem C14_conv_read :
  (forall r : relation dversion, relation_okb r = true ->
     read_as_lossy (print_relation dv_print r) = Ok r) /\
  (forall e : list (relation dversion), e <> [] -> forallb relation_okb e = true ->
     read_entry_as_lossy (print_entry dv_print e) = Ok e) /\
  (forall rs : list (list (relation dversion)), relations_okb rs = true ->
     read_field_as_lossy (print_relations dv_print rs) = Ok rs /\
     exists t, RelParse.relations_from_str (print_relations dv_print rs) = Ok t /\
               parse_relaxed (print_relations dv_print rs) true = Ok (t, 0) /\
               text t = print_relations dv_print rs /\ field_to_lossy t = Ok rs).
Proof.
  split; [exact RelConvAllP.read_as_lossy_all|]. split.
  - intros e Hne H. apply RelConvAllP.read_entry_as_lossy_all. destruct e; [congruence|exact H].
  - intros rs H. split; [apply RelConvAllP.read_field_as_lossy_all, H|apply RelConvAllP.read_field_all, H].
Qed.
Check C14_conv_read :
  (forall r : relation dversion, relation_okb r = true ->
     read_as_lossy (print_relation dv_print r) = Ok r) /\
  (forall e : list (relation dversion), e <> [] -> forallb relation_okb e = true ->
     read_entry_as_lossy (print_entry dv_print e) = Ok e) /\
  (forall rs : list (list (relation dversion)), relations_okb rs = true ->
     read_field_as_lossy (print_relations dv_print rs) = Ok rs /\
     exists t, RelParse.relations_from_str (print_relations dv_print rs) = Ok t /\
               parse_relaxed (print_relations dv_print rs) true = Ok (t, 0) /\
               text t = print_relations dv_print rs /\ field_to_lossy t = Ok rs).
Print Assumptions C14_conv_read.

(* The conversion clauses in full: all three for every valid relation. *)
Definition C14_conv_full : Prop :=
  forall r : relation dversion, relation_okb r = true ->
    (exists l, to_lossless r = Ok l
               /\ text l = print_relation dv_print r            (* the lossless form prints the lossy text *)
               /\ to_lossy l = Ok r)                            (* and converts back to the original value *)
    /\ (exists l', RelParse.relation_from_str (print_relation dv_print r) = Ok l'
                   /\ to_lossy l' = Ok r).                      (* the lossless reader reads the same structure *)

Theorem C14_conv_full_holds : C14_conv_full.
Proof.
  intros r H. split.
  - eexists. split; [apply RelConvP.to_lossless_tree|]. split; [apply RelConvP.conv_tree_text|apply RelConvP.to_lossy_conv_tree, H].
  - pose proof (RelConvAllP.read_as_lossy_all r H) as R. unfold read_as_lossy in R.
    destruct (RelParse.relation_from_str (print_relation dv_print r)) as [l'| | |]; try discriminate.
    exists l'. split; [reflexivity|exact R].
Qed.
Check C14_conv_full_holds : C14_conv_full.
Print Assumptions C14_conv_full_holds.

(* ---------------------------------------------------------------- the code before the patch *)
Theorem C14_old_negated_arch_refuted :                      (* a [!amd64] — DESIGN §5 row 12 *)
  relation_ok dv_parse dv_print w_negated_arch /\
  old_relation_from_str dv_parse (old_print_relation dv_print w_negated_arch) = Err 7%N /\
  old_relations_from_str dv_parse (old_print_relations dv_print [[w_negated_arch]]) = Err 7%N.
Proof. split; [exact w_negated_arch_ok|]. destruct old_negated_arch_refuted as (_ & A & B). split; assumption. Qed.
Check C14_old_negated_arch_refuted :
  relation_ok dv_parse dv_print w_negated_arch /\
  old_relation_from_str dv_parse (old_print_relation dv_print w_negated_arch) = Err 7%N /\
  old_relations_from_str dv_parse (old_print_relations dv_print [[w_negated_arch]]) = Err 7%N.
Print Assumptions C14_old_negated_arch_refuted.

Theorem C14_old_profile_separator_refuted :                 (* a <x !y> printed "a <x, !y>" — row 19 *)
  relation_ok dv_parse dv_print w_two_terms /\
  old_print_relation dv_print w_two_terms = [97; 32; 60; 120; 44; 32; 33; 121; 62]%N /\
  old_relation_from_str dv_parse (old_print_relation dv_print w_two_terms)
    = Ok (mkRel [97%N] None None None [[Enabled [120%N]]; [Enabled [121%N]]]) /\
  old_relations_from_str dv_parse (old_print_relations dv_print [[w_two_terms]]) = Err 8%N.
Proof. split; [exact w_two_terms_ok|exact old_profile_separator_refuted]. Qed.
Check C14_old_profile_separator_refuted :
  relation_ok dv_parse dv_print w_two_terms /\
  old_print_relation dv_print w_two_terms = [97; 32; 60; 120; 44; 32; 33; 121; 62]%N /\
  old_relation_from_str dv_parse (old_print_relation dv_print w_two_terms)
    = Ok (mkRel [97%N] None None None [[Enabled [120%N]]; [Enabled [121%N]]]) /\
  old_relations_from_str dv_parse (old_print_relations dv_print [[w_two_terms]]) = Err 8%N.
Print Assumptions C14_old_profile_separator_refuted.

Theorem C14_old_profile_group_split_refuted :               (* "a <x !y>" read as two groups — row 13 *)
  old_relation_from_str dv_parse [97; 32; 60; 120; 32; 33; 121; 62]%N
  = Ok (mkRel [97%N] None None None [[Enabled [120%N]]; [Disabled [121%N]]]).
Proof. exact old_profile_group_split_refuted. Qed.
Check C14_old_profile_group_split_refuted :
  old_relation_from_str dv_parse [97; 32; 60; 120; 32; 33; 121; 62]%N
  = Ok (mkRel [97%N] None None None [[Enabled [120%N]]; [Disabled [121%N]]]).
Print Assumptions C14_old_profile_group_split_refuted.

Theorem C14_old_profile_whitespace_refuted :                (* "a < x >" — row 30 *)
  old_relation_from_str dv_parse [97; 32; 60; 32; 120; 32; 62]%N = Ok (mkRel [97%N] None None None [[]; []]) /\
  old_relation_from_str dv_parse (old_print_relation dv_print (mkRel [97%N] None None None [[]; []])) = Err 8%N.
Proof. exact old_profile_whitespace_refuted. Qed.
Check C14_old_profile_whitespace_refuted :
  old_relation_from_str dv_parse [97; 32; 60; 32; 120; 32; 62]%N = Ok (mkRel [97%N] None None None [[]; []]) /\
  old_relation_from_str dv_parse (old_print_relation dv_print (mkRel [97%N] None None None [[]; []])) = Err 8%N.
Print Assumptions C14_old_profile_whitespace_refuted.

(* audit A4 — the reader of /repo 5517d72 (RelLossy.oldnl_...) rejects a line break inside a relation,
   which the lossless reader accepts (a folded relationship field); the patched reader takes it *)
Theorem C14_old_newline_refuted :
  let s := [97; 10; 32; 40; 62; 61; 32; 49; 41]%N in                                   (* "a\n (>= 1)" *)
  (exists t, RelParse.relations_from_str s = Ok t /\ text t = s) /\
  oldnl_relation_from_str dv_parse s = Err 9%N /\
  oldnl_relations_from_str dv_parse (s ++ [44; 32; 98]%N) = Err 9%N /\
  oldnl_relation_from_str dv_parse [97; 32; 40; 62; 61; 10; 32; 49; 41]%N = Err 4%N /\   (* "a (>=\n 1)" *)
  oldnl_relation_from_str dv_parse [97; 32; 91; 10; 32; 98; 93]%N = Err 7%N /\           (* "a [\n b]" *)
  oldnl_relation_from_str dv_parse [97; 32; 60; 10; 32; 98; 62]%N = Err 8%N /\           (* "a <\n b>" *)
  relation_from_str dv_parse s = Ok (mkRel [97%N] None None (Some (VC_ge, mkDv None [49%N] None)) []).
Proof.
  cbv zeta. destruct oldnl_newline_refuted as (A & B & C & D & _ & F). destruct newline_fixed as (G & _).
  split; [|repeat split; assumption]. vm_compute. eexists. split; reflexivity.
Qed.
Check C14_old_newline_refuted :
  let s := [97; 10; 32; 40; 62; 61; 32; 49; 41]%N in
  (exists t, RelParse.relations_from_str s = Ok t /\ text t = s) /\
  oldnl_relation_from_str dv_parse s = Err 9%N /\
  oldnl_relations_from_str dv_parse (s ++ [44; 32; 98]%N) = Err 9%N /\
  oldnl_relation_from_str dv_parse [97; 32; 40; 62; 61; 10; 32; 49; 41]%N = Err 4%N /\
  oldnl_relation_from_str dv_parse [97; 32; 91; 10; 32; 98; 93]%N = Err 7%N /\
  oldnl_relation_from_str dv_parse [97; 32; 60; 10; 32; 98; 62]%N = Err 8%N /\
  relation_from_str dv_parse s = Ok (mkRel [97%N] None None (Some (VC_ge, mkDv None [49%N] None)) []).
Print Assumptions C14_old_newline_refuted.

(* ---------------------------------------------------------------- non-vacuity *)
(* foo:any (>= 1:2.0~rc1-3) [amd64 !i386] <!nocheck cross> <stage1> *)
Definition ex_full : relation dversion :=
  mkRel [102; 111; 111]%N (Some [97; 110; 121]%N)
        (Some [[97; 109; 100; 54; 52]; [33; 105; 51; 56; 54]]%N)
        (Some (VC_ge, mkDv (Some 1%N) [50; 46; 48; 126; 114; 99; 49]%N (Some [51%N])))
        [[Disabled [110; 111; 99; 104; 101; 99; 107]%N; Enabled [99; 114; 111; 115; 115]%N];
         [Enabled [115; 116; 97; 103; 101; 49]%N]].
Definition ex_plain : relation dversion := mkRel [98%N] None None None [].
Definition ex_empty_lists : relation dversion := mkRel [99%N] None (Some []) None [[]].

Example C14_ex_domain : relations_okb [[ex_full; ex_plain]; [ex_empty_lists]] = true.
Proof. reflexivity. Qed.
Example C14_ex_text :
  print_relations dv_print [[ex_full; ex_plain]; [ex_empty_lists]]
  = [102; 111; 111; 58; 97; 110; 121; 32; 40; 62; 61; 32; 49; 58; 50; 46; 48; 126; 114; 99; 49; 45; 51; 41;
     32; 91; 97; 109; 100; 54; 52; 32; 33; 105; 51; 56; 54; 93;
     32; 60; 33; 110; 111; 99; 104; 101; 99; 107; 32; 99; 114; 111; 115; 115; 62;
     32; 60; 115; 116; 97; 103; 101; 49; 62; 32; 124; 32; 98; 44; 32; 99; 32; 91; 93; 32; 60; 62]%N.
Proof. reflexivity. Qed.
Example C14_ex_rt :
  relations_from_str dv_parse (print_relations dv_print [[ex_full; ex_plain]; [ex_empty_lists]])
  = Ok [[ex_full; ex_plain]; [ex_empty_lists]].
Proof. apply C14_relations_rt_dv. reflexivity. Qed.
Example C14_ex_patched_witnesses :
  relation_from_str dv_parse (print_relation dv_print w_negated_arch) = Ok w_negated_arch /\
  relation_from_str dv_parse (print_relation dv_print w_two_terms) = Ok w_two_terms /\
  print_relation dv_print w_two_terms = [97; 32; 60; 120; 32; 33; 121; 62]%N /\
  relation_from_str dv_parse [97; 32; 60; 32; 120; 32; 62]%N = Ok (mkRel [97%N] None None None [[Enabled [120%N]]]).
Proof. exact new_witnesses_fixed. Qed.
Definition ex_reread_value : list (list (relation dversion)) :=     (* a:any (>= 1) [!x] <y> | b *)
  [[mkRel [97%N] (Some [97; 110; 121]%N) (Some [[33; 120]%N]) (Some (VC_ge, mkDv None [49%N] None)) [[Enabled [121%N]]];
    mkRel [98%N] None None None []]].
Example C14_ex_reread :                         (* " a:any ( >=1) [ !x ]<y>|b ,," is read, printed canonically, read again *)
  let s := [32; 97; 58; 97; 110; 121; 32; 40; 32; 62; 61; 49; 41; 32; 91; 32; 33; 120; 32; 93; 60; 121; 62; 124; 98; 32; 44; 44]%N in
  relations_from_str dv_parse s = Ok ex_reread_value /\
  print_relations dv_print ex_reread_value
  = [97; 58; 97; 110; 121; 32; 40; 62; 61; 32; 49; 41; 32; 91; 33; 120; 93; 32; 60; 121; 62; 32; 124; 32; 98]%N /\
  relations_from_str dv_parse (print_relations dv_print ex_reread_value) = Ok ex_reread_value.
Proof. vm_compute. repeat split. Qed.
Example C14_ex_space_before_paren :             (* "a (>= 1 )": accepted since /repo 3e262bf, rejected by the pre-fix twin *)
  relation_from_str dv_parse [97; 32; 40; 62; 61; 32; 49; 32; 41]%N
    = Ok (mkRel [97%N] None None (Some (VC_ge, mkDv None [49%N] None)) []) /\
  old_relation_from_str dv_parse [97; 32; 40; 62; 61; 32; 49; 32; 41]%N = Err 4%N.
Proof. vm_compute. split; reflexivity. Qed.
Example C14_ex_conv :                           (* foo:any (>= 1:2.0~rc1-3) [amd64 !i386] <!nocheck cross> <stage1> | b *)
  exists t, entry_to_lossless [ex_full; ex_plain] = Ok t /\
            text t = print_entry dv_print [ex_full; ex_plain] /\
            entry_to_lossy t = Ok [ex_full; ex_plain] /\
            read_entry_as_lossy (text t) = Ok [ex_full; ex_plain].
Proof.
  exists (RelConvP.entry_tree [ex_full; ex_plain]). split; [apply RelConvP.entry_to_lossless_tree|].
  split; [apply RelConvP.entry_tree_text|]. split; [apply RelConvP.entry_to_lossy_tree; reflexivity|].
  rewrite RelConvP.entry_tree_text. apply RelConvAllP.read_entry_as_lossy_all. reflexivity.
Qed.
Example C14_ex_conv_degenerate :                (* "c [] <>" and a version with an empty colon part are in the domain *)
  relation_okb ex_empty_lists = true /\
  read_as_lossy (print_relation dv_print ex_empty_lists) = Ok ex_empty_lists /\
  (let r := mkRel [97%N] None None (Some (VC_eq, mkDv (Some 7%N) [49; 58; 58; 50]%N None)) [] in   (* a (= 7:1::2) *)
   relation_okb r = true /\ print_relation dv_print r = [97; 32; 40; 61; 32; 55; 58; 49; 58; 58; 50; 41]%N /\
   read_as_lossy (print_relation dv_print r) = Ok r).
Proof.
  split; [reflexivity|]. split; [apply RelConvAllP.read_as_lossy_all; reflexivity|].
  cbv zeta. split; [reflexivity|]. split; [reflexivity|apply RelConvAllP.read_as_lossy_all; reflexivity].
Qed.
Example C14_ex_folded :                         (* a folded field: line breaks wherever blanks may be, also after ':' *)
  relations_from_str dv_parse
    [102; 111; 111; 10; 32; 40; 62; 61; 10; 32; 49; 10; 32; 41; 10; 32; 91; 10; 32; 97; 10; 32; 33; 98; 10; 32; 93; 10; 32; 60; 10; 32; 33; 120; 10; 32; 121; 10; 32; 62; 10; 32; 124; 32; 98; 32; 58; 10; 32; 97; 110; 121; 44; 10; 32; 99]%N
  = Ok [[mkRel [102; 111; 111]%N None (Some [[97%N]; [33; 98]%N]) (Some (VC_ge, mkDv None [49%N] None)) [[Disabled [120%N]; Enabled [121%N]]];
         mkRel [98%N] (Some [97; 110; 121]%N) None None []];
        [mkRel [99%N] None None None []]].
Proof. vm_compute. reflexivity. Qed.
Example C14_ex_errors :                         (* both outcomes of the totality theorems occur *)
  relation_from_str dv_parse [97; 32; 40]%N = Err 3%N /\                        (* "a (" *)
  relations_from_str dv_parse [97; 124]%N = Err 10%N /\                          (* "a|" *)
  relations_from_str dv_parse [32; 44; 44]%N = Ok ([] : list (list (relation dversion))).   (* " ,," *)
Proof. vm_compute. repeat split. Qed.
