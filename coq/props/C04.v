From V.model Require Import Base Deb822Lex Deb822Parse Grammar Deb822Edit.
Theorem C04_placeholder : True. Proof. exact I. Qed.
Check C04_placeholder : True.
Print Assumptions C04_placeholder.
