(* C04 — field edits act like list edits, touch nothing else, and survive a re-read.
   Statements only.
   tstep  = the model of Paragraph::{set,insert,remove,rename} applied to the n-th paragraph of a
            document tree (src/lossless.rs over the rowan tree model, coq/model/Deb822Edit.v);
   sstep  = the same operation on a list of lists of (name, value) pairs (Lossy.l_set etc.);
   ldocl / lwf = the layouts a live document can have (coq/model/LiveDoc.v): every parsed
            well-formed document and every document built from canonical pairs is one. *)
From V.model Require Import Base Deb822Lex Deb822Parse Grammar Lossy Deb822Edit LiveDoc LiveTree.
From V.proofs Require Import Deb822EditP LiveDocP LiveDocEvP.

(* 1. Refinement, for EVERY tree (parsed or built, well-formed or not), every name and value,
      every history: the live object reports what the list operations give. *)
Theorem C04_refines : forall ops t, doc_items (fold_left tstep ops t) = fold_left sstep ops (doc_items t).
Proof. exact tsteps_refine. Qed.
Check C04_refines : forall ops t, doc_items (fold_left tstep ops t) = fold_left sstep ops (doc_items t).
Print Assumptions C04_refines.

(* 2. Frame, for every tree: an edit of paragraph n leaves every child of the root other than
      that paragraph node untouched (other paragraphs, blank lines, comments) ... *)
Theorem C04_frame_document : forall t n f,
  (exists A P B, children t = A ++ P :: B /\ is_paragraph P = true /\
                 length (filter is_paragraph A) = n /\
                 on_para t n f = Node ROOT (A ++ Node PARAGRAPH (f (children P)) :: B)) \/
  (length (filter is_paragraph (children t)) <= n /\ on_para t n f = Node ROOT (children t)).
Proof. exact on_para_frame. Qed.
Check C04_frame_document : forall t n f,
  (exists A P B, children t = A ++ P :: B /\ is_paragraph P = true /\
                 length (filter is_paragraph A) = n /\
                 on_para t n f = Node ROOT (A ++ Node PARAGRAPH (f (children P)) :: B)) \/
  (length (filter is_paragraph (children t)) <= n /\ on_para t n f = Node ROOT (children t)).
Print Assumptions C04_frame_document.

(* ... and inside the paragraph set replaces exactly one entry in place, or appends after
   terminating the last line (which adds at most one LF to the text in front of the new entry). *)
Theorem C04_frame_set : forall cs k v,
  ((exists X e Y, cs = X ++ e :: Y /\ entry_has_key k e = true /\ para_set cs k v = X ++ entry_new k v :: Y) \/
   (para_set cs k v = ensure_nl_list cs ++ [entry_new k v])) /\
  exists tl, (tl = [] \/ tl = [10%N]) /\ texts (ensure_nl_list cs) = texts cs ++ tl.
Proof. intros cs k v. split; [apply para_set_frame|apply texts_ensure_nl_list]. Qed.
Check C04_frame_set : forall cs k v,
  ((exists X e Y, cs = X ++ e :: Y /\ entry_has_key k e = true /\ para_set cs k v = X ++ entry_new k v :: Y) \/
   (para_set cs k v = ensure_nl_list cs ++ [entry_new k v])) /\
  exists tl, (tl = [] \/ tl = [10%N]) /\ texts (ensure_nl_list cs) = texts cs ++ tl.
Print Assumptions C04_frame_set.

(* 3. Every parsed well-formed document is a live document. *)
Theorem C04_parsed_is_live : forall d : doc, wf_doc d = true ->
  from_str (render d) = Ok (ltree_of (lift d)) /\ lwf (lift d) = true.
Proof. exact parsed_is_live. Qed.
Check C04_parsed_is_live : forall d : doc, wf_doc d = true ->
  from_str (render d) = Ok (ltree_of (lift d)) /\ lwf (lift d) = true.
Print Assumptions C04_parsed_is_live.

(* 4. Histories: after ANY sequence of set/insert/remove/rename with arguments in the domain
      (op_dom: set/insert take a canon_kv name and value - valid name, value of non-empty lines
      ...; rename takes a valid new name; nothing is asked of the document or of the renamed
      field, whose value may be empty), starting from any live document, the tree is again the
      tree of a live document (live_tree, coq/model/LiveTree.v: up to empty VALUE tokens -
      Entry::new puts one for an empty value, the only way an edit differs from what the reader
      builds; they print nothing), reports the list-model content, and its printed text
      re-reads without error to that content (an empty paragraph prints nothing and is not
      re-read). *)
Theorem C04_history : forall ops d, lwf d = true -> Forall op_dom ops ->
  let t' := fold_left tstep ops (ltree_of d) in
  let d' := fold_left astep ops d in
  live_tree t' d' /\ lwf d' = true /\
  doc_items t' = fold_left sstep ops (doc_items (ltree_of d)) /\
  exists t'', from_str (text t') = Ok t'' /\ doc_items t'' = nonempty_paras (doc_items t').
Proof. exact C04_history_every. Qed.
Check C04_history : forall ops d, lwf d = true -> Forall op_dom ops ->
  let t' := fold_left tstep ops (ltree_of d) in
  let d' := fold_left astep ops d in
  live_tree t' d' /\ lwf d' = true /\
  doc_items t' = fold_left sstep ops (doc_items (ltree_of d)) /\
  exists t'', from_str (text t') = Ok t'' /\ doc_items t'' = nonempty_paras (doc_items t').
Print Assumptions C04_history.

(* what the domain and live_tree say, spelled out *)
Theorem C04_domain : forall o, op_dom o <->
  match o with
  | OSet _ k v | OInsert _ k v => canon_kv k v = true
  | ORemove _ _ => True
  | ORename _ _ new => valid_name new = true
  end.
Proof. intros o. destruct o; reflexivity. Qed.
Check C04_domain : forall o, op_dom o <->
  match o with
  | OSet _ k v | OInsert _ k v => canon_kv k v = true
  | ORemove _ _ => True
  | ORename _ _ new => valid_name new = true
  end.
Print Assumptions C04_domain.

Theorem C04_live_tree : forall t d, live_tree t d <-> drop_empty_values t = ltree_of d.
Proof. intros t d. reflexivity. Qed.
Check C04_live_tree : forall t d, live_tree t d <-> drop_empty_values t = ltree_of d.
Print Assumptions C04_live_tree.

(* 4'. When every renamed field carries a value (ops_ok: rename_ok asks it of the first field of
      that name at the time of the rename) no empty VALUE token arises and the tree is exactly
      the layout's tree. *)
Theorem C04_history_exact : forall ops d, lwf d = true -> ops_ok d ops ->
  let t' := fold_left tstep ops (ltree_of d) in
  t' = ltree_of (fold_left astep ops d) /\ lwf (fold_left astep ops d) = true /\
  doc_items t' = fold_left sstep ops (doc_items (ltree_of d)) /\
  exists t'', from_str (text t') = Ok t'' /\ doc_items t'' = nonempty_paras (doc_items t').
Proof. exact C04_history_all. Qed.
Check C04_history_exact : forall ops d, lwf d = true -> ops_ok d ops ->
  let t' := fold_left tstep ops (ltree_of d) in
  t' = ltree_of (fold_left astep ops d) /\ lwf (fold_left astep ops d) = true /\
  doc_items t' = fold_left sstep ops (doc_items (ltree_of d)) /\
  exists t'', from_str (text t') = Ok t'' /\ doc_items t'' = nonempty_paras (doc_items t').
Print Assumptions C04_history_exact.

(* 5. Paragraphs built from name/value pairs (FromIterator) are live paragraphs. *)
Theorem C04_built_is_live : forall l, Forall (fun kv => canon_kv (fst kv) (snd kv) = true) l ->
  paragraph_of_pairs l = lblock_tree (LPara (map (fun kv => IField (new_field (fst kv) (snd kv))) l)) /\
  forall more, wf_items (map (fun kv => IField (new_field (fst kv) (snd kv))) l) more = true.
Proof. exact paragraph_of_pairs_live. Qed.
Check C04_built_is_live : forall l, Forall (fun kv => canon_kv (fst kv) (snd kv) = true) l ->
  paragraph_of_pairs l = lblock_tree (LPara (map (fun kv => IField (new_field (fst kv) (snd kv))) l)) /\
  forall more, wf_items (map (fun kv => IField (new_field (fst kv) (snd kv))) l) more = true.
Print Assumptions C04_built_is_live.

(* Handles: in the model an edit through a paragraph handle IS the edit of the shared root
   (on_para); that rowan really aliases handles is checked by the deb822-edit stream, which
   performs every edit through handles obtained before all earlier edits. *)

(* Non-vacuity: a history on a parsed document with a comment, an unterminated last line, a
   duplicate name and two fields with an empty value ("E:" LF and "G: " LF); E is renamed, then
   renamed again (through the entry that holds the empty VALUE token), G is renamed, fields are
   set, removed and inserted around them.  All hypotheses hold, the result is computed, and
   the tree really differs from the layout's tree by its empty VALUE tokens. *)
Example C04_ex :
  let f1 := mk_field [65]%N [32]%N [49]%N [] true in
  let fe := mk_field [69]%N [] [] [] true in
  let f2 := mk_field [66]%N [] [50]%N [([32]%N, [51]%N)] true in
  let fg := mk_field [71]%N [32]%N [] [] true in
  let f3 := mk_field [65]%N [32]%N [52]%N [] false in
  let d := lift [BComment [120]%N true; BPara f1 [IField fe; IComment [121]%N true; IField f2; IField fg; IField f3]] in
  let ops := [ORename 0 [69]%N [70]%N; OSet 0 [67]%N [53; 10; 54]%N; ORemove 0 [65]%N; ORename 0 [66]%N [68]%N;
              ORename 0 [70]%N [72]%N; ORename 0 [71]%N [73]%N; OInsert 0 [66]%N [55]%N] in
  lwf d = true /\ Forall op_dom ops /\
  doc_items (fold_left tstep ops (ltree_of d)) = [[([72], []); ([68], [50; 10; 51]); ([73], []); ([67], [53; 10; 54]); ([66], [55])]]%N /\
  text (fold_left tstep ops (ltree_of d)) =
    [35;120;10; 72;58;32;10; 35;121;10; 68;58;32;50;10;32;51;10; 73;58;32;10; 67;58;32;53;10;32;54;10; 66;58;32;55;10]%N /\
  fold_left tstep ops (ltree_of d) <> ltree_of (fold_left astep ops d).
Proof.
  cbv zeta. split; [vm_compute; reflexivity|]. split; [repeat constructor; vm_compute; reflexivity|].
  split; [vm_compute; reflexivity|]. split; [vm_compute; reflexivity|].
  intros E. vm_compute in E. discriminate E.
Qed.

(* the same for the exact statement: every renamed field carries a value *)
Example C04_ex_exact :
  let f1 := mk_field [65]%N [32]%N [49]%N [] true in
  let f2 := mk_field [66]%N [] [50]%N [([32]%N, [51]%N)] true in
  let f3 := mk_field [65]%N [32]%N [52]%N [] false in
  let d := lift [BComment [120]%N true; BPara f1 [IComment [121]%N true; IField f2; IField f3]] in
  let ops := [OSet 0 [67]%N [53; 10; 54]%N; ORemove 0 [65]%N; ORename 0 [66]%N [68]%N; OInsert 0 [66]%N [55]%N] in
  lwf d = true /\ ops_ok d ops /\
  doc_items (fold_left tstep ops (ltree_of d)) = [[([68], [50; 10; 51]); ([67], [53; 10; 54]); ([66], [55])]]%N.
Proof.
  cbv zeta. split; [vm_compute; reflexivity|]. split; [|vm_compute; reflexivity].
  cbn [ops_ok]. split; [vm_compute; reflexivity|]. split; [exact I|]. split.
  - intros its E. vm_compute in E. inversion E; subst. split; [vm_compute; reflexivity|].
    intros f Hf. vm_compute in Hf. inversion Hf; subst. vm_compute. reflexivity.
  - split; [vm_compute; reflexivity|exact I].
Qed.
