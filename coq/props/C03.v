(* C03 — well-formed deb822 documents are accepted and read back exactly as written.
   Statements only.  The quantifier is Grammar.doc restricted by Grammar.wf_doc: arbitrary
   names (valid_name), arbitrary value lines without LF/CR, every placement of comments and
   blank lines, every indentation and colon spacing, optional final newline. *)
From V.model Require Import Base Deb822Lex Deb822Parse Grammar.
From V.proofs Require Import GrammarLexP GrammarParseP GrammarAccP RejectP.
From V.model Require XGrammar.
From V.proofs Require ParseImageP.

(* acceptance + exact content, for every well-formed document *)
Theorem C03_accept : forall d : doc, wf_doc d = true ->
  from_str (render d) = Ok (tree_of d) /\ text (tree_of d) = render d /\
  doc_items (tree_of d) = content d.
Proof. exact C03_accept_all. Qed.
Check C03_accept : forall d : doc, wf_doc d = true ->
  from_str (render d) = Ok (tree_of d) /\ text (tree_of d) = render d /\
  doc_items (tree_of d) = content d.
Print Assumptions C03_accept.

(* the token partition the lexer produces for a well-formed document *)
Theorem C03_lex : forall d : doc, wf_doc d = true -> lex (render d) = Ok (doc_toks d).
Proof. exact lex_render. Qed.
Check C03_lex : forall d : doc, wf_doc d = true -> lex (render d) = Ok (doc_toks d).
Print Assumptions C03_lex.

(* lookups are the list lookups on items(), on every paragraph tree (parsed or not) *)
Theorem C03_lookups : forall p k,
  keys p = spec_keys (items p) /\ get p k = spec_get (items p) k /\
  get_all p k = spec_get_all (items p) k /\ contains_key p k = spec_contains (items p) k.
Proof.
  intros p k. split; [apply keys_items|]. split; [apply get_items|]. split; [apply get_all_items|apply contains_key_items].
Qed.
Check C03_lookups : forall p k,
  keys p = spec_keys (items p) /\ get p k = spec_get (items p) k /\
  get_all p k = spec_get_all (items p) k /\ contains_key p k = spec_contains (items p) k.
Print Assumptions C03_lookups.

(* Paragraph::from_str returns the first paragraph of the document *)
Theorem C03_first_paragraph : forall d : doc, wf_doc d = true ->
  paragraph_from_str (render d) = match paragraphs (tree_of d) with p :: _ => Ok p | [] => Err 2%N end.
Proof. exact paragraph_from_str_first. Qed.
Check C03_first_paragraph : forall d : doc, wf_doc d = true ->
  paragraph_from_str (render d) = match paragraphs (tree_of d) with p :: _ => Ok p | [] => Err 2%N end.
Print Assumptions C03_first_paragraph.

(* The rejection clause: a line that is neither a field (a name followed by a colon), a
   continuation (it does not start with space or tab), a comment (it does not start with '#')
   nor blank makes the strict reader fail — when inserted at ANY line boundary of ANY text, in
   particular of any well-formed document (render d = pre ++ post). *)
Theorem C03_reject : forall (pre post l : str),
  (pre = [] \/ exists p, pre = p ++ [LF]) ->       (* a line boundary *)
  bad_line l = true ->
  from_str (pre ++ l ++ [LF] ++ post) = Err 1%N.
Proof. exact C03_reject_all. Qed.
Check C03_reject : forall (pre post l : str),
  (pre = [] \/ exists p, pre = p ++ [LF]) ->
  bad_line l = true ->
  from_str (pre ++ l ++ [LF] ++ post) = Err 1%N.
Print Assumptions C03_reject.
(* ... and likewise when it is the last line and has no line end ("final newline optional"). *)
Theorem C03_reject_last : forall (pre l : str),
  (pre = [] \/ exists p, pre = p ++ [LF]) ->
  bad_line l = true ->
  from_str (pre ++ l) = Err 1%N.
Proof. exact C03_reject_last_all. Qed.
Check C03_reject_last : forall (pre l : str),
  (pre = [] \/ exists p, pre = p ++ [LF]) ->
  bad_line l = true ->
  from_str (pre ++ l) = Err 1%N.
Print Assumptions C03_reject_last.
Example C03_ex_bad_lines :
  bad_line [45; 120]%N = true /\ bad_line [102; 111; 111; 32; 98]%N = true /\       (* "-x", "foo b" *)
  bad_line [58; 97]%N = true /\ bad_line [233]%N = true /\                          (* ":a", U+00E9 *)
  bad_line [65; 58; 32; 98]%N = false /\ bad_line [32; 120]%N = false /\ bad_line [35; 99]%N = false.
Proof. vm_compute. repeat split. Qed.

(* Non-vacuity: a document using every layout knob is well-formed. *)
Example C03_ex_wf :
  let f1 := mk_field [65]%N [32]%N [98; 32]%N [([32], [58; 99]); ([9; 32], [100])]%N true in
  let f2 := mk_field [66; 45]%N [] [] [] true in
  let f3 := mk_field [67]%N [] [35]%N [([32], [120])]%N false in
  let d := [BComment [120]%N true; BBlank; BPara f1 [IComment [] true; IField f2; IComment [121]%N true];
            BBlank; BBlank; BComment [] true; BPara f2 [IField f3]] in
  wf_doc d = true /\ content d = [[([65], [98; 32; 10; 58; 99; 10; 100]); ([66; 45], [])];
                                   [([66; 45], []); ([67], [35; 10; 120])]]%N.
Proof. vm_compute. split; reflexivity. Qed.

(* Beyond the property's grammar: the strict reader is exactly the inverse of printing on the set
   of ALL error-free layouts (XGrammar.xdoc: Grammar.doc plus every further choice the reader
   tolerates — LF or CR line ends, blanks before the colon, comment or empty continuation lines,
   values starting on a continuation line or absent).  Every such layout is accepted and read back
   exactly; and every text the strict reader accepts is the rendering of one.  (cone C07,
   proofs/ParseImageP.v; Grammar.wf_doc documents are among them: grammar_in_image.) *)
Theorem C03_image_accept : forall d : XGrammar.xdoc, XGrammar.xwf_doc d = true ->
  lex (XGrammar.xrender d) = Ok (XGrammar.xdoc_toks d) /\
  from_str (XGrammar.xrender d) = Ok (XGrammar.xtree_of d) /\ text (XGrammar.xtree_of d) = XGrammar.xrender d /\
  doc_items (XGrammar.xtree_of d) = XGrammar.xcontent d.
Proof. exact ParseImageP.parse_image_accept. Qed.
Check C03_image_accept : forall d : XGrammar.xdoc, XGrammar.xwf_doc d = true ->
  lex (XGrammar.xrender d) = Ok (XGrammar.xdoc_toks d) /\
  from_str (XGrammar.xrender d) = Ok (XGrammar.xtree_of d) /\ text (XGrammar.xtree_of d) = XGrammar.xrender d /\
  doc_items (XGrammar.xtree_of d) = XGrammar.xcontent d.
Print Assumptions C03_image_accept.

Theorem C03_image_complete : forall (s : str) (t : tree), from_str s = Ok t ->
  exists d, XGrammar.xwf_doc d = true /\ XGrammar.xrender d = s /\ XGrammar.xtree_of d = t.
Proof. exact ParseImageP.parse_image_complete. Qed.
Check C03_image_complete : forall (s : str) (t : tree), from_str s = Ok t ->
  exists d, XGrammar.xwf_doc d = true /\ XGrammar.xrender d = s /\ XGrammar.xtree_of d = t.
Print Assumptions C03_image_complete.
