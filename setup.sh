#!/bin/sh
# Build the whole framework from files on disk only (offline).
set -e
cd "$(dirname "$0")"
export CARGO_NET_OFFLINE=true
python3 - <<'PY'
import sys, os
sys.path.insert(0, os.getcwd())
from vlib import core
ok, log = core.run_translators()
print(log[-2000:])
if not ok: sys.exit("translators failed")
core.ensure_coq_makefile()
targets = [s[:-2] + ".vo" for s in core.coq_sources() if not s.startswith("extract/")]
ok, out = core.build_coq(targets, timeout=3000)
print(out[-4000:])
if not ok:
    import re
    for m in re.finditer(r'File "[^"]+", line \d+[^\n]*\n(?:.*\n){0,12}?.*Error:(?:.*\n){0,8}', out):
        print("----\n" + m.group(0))
    sys.exit("coq build failed")
ok, out = core.build_runner()
print(out[-2000:])
if not ok: sys.exit("runner build failed")
ok, out = core.build_harness()
print(out[-2000:])
if not ok: sys.exit("harness build failed")
print("setup ok")
PY
