"""Minimal Rust source scanner used by translate/accessors.py: tokenises a file (strings, raw
strings, chars/lifetimes, comments), finds inherent `impl Type { ... }` blocks and the `pub fn`
items directly inside them.  No Rust parser is available offline; the scanner is deliberately
small and fails loudly (ScanError) on anything it does not understand."""
import re

class ScanError(Exception):
    pass

TOK = re.compile(r"""
    (?P<ws>\s+)
  | (?P<lc>//[^\n]*)
  | (?P<bc>/\*.*?\*/)
  | (?P<rstr>r(?P<h>\#*)".*?"(?P=h))
  | (?P<str>b?"(?:[^"\\]|\\.)*")
  | (?P<chr>'(?:[^'\\\n]|\\.[^']*)')
  | (?P<life>'[A-Za-z_][A-Za-z0-9_]*)
  | (?P<num>[0-9][A-Za-z0-9_]*(?:\.[0-9]+)?)
  | (?P<id>[A-Za-z_][A-Za-z0-9_]*!?)
  | (?P<p2>::|->|=>|==|!=|<=|>=|&&|\|\||\.\.=|\.\.|\+=|-=)
  | (?P<p1>[^\sA-Za-z0-9_])
""", re.X | re.S)

def tokenize(src):
    """list of (kind, text, start offset); comments and whitespace dropped, doc comments kept as kind 'doc'"""
    out = []
    i = 0
    n = len(src)
    while i < n:
        m = TOK.match(src, i)
        if not m:
            raise ScanError(f"cannot tokenise at offset {i}: {src[i:i+30]!r}")
        k = m.lastgroup
        if k == "h":
            k = "rstr"
        t = m.group(0)
        if k == "lc":
            if t.startswith("///") or t.startswith("//!"):
                out.append(("doc", t, i))
        elif k in ("ws", "bc"):
            pass
        else:
            out.append((k, t, i))
        i = m.end()
    return out

OPEN = {"(": ")", "[": "]", "{": "}"}
CLOSE = {")", "]", "}"}

def match_close(toks, i):
    """toks[i] is an opening bracket: index of the matching closing one"""
    depth = 0
    j = i
    while j < len(toks):
        t = toks[j][1]
        if toks[j][0] == "p1" and t in OPEN:
            depth += 1
        elif toks[j][0] == "p1" and t in CLOSE:
            depth -= 1
            if depth == 0:
                return j
        j += 1
    raise ScanError("unbalanced bracket")

def word(k):
    return k in ("id", "num", "life")

def join_tokens(toks):
    """whitespace-normalised text: one space only between two word-like tokens"""
    out = []
    prev = None
    for k, t, _ in toks:
        if k == "doc":
            continue
        if prev is not None and word(prev) and word(k):
            out.append(" ")
        out.append(t)
        prev = k
    return "".join(out)

def impl_blocks(toks):
    """yield (type name, body token list) for every inherent `impl Type {` / `impl<..> Type {`"""
    i = 0
    depth = 0
    n = len(toks)
    while i < n:
        k, t, _ = toks[i]
        if k == "p1" and t == "{":
            depth += 1
        elif k == "p1" and t == "}":
            depth -= 1
        elif k == "id" and t == "impl" and depth == 0:
            j = i + 1
            # optional generics
            if toks[j][1] == "<":
                d = 0
                while True:
                    if toks[j][1] == "<": d += 1
                    elif toks[j][1] == ">":
                        d -= 1
                        if d == 0: break
                    j += 1
                j += 1
            head = []
            while not (toks[j][0] == "p1" and toks[j][1] == "{"):
                head.append(toks[j]); j += 1
            e = match_close(toks, j)
            htxt = [x[1] for x in head]
            if "for" not in htxt:
                yield htxt[0], toks[j + 1:e]
            i = e
        i += 1

class Fn:
    def __init__(self):
        self.name = ""; self.vis = ""; self.attrs = []; self.doc = []
        self.params = []     # list of (name, type text); self receiver as ('self', '&self'|'&mut self'|'self')
        self.ret = ""        # normalised return type text ('' = unit)
        self.body = ""       # normalised body text (without the outer braces)
        self.generics = ""
        self.where = ""

def split_top(toks, sep):
    """split a token list at top-level occurrences of punctuation `sep` (angle brackets counted too)"""
    out = [[]]
    d = 0
    for tk in toks:
        k, t, _ = tk
        if k == "p1" and (t in OPEN or t == "<"):
            d += 1
        elif k == "p1" and (t in CLOSE or t == ">"):
            d -= 1
        elif k == "p2" and t == "->":
            pass
        if d == 0 and k == "p1" and t == sep:
            out.append([])
        else:
            out[-1].append(tk)
    return [x for x in out if x]

def fns_of(body):
    """the fn items directly inside an impl body"""
    out = []
    i = 0
    n = len(body)
    attrs = []; doc = []
    while i < n:
        k, t, _ = body[i]
        if k == "doc":
            doc.append(t); i += 1; continue
        if k == "p1" and t == "#":
            e = match_close(body, i + 1)
            attrs.append(join_tokens(body[i:e + 1])); i = e + 1; continue
        vis = ""
        if k == "id" and t == "pub":
            vis = "pub"; i += 1
            if body[i][1] == "(":
                e = match_close(body, i); vis = "pub" + join_tokens(body[i:e + 1]); i = e + 1
            k, t, _ = body[i]
        while k == "id" and t in ("const", "async", "unsafe"):
            i += 1; k, t, _ = body[i]
        if k == "id" and t == "fn":
            f = Fn(); f.vis = vis; f.attrs = attrs; f.doc = doc
            f.name = body[i + 1][1]
            j = i + 2
            if body[j][1] == "<":
                d = 0; s = j
                while True:
                    if body[j][1] == "<": d += 1
                    elif body[j][1] == ">":
                        d -= 1
                        if d == 0: break
                    j += 1
                f.generics = join_tokens(body[s:j + 1]); j += 1
            if body[j][1] != "(":
                raise ScanError("fn without parameter list: " + f.name)
            e = match_close(body, j)
            for p in split_top(body[j + 1:e], ","):
                txt = join_tokens([x for x in p if x[0] != "life"])
                p = [x for x in p if x[0] != "life"]
                if txt in ("self", "&self", "&mut self", "mut self"):
                    f.params.append(("self", txt))
                else:
                    parts = split_top(p, ":")
                    nm = join_tokens(parts[0])
                    if nm.startswith("mut "): nm = nm[4:]
                    f.params.append((nm, join_tokens([x for q in parts[1:] for x in q] if len(parts) == 2 else p[len(parts[0]) + 1:])))
            j = e + 1
            rs = j
            while not (body[j][0] == "p1" and body[j][1] in "{;"):
                j += 1
            rt = body[rs:j]
            if rt and rt[0][1] == "->":
                rt = rt[1:]
            # a where clause ends the return type
            for q, tk in enumerate(rt):
                if tk[1] == "where":
                    f.where = join_tokens(rt[q:]); rt = rt[:q]; break
            f.ret = join_tokens(rt)
            if body[j][1] == "{":
                e = match_close(body, j)
                f.body = join_tokens(body[j + 1:e])
                j = e
            out.append(f)
            attrs = []; doc = []
            i = j + 1
            continue
        if k == "id" and t in ("type", "const"):
            while body[i][1] != ";": i += 1
            attrs = []; doc = []
            i += 1; continue
        raise ScanError(f"unexpected token in impl body: {t!r}")
    return out
