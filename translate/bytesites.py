#!/usr/bin/env python3
"""translate/bytesites.py <repo> <coq/gen dir>

Regenerates coq/gen/ByteSites_gen.v: the BYTE-SLICING sites of the text readers, read from the
Rust sources on every run.

  src/lex.rs  lex_          every arm of `match c`, in order, as a ByteLex.arm record:
                            guard (char literal / common::<class>(c) / _), state conditions,
                            the slice it performs (`&input[k..]`, `split_at(k)`,
                            `split_at(c.len_utf8())`, `split_at(find(P).unwrap_or(len))` with
                            P a named class or its negation), the state updates, the token kind
  debian-control/src/vcs.rs  ParsedVcs::from_str: the regex literal, the constants of
                            `m.as_str()[a..len - b]`, the literal of `s.find(..)`, `branch_str[k..]`
  debian-control/src/lossless/changes.rs  get_pool_path: `source[..k]` and its `starts_with` guard

Data only.  Anything outside the small statement language below sets
`lex_sites_recognised` / `vcs_sites_recognised` / `pool_sites_recognised` to false (an
unrecognised arm is left out), which breaks proofs/ByteLexP.v / proofs/ByteVcsP.v.
The file is only rewritten when its content changes."""
import os, re, sys

sys.path.insert(0, os.path.dirname(os.path.abspath(__file__)))
import classes as _classes

CLASSES = {"is_indent": "ClsIndent", "is_newline": "ClsNewline",
           "is_valid_key_char": "ClsKeyChar", "is_valid_initial_key_char": "ClsInitialKeyChar"}

def strip_comments(src):
    return re.sub(r"//[^\n]*", "", src)

def balanced(src, i, open_c="{", close_c="}"):
    """src[i] == open_c: index just after the matching close_c (char/str literals skipped)"""
    depth = 0; n = len(src)
    while i < n:
        ch = src[i]
        if ch == "'" :
            m = re.match(r"'(?:\\.|[^'\\])'", src[i:])
            if m: i += m.end(); continue
        if ch == '"':
            m = re.match(r'"(?:\\.|[^"\\])*"', src[i:])
            if m: i += m.end(); continue
        if ch == open_c: depth += 1
        elif ch == close_c:
            depth -= 1
            if depth == 0: return i + 1
        i += 1
    raise ValueError("unbalanced")

def compact(s):
    # whitespace carries no meaning in the statement language below, except inside literals
    out = []; i = 0
    while i < len(s):
        m = re.match(r"'(?:\\.|[^'\\])'|\"(?:\\.|[^\"\\])*\"", s[i:])
        if m: out.append(m.group(0)); i += m.end(); continue
        if not s[i].isspace(): out.append(s[i])
        i += 1
    return "".join(out)

def coq_str(text):
    return "[" + "; ".join(str(ord(c)) for c in text) + "]%N"

def str_lit(lit):
    """Rust "..." literal (simple escapes) -> python str"""
    body = lit[1:-1]; out = []; i = 0
    while i < len(body):
        if body[i] == "\\":
            out.append(chr(_classes.CHAR_ESC[body[i+1]])); i += 2
        else:
            out.append(body[i]); i += 1
    return "".join(out)

def split_statements(body):
    """top-level `;`-separated statements of a compacted block body; the tail expression is last"""
    out = []; depth = 0; cur = []; i = 0
    while i < len(body):
        m = re.match(r"'(?:\\.|[^'\\])'|\"(?:\\.|[^\"\\])*\"", body[i:])
        if m: cur.append(m.group(0)); i += m.end(); continue
        ch = body[i]
        if ch in "{([": depth += 1
        elif ch in "})]": depth -= 1
        if ch == ";" and depth == 0:
            out.append("".join(cur)); cur = []
        else:
            cur.append(ch)
        i += 1
    out.append("".join(cur))
    return out

def parse_cond(cond, is_wild):
    """-> (guard class or None, [cond constructors])"""
    cls = None; conds = []
    if cond is None: return None, []
    if "||" in cond:
        if cond != "!start_of_line||indent>0": raise ValueError("condition " + cond)
        return None, ["CNotSolOrIndent"]
    for k, part in enumerate(cond.split("&&")):
        m = re.fullmatch(r"common::(\w+)\(c\)", part)
        if m:
            if not is_wild or k != 0 or m.group(1) not in CLASSES: raise ValueError("guard " + part)
            cls = CLASSES[m.group(1)]
        elif part == "colon_count==0": conds.append("CColon0")
        elif part == "indent==0": conds.append("CIndent0")
        elif part == "start_of_line": conds.append("CSol")
        else: raise ValueError("condition " + part)
    return cls, conds

def parse_split_arg(arg):
    arg = arg.rstrip(",")          # rustfmt's trailing comma of a multi-line argument
    if re.fullmatch(r"\d+", arg): return f"(SlSplit {int(arg)})"
    if arg == "c.len_utf8()": return "SlSplitLenUtf8"
    m = re.fullmatch(r"input\.find\(\|c\|(!?)common::(\w+)\(c\)\)\.unwrap_or\(input\.len\(\)\)", arg) or \
        re.fullmatch(r"input\.find\(()common::(\w+)\)\.unwrap_or\(input\.len\(\)\)", arg)
    if m and m.group(2) in CLASSES:
        return f"(SlSplitFind {'true' if m.group(1) else 'false'} {CLASSES[m.group(2)]})"
    raise ValueError("split_at argument " + arg)

def parse_arm(pat, cond, body, kinds):
    is_wild = pat == "_"
    if is_wild: guard = None
    else: guard = f"(GChar {_classes.char_code(pat)})"
    cls, conds = parse_cond(cond, is_wild)
    if guard is None: guard = f"(GCls {cls})" if cls else "GAny"
    stmts = split_statements(body)
    tail = stmts.pop()
    slice_ = None; var = None; rest_var = None; upds = []; from_k = None; pending_input = False
    for st in stmts:
        # the names of the two local variables carry no meaning: (token text, rest of the input)
        m = re.fullmatch(r"let\((\w+),(\w+)\)=input\.split_at\((.*)\)", st)
        if m:
            if slice_ is not None: raise ValueError("two slices")
            if m.group(1) == m.group(2): raise ValueError("split_at binds one name twice")
            var = m.group(1); rest_var = m.group(2); slice_ = parse_split_arg(m.group(3)); pending_input = True; continue
        if pending_input and st == "input=" + rest_var:
            pending_input = False; continue
        m = re.fullmatch(r"input=&input\[(\d+)\.\.\]", st)
        if m:
            if slice_ is not None: raise ValueError("two slices")
            from_k = int(m.group(1)); slice_ = "from"; continue
        if st == "colon_count+=1": upds.append("UColonInc"); continue
        if st == "colon_count=0": upds.append("UColon0"); continue
        if st == "indent=0": upds.append("UIndent0"); continue
        m = re.fullmatch(r"start_of_line=(true|false)", st)
        if m: upds.append(f"USol {m.group(1)}"); continue
        raise ValueError("statement " + st)
    if slice_ is None or pending_input: raise ValueError("no slice / remaining input not stored")
    def kind(name):
        if name not in kinds: raise ValueError("kind " + name)
        return kinds[name]
    m = re.fullmatch(r"Some\(\(SyntaxKind::(\w+),(\w+|\"(?:\\.|[^\"\\])*\")\)\)", tail)
    if m:
        if slice_ == "from":
            if not m.group(2).startswith('"'): raise ValueError("token text of a &input[k..] arm is not a literal")
            slice_ = f"(SlFrom {from_k} {coq_str(str_lit(m.group(2)))})"
        elif m.group(2) != var: raise ValueError("token text is not the split-off part")
        emit = f"(EKind {kind(m.group(1))})"
    else:
        m = re.fullmatch(r"ifstart_of_line\{indent=(\w+)\.len\(\);Some\(\(SyntaxKind::(\w+),(\w+)\)\)\}"
                         r"else\{Some\(\(SyntaxKind::(\w+),(\w+)\)\)\}", tail)
        if not m or slice_ == "from" or not (m.group(1) == m.group(3) == m.group(5) == var):
            raise ValueError("tail expression " + tail)
        emit = f"(EIndentOrWs {kind(m.group(2))} {kind(m.group(4))})"
    return f"mk_arm {guard} [{'; '.join(conds)}] {slice_} [{'; '.join(upds)}] {emit}"

def lex_arms(lexrs, notes):
    src = strip_comments(lexrs)
    m = re.search(r"fn lex_\b.*?match c \{", src, re.S)
    if not m: notes.append("lex_: `match c {` not found"); return [], False
    start = m.end() - 1
    body = src[start + 1: balanced(src, start) - 1]
    kinds = dict(_classes.enum_values(lexrs) or [])
    # the scaffolding around the match: what `c` and the loop are
    head = compact(src[m.start():m.end()])
    ok = True
    if "ifletSome(c)=input.chars().next(){matchc{" not in head:
        ok = False; notes.append("lex_: `c` is not input.chars().next()")
    if not re.search(r"letmutcolon_count=ifstart_of_line\{0\}else\{1\};letmutindent=0;", head):
        ok = False; notes.append("lex_: initial state not recognised")
    arms = []; i = 0
    while True:
        while i < len(body) and body[i].isspace(): i += 1
        if i >= len(body): break
        j = body.find("=>", i)
        if j < 0: ok = False; notes.append("lex_: trailing text " + body[i:i+40]); break
        headtxt = compact(body[i:j])
        k = j + 2
        while body[k].isspace(): k += 1
        if body[k] != "{": ok = False; notes.append("lex_: arm without a block: " + headtxt); break
        e = balanced(body, k)
        blk = compact(body[k + 1: e - 1])
        i = e
        while i < len(body) and (body[i].isspace() or body[i] == ","): i += 1
        hm = re.fullmatch(r"('(?:\\.|[^'\\])'|_)(?:if(.*))?", headtxt)
        try:
            if not hm: raise ValueError("pattern " + headtxt)
            arms.append(parse_arm(hm.group(1), hm.group(2), blk, kinds))
        except Exception as ex:
            ok = False; notes.append(f"lex_ arm {len(arms) + 1}: {ex}")
    return arms, ok

def vcs_sites(vcsrs, notes):
    src = strip_comments(vcsrs); ok = True
    m = re.search(r"impl FromStr for ParsedVcs \{.*?fn from_str\(s: &str\)[^{]*\{", src, re.S)
    vals = {"regex": "", "sub_from": 0, "sub_back": 0, "find_lit": "", "branch_from": 0}
    if not m: notes.append("vcs.rs: ParsedVcs::from_str not found"); return vals, False
    st = m.end() - 1
    body = compact(src[st: balanced(src, st)])
    def need(rx, what):
        nonlocal ok
        mm = re.search(rx, body)
        if not mm: ok = False; notes.append("vcs.rs: " + what + " not recognised")
        return mm
    mm = need(r'Regex::new\(r"((?:[^"])*)"\)\.unwrap\(\)', "regex literal")
    if mm: vals["regex"] = mm.group(1)
    mm = need(r"subpath=Some\(m\.as_str\(\)\[(\d+)\.\.m\.as_str\(\)\.len\(\)-(\d+)\]\.to_string\(\)\)", "subpath slice")
    if mm: vals["sub_from"] = int(mm.group(1)); vals["sub_back"] = int(mm.group(2))
    need(r"s=Cow::Owned\(\[s\[\.\.m\.start\(\)\]\.to_string\(\),s\[m\.end\(\)\.\.\]\.to_string\(\)\]\.concat\(\)\)", "removal of the match")
    # (names of the locals carry no meaning)
    mm = need(r'ifletSome\((?P<i>\w+)\)=s\.find\((?P<lit>"(?:\\.|[^"\\])*")\)\{let\((?P<u>\w+),(?P<b>\w+)\)=s\.split_at\((?P=i)\);'
              r"branch=Some\((?P=b)\[(?P<k>\d+)\.\.\]\.to_string\(\)\);repo_url=(?P=u)\.to_string\(\);\}", "branch split")
    if mm: vals["find_lit"] = str_lit(mm.group("lit")); vals["branch_from"] = int(mm.group("k"))
    need(r"letmuts:Cow<str>=s\.trim\(\)\.into\(\);", "trim")
    # no other slicing expression in the function
    others = re.findall(r"\[[^\[\]]*\.\.[^\[\]]*\]", body)
    if len(others) != 4: ok = False; notes.append(f"vcs.rs: {len(others)} range expressions, 4 expected")
    return vals, ok

def pool_sites(chrs, notes):
    src = strip_comments(chrs)
    m = re.search(r"fn get_pool_path\(&self\)[^{]*\{", src)
    vals = {"prefix": 0, "guard": ""}
    if not m: notes.append("changes.rs: get_pool_path not found"); return vals, False
    st = m.end() - 1
    body = compact(src[st: balanced(src, st)])
    mm = re.search(r'letsubdir=ifsource\.starts_with\(("(?:\\.|[^"\\])*")\)\{("(?:\\.|[^"\\])*")\.to_string\(\)\}'
                   r"else\{source\[\.\.(\d+)\]\.to_lowercase\(\)\};", body)
    if not mm or mm.group(1) != mm.group(2):
        notes.append("changes.rs: subdir expression not recognised"); return vals, False
    vals["guard"] = str_lit(mm.group(1)); vals["prefix"] = int(mm.group(3))
    others = re.findall(r"\[[^\[\]]*\.\.[^\[\]]*\]", body)
    if len(others) != 1:
        notes.append(f"changes.rs: {len(others)} range expressions in get_pool_path, 1 expected"); return vals, False
    return vals, True

# ---------------------------------------------------------------- completeness of the site list
# every byte-range slicing expression of the five crates' library code (test modules cut off):
# `x[a..b]`, `x[..b]`, `x[a..]`, `.split_at(`, `.split_at_mut(`, `get_unchecked`, `from_utf8_unchecked`
CRATE_SRC = ["src", "debian-control/src", "debian-copyright/src", "dep3/src", "apt-sources/src"]
EXPECTED_SITES = {"src/lex.rs": 7, "debian-control/src/vcs.rs": 5, "debian-control/src/lossless/changes.rs": 1}
SLICE_RX = re.compile(r"[\w\)\]]\s*\[[^\[\]\n;]*\.\.[^\[\]\n;]*\]|\.split_at(?:_mut)?\s*\(|get_unchecked|from_utf8_unchecked")

def strip_literals(src):
    """string and char literals blanked (a `[a..b]` inside a text is not a slice)"""
    return re.sub(r'"(?:\\.|[^"\\])*"', '""', src)

def slice_sites(repo):
    found = {}
    for d in CRATE_SRC:
        for root, dirs, files in os.walk(os.path.join(repo, d)):
            dirs.sort()
            for f in sorted(files):
                if not f.endswith(".rs"): continue
                path = os.path.join(root, f)
                rel = os.path.relpath(path, repo)
                if d == "src" and rel.count("/") > 1: continue
                src = open(path, encoding="utf-8").read()
                cut = src.find("#[cfg(test)]")
                if cut >= 0: src = src[:cut]
                src = strip_literals(strip_comments(src))
                n = len(SLICE_RX.findall(src))
                if n: found[rel] = n
    return found

def main(repo, gen):
    notes = []
    lexrs = open(os.path.join(repo, "src/lex.rs")).read()
    vcsrs = open(os.path.join(repo, "debian-control/src/vcs.rs")).read()
    chrs = open(os.path.join(repo, "debian-control/src/lossless/changes.rs")).read()
    arms, ok1 = lex_arms(lexrs, notes)
    v, ok2 = vcs_sites(vcsrs, notes)
    p, ok3 = pool_sites(chrs, notes)
    sites = slice_sites(repo)
    ok4 = sites == EXPECTED_SITES
    if not ok4: notes.append("byte-range slicing sites of the library code: " + repr(sites) + ", modelled: " + repr(EXPECTED_SITES))
    ok = ok1 and ok2 and ok3 and ok4
    lines = ["(* generated by translate/bytesites.py from src/lex.rs, debian-control/src/vcs.rs and debian-control/src/lossless/changes.rs — do not edit *)",
             "From V.model Require Import Base ByteLex.", "",
             "(* the arms of `match c` in lex_, in source order *)",
             "Definition lex_arms_src : list arm :=\n  [ " + ";\n    ".join(arms) + " ].", "",
             "(* ParsedVcs::from_str: regex literal; m.as_str()[a .. len - b]; s.find(lit); branch_str[k..] *)",
             f"Definition vcs_regex_src : str := {coq_str(v['regex'])}.",
             f"Definition vcs_sub_from_src : nat := {v['sub_from']}.",
             f"Definition vcs_sub_back_src : nat := {v['sub_back']}.",
             f"Definition vcs_find_lit_src : str := {coq_str(v['find_lit'])}.",
             f"Definition vcs_branch_from_src : nat := {v['branch_from']}.", "",
             "(* Changes::get_pool_path: if source.starts_with(guard) { guard } else { source[..k].to_lowercase() } *)",
             f"Definition pool_guard_src : str := {coq_str(p['guard'])}.",
             f"Definition pool_prefix_src : nat := {p['prefix']}.", "",
             f"Definition lex_sites_recognised : bool := {'true' if ok1 else 'false'}.",
             f"Definition vcs_sites_recognised : bool := {'true' if ok2 else 'false'}.",
             f"Definition pool_sites_recognised : bool := {'true' if ok3 else 'false'}.", "",
             "(* every byte-range slicing expression (x[a..b], split_at, get_unchecked, from_utf8_unchecked) of the",
             "   library code of the five crates, per file; complete = exactly the sites transcribed above *)",
             "Definition slice_site_counts : list (str * nat) :=\n  [ " + ";\n    ".join(f"({coq_str(k)}, {v})" for k, v in sorted(sites.items())) + " ].",
             f"Definition slice_sites_complete : bool := {'true' if ok4 else 'false'}."]
    for n in notes: lines.append("(* NOT RECOGNISED: " + n.replace("*)", "* )").replace("(*", "( *") + " *)")
    text = "\n".join(lines) + "\n"
    path = os.path.join(gen, "ByteSites_gen.v")
    if not os.path.exists(path) or open(path).read() != text:
        open(path, "w").write(text)
    print("bytesites.py:", "ok" if ok else "NOT RECOGNISED: " + "; ".join(notes))
    return 0

if __name__ == "__main__":
    sys.exit(main(sys.argv[1], sys.argv[2]))
