#!/usr/bin/env python3
"""Translator for C16: re-reads the Rust sources of the workspace and regenerates

  <coq/gen>/Structs_gen.v          field-spec tables of every #[derive(FromDeb822, ToDeb822)] struct
  <coq/gen>/structs.json           the same table for the Python generators / oracle
  <verif>/harness/src/s_derive_gen.rs   per-struct glue for the Rust harness (stream `derive`)

usage: python3 translate/structs.py <repo> <coq/gen dir>      (run by vlib/core.py on every check)
       python3 translate/structs.py --selftest                 (fixtures pinning each recognised template)

What is read, and how (mirrors deb822-derive/src/lib.rs):
  * a struct is taken iff one of the #[derive(...)] lists in front of it names FromDeb822 or ToDeb822;
  * key      = the last `field = "..."` of the field's #[deb822(...)] attributes, else the identifier;
  * optional = the macro's own syntactic test `is_option`: the type is a path whose LAST segment is
               the identifier `Option` (so `std::option::Option<T>` counts, a type alias does not);
  * ser      = the function named by serialize_with, else ToString::to_string of the field type
               (of T for Option<T>);  de = deserialize_with, else FromStr::from_str of that type.
    A function is resolved by reading its body in the same file and matching it against the
    templates below; a type by the closed table TYPES.  Anything else becomes
    `SUnrecognised` / `DUnrecognised`, which makes the decidable `ok_struct` false.
  * the bodies of lossless::Paragraph::remove / set are matched as well (flags ll_remove_all …):
    the lossless model follows what the source currently does.
Nothing is skipped silently: an attribute the macro would reject, or a struct in a file whose public
module path is unknown, makes the translator exit non-zero.
"""
import json, os, re, sys

# ----------------------------------------------------------------------------- Rust scanning
def strip_comments(src):
    """remove // and /* */ comments (keeping newlines), leave string/char literals intact"""
    out = []
    i, n = 0, len(src)
    while i < n:
        c = src[i]
        if src.startswith("//", i):
            j = src.find("\n", i)
            if j < 0: j = n
            i = j
            continue
        if src.startswith("/*", i):
            depth = 1; i += 2
            while i < n and depth:
                if src.startswith("/*", i): depth += 1; i += 2
                elif src.startswith("*/", i): depth -= 1; i += 2
                else:
                    if src[i] == "\n": out.append("\n")
                    i += 1
            continue
        m = re.match(r'b?r(#*)"', src[i:])
        if m and (i == 0 or not (src[i-1].isalnum() or src[i-1] == "_")):
            close = '"' + m.group(1)
            j = src.find(close, i + m.end())
            if j < 0: j = n
            out.append(src[i:j + len(close)]); i = j + len(close)
            continue
        if c == '"':
            j = i + 1
            while j < n and src[j] != '"':
                j += 2 if src[j] == "\\" else 1
            out.append(src[i:j + 1]); i = j + 1
            continue
        if c == "'":
            # char literal or lifetime
            m = re.match(r"'(\\.[^']*|[^\\'])'", src[i:])
            if m:
                out.append(m.group(0)); i += m.end()
                continue
        out.append(c); i += 1
    return "".join(out)

def match_close(s, i, open_c, close_c):
    """s[i] == open_c; index of the matching close_c (string literals skipped)"""
    depth = 0
    n = len(s)
    while i < n:
        c = s[i]
        if c == '"':
            i += 1
            while i < n and s[i] != '"':
                i += 2 if s[i] == "\\" else 1
        elif c == "'":
            m = re.match(r"'(\\.[^']*|[^\\'])'", s[i:])
            if m: i += m.end() - 1
        elif c == open_c:
            depth += 1
        elif c == close_c:
            depth -= 1
            if depth == 0:
                return i
        i += 1
    raise ValueError("unbalanced " + open_c)

def split_top(s, sep=","):
    """split at top-level separators (outside <>, (), [], {}, strings)"""
    parts, cur, depth, i, n = [], [], 0, 0, len(s)
    while i < n:
        c = s[i]
        if c == '"':
            j = i + 1
            while j < n and s[j] != '"':
                j += 2 if s[j] == "\\" else 1
            cur.append(s[i:j + 1]); i = j + 1; continue
        if c in "<([{": depth += 1
        elif c in ">)]}":
            if c == ">" and i > 0 and s[i-1] in "-=":   # -> or =>
                pass
            else:
                depth -= 1
        if c == sep and depth == 0:
            parts.append("".join(cur)); cur = []
        else:
            cur.append(c)
        i += 1
    if "".join(cur).strip():
        parts.append("".join(cur))
    return parts

def unescape(lit):
    """value of a Rust string literal body (the escapes that can sensibly occur in a field name)"""
    out, i = [], 0
    while i < len(lit):
        c = lit[i]
        if c == "\\" and i + 1 < len(lit):
            d = lit[i + 1]
            if d == "n": out.append("\n"); i += 2
            elif d == "t": out.append("\t"); i += 2
            elif d == "r": out.append("\r"); i += 2
            elif d == "0": out.append("\0"); i += 2
            elif d in "\\\"'": out.append(d); i += 2
            elif d == "x": out.append(chr(int(lit[i+2:i+4], 16))); i += 4
            elif d == "u":
                j = lit.index("}", i); out.append(chr(int(lit[i+3:j], 16))); i = j + 1
            else: raise ValueError("escape \\" + d)
        else:
            out.append(c); i += 1
    return "".join(out)

# ----------------------------------------------------------------------------- codec catalogue
# external (assumed) codecs: name -> number used by Derive.v's SExt/DExt.  `unordered` = the printed
# form lists the elements of a hash container in arbitrary order, one per line.
EXT = ["Version", "Url", "Relations", "Priority", "MultiArch", "License", "Signature", "YesNoForce",
       "Forwarded", "AppliedUpstream", "ParsedVcs", "EnvMap", "TypesSet", "UrlList", "NaiveDate", "Origin"]
EXT_ID = {n: i + 1 for i, n in enumerate(EXT)}
UNORDERED = {"EnvMap", "TypesSet"}

# field type (after removing Option<>) -> (value type, default ser, default de)
def type_codec(ty):
    t = re.sub(r"\s+", "", ty)
    if t in ("String", "std::string::String"): return ("SStr", "DStr")
    if t == "bool": return ("SBool", "DBool")
    if t in ("usize", "u64"): return ("SNum", "DNum 64")
    if t == "u32": return ("SNum", "DNum 32")
    if t == "u16": return ("SNum", "DNum 16")
    if t == "u8": return ("SNum", "DNum 8")
    if t == "i32": return ("SInt", "DInt 32")
    if t == "i64": return ("SInt", "DInt 64")
    known = {"debversion::Version": "Version", "Version": "Version", "url::Url": "Url", "Url": "Url",
             "Relations": "Relations", "crate::lossy::Relations": "Relations", "crate::lossy::relations::Relations": "Relations",
             "Priority": "Priority", "crate::fields::Priority": "Priority",
             "MultiArch": "MultiArch", "crate::fields::MultiArch": "MultiArch",
             "License": "License", "crate::License": "License", "Signature": "Signature",
             "YesNoForce": "YesNoForce", "Forwarded": "Forwarded", "AppliedUpstream": "AppliedUpstream",
             "crate::vcs::ParsedVcs": "ParsedVcs", "ParsedVcs": "ParsedVcs"}
    if t in known:
        e = EXT_ID[known[t]]
        return (f"SExt {e}", f"DExt {e}")
    return (None, None)

def norm(body):
    """remove whitespace outside string/char literals"""
    out, i, n = [], 0, len(body)
    while i < n:
        c = body[i]
        if c == '"':
            j = i + 1
            while j < n and body[j] != '"':
                j += 2 if body[j] == "\\" else 1
            out.append(body[i:j + 1]); i = j + 1; continue
        if c == "'":
            m = re.match(r"'(\\.[^']*|[^\\'])'", body[i:])
            if m:
                out.append(m.group(0)); i += m.end(); continue
        if not c.isspace():
            out.append(c)
        i += 1
    return "".join(out)

ID = r"[A-Za-z_][A-Za-z0-9_]*"
# templates over the whitespace-free body text of the function (parameter names abstracted)
SER_TEMPLATES = [
    (rf'^if\*{ID}\{{"yes"\.(to_string|to_owned)\(\)\}}else\{{"no"\.(to_string|to_owned)\(\)\}}$', "SYesNo"),
    (rf'^if\*{ID}\{{"ja"\.to_string\(\)\}}else\{{"nee"\.to_string\(\)\}}$', "SJaNee"),
    (rf'^{ID}\.join\(" "\)$', "SJoinWs"),
    (rf'^{ID}\.join\("\\n"\)$', "SJoinNl"),
    (rf'^{ID}\.display\(\)\.to_string\(\)$', "SStr"),                       # Path: identity on UTF-8 text
    (rf'^{ID}\.to_string\(\)$', "TYPE"),                                      # same as the default
    (rf'^{ID}\.into_iter\(\)\.map\(\|u\|u\.as_str\(\)\)\.collect::<Vec<&str>>\(\)\.join\(" "\)$', f"SExt {EXT_ID['UrlList']}"),
    # Environment / Types: sorted, joined by "\n" (since ae6834b / 5238470; the earlier unsorted bodies are no longer
    # recognised: model/DeriveExt.v transcribes these)
    (rf'^letmutlines={ID}\.iter\(\)\.map\(\|\(key,value\)\|format!\("\{{\}}=\{{\}}",key,value\)\)\.collect::<Vec<_>>\(\);lines\.sort\(\);lines\.join\("\\n"\)$', f"SExt {EXT_ID['EnvMap']}"),
    (rf'^letmuttypes={ID}\.into_iter\(\)\.map\(\|rt\|rt\.to_string\(\)\)\.collect::<Vec<String>>\(\);types\.sort\(\);types\.join\("\\n"\)$', f"SExt {EXT_ID['TypesSet']}"),
    (rf'^{ID}\.format\("%Y-%m-%d"\)\.to_string\(\)$', f"SExt {EXT_ID['NaiveDate']}"),
    (rf'^crate::fields::format_origin\(category,origin\)$', f"SExt {EXT_ID['Origin']}"),
]
DE_TEMPLATES = [
    (rf'^match{ID}\{{"yes"=>Ok\(true\),"no"=>Ok\(false\),_=>Err\(.*\),?\}}$', "DYesNo"),
    (rf'^Ok\({ID}=="ja"\)$', "DJa"),
    (rf'^Ok\({ID}\.split_whitespace\(\)\.map\(\|{ID}\|{ID}\.to_string\(\)\)\.collect\(\)\)$', "DSplitWs"),
    (rf"^Ok\({ID}\.split\('\\n'\)\.map\((\|{ID}\|{ID}\.to_string\(\)|ToString::to_string)\)\.collect\(\)\)$", "DSplitNl"),
    # the same with the empty text read as the empty list (proposed_fixes/C16-empty-list-newline.patch)
    (rf"^if{ID}\.is_empty\(\)\{{returnOk\((vec!\[\]|Vec::new\(\))\);\}}Ok\({ID}\.split\('\\n'\)\.map\((\|{ID}\|{ID}\.to_string\(\)|ToString::to_string)\)\.collect\(\)\)$", "DSplitNlE"),
    (rf'^Ok\({ID}\.lines\(\)\.map\(\|{ID}\|{ID}\.to_string\(\)\)\.collect\(\)\)$', "DLines"),
    (rf'^Ok\(PathBuf::from\({ID}\)\)$', "DStr"),
    (rf'^{ID}\.parse\(\)\.map_err\(\|e:debversion::ParseError\|e\.to_string\(\)\)$', "TYPE"),
    (rf'^letmutenv=HashMap::new\(\);forlinein{ID}\.lines\(\)\{{let\(key,value\)=matchline\.split_once\("="\)\{{Some\(\(key,value\)\)=>\(key,value\),None=>\{{returnErr\("Invalid environment variable"\.to_string\(\)\);\}}\}};env\.insert\(key\.to_string\(\),value\.to_string\(\)\);\}}Ok\(env\)$', f"DExt {EXT_ID['EnvMap']}"),
    (rf'^{ID}\.split_whitespace\(\)\.map\(\|t\|RepositoryType::from_str\(t\)\)\.collect::<Result<HashSet<RepositoryType>,RepositoryError>>\(\)$', f"DExt {EXT_ID['TypesSet']}"),
    (rf'^{ID}\.split_whitespace\(\)\.map\(\|u\|Url::from_str\(u\)\)\.collect::<Result<Vec<Url>,_>>\(\)\.map_err\(\|e\|e\.to_string\(\)\)$', f"DExt {EXT_ID['UrlList']}"),
    (rf'^chrono::NaiveDate::parse_from_str\({ID},"%Y-%m-%d"\)\.map_err\(\|e\|e\.to_string\(\)\)$', f"DExt {EXT_ID['NaiveDate']}"),
    (rf'^Ok\(crate::fields::parse_origin\({ID}\)\)$', f"DExt {EXT_ID['Origin']}"),
]

def find_fn_body(src, name):
    """body text of `fn name(...) ... { body }` in src (comments already stripped); None if absent/ambiguous"""
    hits = [m for m in re.finditer(r"\bfn\s+" + re.escape(name) + r"\s*(<[^>]*>)?\s*\(", src)]
    if len(hits) != 1:
        return None
    i = src.index("(", hits[0].start())
    j = match_close(src, i, "(", ")")
    k = src.index("{", j)
    if ";" in src[j:k]:
        return None
    e = match_close(src, k, "{", "}")
    return src[k + 1:e]

def resolve_fn(src, path, templates, type_default, what):
    """-> (codec constructor text, note)"""
    segs = [s.strip() for s in path.split("::")]
    if len(segs) != 1:
        return (f"{what}Unrecognised", f"function path {path} is not a plain identifier of the same file")
    body = find_fn_body(src, segs[0])
    if body is None:
        return (f"{what}Unrecognised", f"function {path} not found (or defined more than once) in the same file")
    nb = norm(body)
    for rx, codec in templates:
        if re.match(rx, nb):
            if codec == "TYPE":
                if type_default is None:
                    return (f"{what}Unrecognised", f"{path} forwards to the type's own conversion, and the type is unknown")
                return (type_default, f"{path} = the type's own conversion")
            return (codec, f"{path} matched a template")
    return (f"{what}Unrecognised", f"body of {path} matches no template: {nb[:120]}")

# ----------------------------------------------------------------------------- struct extraction
def is_option(ty):
    """deb822-derive's is_option: Type::Path whose last segment's ident is `Option`"""
    t = ty.strip()
    if not t or not re.match(r"[A-Za-z_:]", t):       # (tuple) &ref [slice] *ptr
        return False, t
    if re.match(r"(dyn|impl|fn)\b", t):
        return False, t
    segs, depth, cur = [], 0, []
    i = 0
    while i < len(t):
        c = t[i]
        if c == "<": depth += 1
        elif c == ">": depth -= 1
        if t.startswith("::", i) and depth == 0:
            segs.append("".join(cur)); cur = []; i += 2; continue
        cur.append(c); i += 1
    segs.append("".join(cur))
    last = segs[-1].strip()
    m = re.match(r"(" + ID + r")\s*(<(.*)>)?\s*$", last, re.S)
    if m and m.group(1) == "Option":
        inner = (m.group(3) or "").strip()
        return True, inner
    return False, t

class TranslateError(Exception):
    pass

def parse_deb822_attr(args, where):
    """args of #[deb822(...)]: name = value pairs as the macro parses them"""
    out = {}
    for part in split_top(args):
        part = part.strip()
        if not part: continue
        m = re.match(r"(" + ID + r")\s*=\s*(.*)$", part, re.S)
        if not m:
            raise TranslateError(f"{where}: cannot read deb822 attribute part {part!r}")
        k, v = m.group(1), m.group(2).strip()
        if k == "field":
            mm = re.match(r'^"((?:[^"\\]|\\.)*)"$', v, re.S)
            if not mm:
                raise TranslateError(f"{where}: expected string literal in deb822 attribute (the macro rejects this too)")
            out["field"] = unescape(mm.group(1))
        elif k in ("serialize_with", "deserialize_with"):
            if not re.match(r"^(" + ID + r")(\s*::\s*" + ID + r")*$", v):
                raise TranslateError(f"{where}: expected path in deb822 attribute (the macro rejects this too)")
            out[k] = re.sub(r"\s+", "", v)
        else:
            raise TranslateError(f"{where}: unsupported attribute: {k} (the macro rejects this too)")
    return out

def extract_structs(src_raw, relpath):
    """all deriving structs of one file, in textual order"""
    src = strip_comments(src_raw)
    out = []
    # walk over attribute groups followed by `struct`
    for m in re.finditer(r"\bstruct\s+(" + ID + r")\s*(<[^>{]*>)?\s*\{", src):
        name = m.group(1)
        # collect the attributes immediately in front (walking backwards over #[...] groups, pub, whitespace)
        j = m.start()
        pre = src[:j].rstrip()
        pre = re.sub(r"\bpub(\s*\([^)]*\))?\s*$", "", pre).rstrip()
        attrs = []
        while pre.endswith("]"):
            # find the matching '#[' by scanning backwards
            depth, k = 0, len(pre) - 1
            while k >= 0:
                if pre[k] == "]": depth += 1
                elif pre[k] == "[":
                    depth -= 1
                    if depth == 0: break
                k -= 1
            if k < 1 or pre[k-1] != "#":
                break
            attrs.append(pre[k+1:len(pre)-1])
            pre = pre[:k-1].rstrip()
        derives = []
        for a in attrs:
            mm = re.match(r"\s*derive\s*\((.*)\)\s*$", a, re.S)
            if mm:
                derives += [x.strip().split("::")[-1] for x in mm.group(1).split(",") if x.strip()]
        has_from, has_to = "FromDeb822" in derives, "ToDeb822" in derives
        if not (has_from or has_to):
            continue
        if m.group(2):
            raise TranslateError(f"{relpath}: struct {name} is generic; the derive macro emits no generics")
        b0 = m.end() - 1
        b1 = match_close(src, b0, "{", "}")
        body = src[b0 + 1:b1]
        fields = []
        for ftxt in split_top(body):
            ftxt = ftxt.strip()
            if not ftxt: continue
            where = f"{relpath}: struct {name}"
            fattrs = {}
            while ftxt.startswith("#"):
                k = ftxt.index("[")
                e = match_close(ftxt, k, "[", "]")
                a = ftxt[k+1:e].strip()
                ftxt = ftxt[e+1:].strip()
                mm = re.match(r"deb822\s*\((.*)\)\s*$", a, re.S)
                if mm:
                    fattrs.update(parse_deb822_attr(mm.group(1), where))
                elif re.match(r"deb822\b", a):
                    raise TranslateError(f"{where}: deb822 attribute without argument list")
            is_pub = re.match(r"^pub\s+(?!\()", ftxt) is not None      # plain `pub`: reachable from the harness
            ftxt = re.sub(r"^pub(\s*\([^)]*\))?\s+", "", ftxt)
            mm = re.match(r"(r#)?(" + ID + r")\s*:\s*(.*)$", ftxt, re.S)
            if not mm:
                raise TranslateError(f"{where}: cannot read field {ftxt[:60]!r} (tuple structs are rejected by the macro)")
            ident, ty = mm.group(2), mm.group(3).strip()
            opt, inner = is_option(ty)
            dser, dde = type_codec(inner)
            notes = []
            if "serialize_with" in fattrs:
                ser, note = resolve_fn(src, fattrs["serialize_with"], SER_TEMPLATES, dser, "S"); notes.append(note)
            else:
                ser = dser or "SUnrecognised"
                if dser is None: notes.append(f"type {inner} has no entry in the type table")
            if "deserialize_with" in fattrs:
                de, note = resolve_fn(src, fattrs["deserialize_with"], DE_TEMPLATES, dde, "D"); notes.append(note)
            else:
                de = dde or "DUnrecognised"
                if dde is None: notes.append(f"type {inner} has no entry in the type table")
            fields.append({"ident": ident, "key": fattrs.get("field", ident), "optional": opt, "pub": is_pub, "type": re.sub(r"\s+", " ", ty),
                           "inner": re.sub(r"\s+", " ", inner), "ser": ser, "de": de,
                           "ser_fn": fattrs.get("serialize_with"), "de_fn": fattrs.get("deserialize_with"), "notes": notes})
        out.append({"name": name, "file": relpath, "from": has_from, "to": has_to, "derives": derives,
                    "fields": fields, "span": (m.start(), b1 + 1), "text": src[m.start():b1 + 1],
                    "partial_eq": "PartialEq" in derives})
    return out, src

# public Rust path of the module a file defines (needed by the harness); a deriving struct in any
# other file stops the translator: it must appear in the table AND in the harness, or fail visibly.
MODULE_OF = {
    "debian-control/src/lossy/control.rs": "debian_control::lossy",
    "debian-control/src/lossy/apt.rs": "debian_control::lossy::apt",
    "debian-control/src/lossy/buildinfo.rs": "debian_control::lossy::buildinfo",
    "debian-control/src/lossy/ftpmaster.rs": "debian_control::lossy::ftpmaster",
    "debian-copyright/src/lossy.rs": "debian_copyright::lossy",
    "dep3/src/lossy.rs": "dep3::lossy",
    "apt-sources/src/lib.rs": "apt_sources",
    "src/convert.rs": None,          # test structs, local to test functions: copied into the harness
}

def rust_files(repo):
    for root, dirs, files in os.walk(repo):
        dirs[:] = sorted(d for d in dirs if d not in ("target", ".git", "fuzz", "node_modules") and not d.startswith("."))
        for f in sorted(files):
            if f.endswith(".rs"):
                yield os.path.join(root, f)

FIXTURES = os.path.join(os.path.dirname(os.path.dirname(os.path.abspath(__file__))), "spec", "derive_fixtures.rs")

def make_local(s, src):
    """a struct that is not reachable by a public path: copied into the harness with its codec functions"""
    s["rust_path"] = None
    s["local_fns"] = {}
    for f in s["fields"]:
        for fn in (f["ser_fn"], f["de_fn"]):
            if fn:
                mm = re.search(r"\bfn\s+" + re.escape(fn) + r"\b", src)
                if mm:
                    k = src.index("{", mm.start())
                    s["local_fns"][fn] = src[mm.start():match_close(src, k, "{", "}") + 1]

def collect(repo):
    structs = []
    for path in rust_files(repo):
        rel = os.path.relpath(path, repo)
        if rel.startswith("deb822-derive/"):
            continue
        raw = open(path, encoding="utf-8").read()
        if "FromDeb822" not in raw and "ToDeb822" not in raw:
            continue
        found, src = extract_structs(raw, rel)
        if found and rel not in MODULE_OF:
            raise TranslateError(f"{rel}: deriving struct(s) {[s['name'] for s in found]} in a file whose public module path "
                                 f"is not in translate/structs.py MODULE_OF — add it so the harness can reach the type")
        counts = {}
        for s in found:
            mod = MODULE_OF[rel]
            if mod is None:
                counts[s["name"]] = counts.get(s["name"], 0) + 1
                s["id"] = f"convert_test_{s['name']}_{counts[s['name']]}"
                make_local(s, src)
            else:
                s["id"] = (mod + "::" + s["name"]).replace("::", "_")
                s["rust_path"] = mod + "::" + s["name"]
            structs.append(s)
    # fixture structs kept beside the translator (attribute shapes the workspace does not use)
    if os.path.exists(FIXTURES):
        found, src = extract_structs(open(FIXTURES, encoding="utf-8").read(), "spec/derive_fixtures.rs")
        for s in found:
            s["id"] = "fixture_" + s["name"]
            make_local(s, src)
            structs.append(s)
    ids = [s["id"] for s in structs]
    if len(set(ids)) != len(ids):
        raise TranslateError("duplicate struct ids: " + str(ids))
    return structs

# ----------------------------------------------------------------------------- lossless edit bodies
def lossless_flags(repo):
    """which variant of Paragraph::remove / set the tree currently has.
    remove: the loop that detaches while iterating (rowan's lazy sibling iterator stops after the first
            detach: LlRemoveFirst, the code before 392c6dc) or collect-then-detach (LlRemoveAll);
    set:    append directly (LlSetPlain, before 7a915a7) or after ensure_trailing_newline (LlSetEnsureNl)."""
    src = strip_comments(open(os.path.join(repo, "src/lossless.rs"), encoding="utf-8").read())
    m = re.search(r"impl\s+Paragraph\s*\{", src)
    flags = {}
    notes = []
    if not m:
        return {"ll_remove": "LlRemoveUnrecognised", "ll_set": "LlSetUnrecognised"}, ["impl Paragraph not found"]
    e = match_close(src, m.end() - 1, "{", "}")
    impl = src[m.end():e]
    nb = norm(find_fn_body(impl, "remove") or "")
    first_only = r'^formutentryinself\.entries\(\)\{ifentry\.key\(\)\.as_deref\(\)==Some\(key\)\{entry\.detach\(\);\}\}$'
    collect_then = (r'^let(' + ID + r')(:Vec<_>)?=self\.entries\(\)\.filter\(\|(' + ID + r')\|\3\.key\(\)\.as_deref\(\)==Some\(key\)\)'
                    r'\.collect(::<Vec<_>>)?\(\);formutentryin\1\{entry\.detach\(\);\}$')
    if re.match(first_only, nb):
        flags["ll_remove"] = "LlRemoveFirst"
    elif re.match(collect_then, nb):
        flags["ll_remove"] = "LlRemoveAll"
    else:
        flags["ll_remove"] = "LlRemoveUnrecognised"; notes.append("Paragraph::remove body: " + nb[:200])
    nb = norm(find_fn_body(impl, "set") or "")
    head = (r'^letnew_entry=Entry::new\(key,value\);forentryinself\.entries\(\)\{ifentry\.key\(\)\.as_deref\(\)==Some\(key\)\{'
            r'self\.0\.splice_children\(entry\.0\.index\(\)\.\.entry\.0\.index\(\)\+1,vec!\[new_entry\.0\.into\(\)\],?\);return;\}\}')
    tail = r'letcount=self\.0\.children_with_tokens\(\)\.count\(\);self\.0\.splice_children\(count\.\.count,vec!\[new_entry\.0\.into\(\)\]\);$'
    ens = norm(find_fn_body(src, "ensure_trailing_newline") or "")
    ens_rx = (r'^ifletSome\(last\)=node\.last_token\(\)\{iflast\.kind\(\)!=NEWLINE\{letmutbuilder=GreenNodeBuilder::new\(\);'
              r'builder\.start_node\(EMPTY_LINE\.into\(\)\);builder\.token\(NEWLINE\.into\(\),"\\n"\);builder\.finish_node\(\);'
              r'letnewline=SyntaxNode::new_root_mut\(builder\.finish\(\)\)\.first_token\(\)\.unwrap\(\);letparent=last\.parent\(\)\.unwrap\(\);'
              r'letindex=last\.index\(\)\+1;parent\.splice_children\(index\.\.index,vec!\[newline\.into\(\)\]\);\}\}$')
    if re.match(head + tail, nb):
        flags["ll_set"] = "LlSetPlain"
    elif re.match(head + r'ensure_trailing_newline\(&self\.0\);' + tail, nb) and re.match(ens_rx, ens):
        flags["ll_set"] = "LlSetEnsureNl"
    else:
        flags["ll_set"] = "LlSetUnrecognised"; notes.append("Paragraph::set body: " + nb[:400] + " / ensure_trailing_newline: " + ens[:400])
    return flags, notes

def signature_flag(repo):
    """apt-sources Signature::from_str: does it keep the whole text of a key block ("keep": Display then
    adds one more LF per round) or strip the empty first line Display writes ("strip")?  Only the value
    pool of the generators depends on it (Signature is an external codec for the Coq model)."""
    try:
        src = strip_comments(open(os.path.join(repo, "apt-sources/src/signature.rs"), encoding="utf-8").read())
    except OSError:
        return "absent"
    nb = norm(find_fn_body(src, "from_str") or "")
    keep = r'^iftext\.contains\("\\n"\)\{Ok\(Signature::KeyBlock\(text\.to_string\(\)\)\)\}else\{Ok\(Signature::KeyPath\(text\.into\(\)\)\)\}$'
    strip = (r"^ifletSome\((" + ID + r")\)=text\.strip_prefix\('\\n'\)\{Ok\(Signature::KeyBlock\(\1\.to_string\(\)\)\)\}else"
             r'iftext\.contains\("\\n"\)\{Ok\(Signature::KeyBlock\(text\.to_string\(\)\)\)\}else\{Ok\(Signature::KeyPath\(text\.into\(\)\)\)\}$')
    disp = norm(find_fn_body(src, "fmt") or "")
    disp_rx = r'^matchself\{Signature::KeyBlock\(text\)=>write!\(f,"\\n\{\}",text\),Signature::KeyPath\(path\)=>f\.write_str\(path\.to_string_lossy\(\)\.as_ref\(\)\),?\}$'
    if not re.match(disp_rx, disp):
        return "unrecognised"
    if re.match(keep, nb): return "keep"
    if re.match(strip, nb): return "strip"
    return "unrecognised"

# ----------------------------------------------------------------------------- the macro itself
# model/Derive.v is a hand transcription of the quote! templates of deb822-derive/src/lib.rs and of
# its is_option test.  They are pinned here by their text (whitespace outside literals removed, in
# source order): when one of them changes, `macro_templates_pinned` becomes false and the proof cone
# fails (C16_macro_pinned) until the model has been re-read against the new text.
MACRO_QUOTES = [
    '#deserialize_with',
    'std::str::FromStr::from_str',
    '#ident:para.get(#key).map(|v|#deserialize_with(&v).map_err(|e|format!("parsing field {}: {}",#key,e))).transpose()?',
    '#ident:#deserialize_with(&para.get(#key).ok_or_else(||format!("missing field: {}",#key))?).map_err(|e|format!("parsing field {}: {}",#key,e))?',
    'impl<P:deb822_lossless::convert::Deb822LikeParagraph>deb822_lossless::FromDeb822Paragraph<P>for#name{fnfrom_paragraph(para:&P)->Result<Self,String>{Ok(Self{#(#from_fields,)*})}}',
    '#serialize_with',
    'ToString::to_string',
    'ifletSome(v)=&self.#ident{fields.push((#key.to_string(),#serialize_with(&v)));}',
    'fields.push((#key.to_string(),#serialize_with(&self.#ident)));',
    'ifletSome(v)=&self.#ident{para.set(#key,#serialize_with(&v).as_str());}else{para.remove(#key);}',
    'para.set(#key,#serialize_with(&self.#ident).as_str());',
    'impl<P:deb822_lossless::convert::Deb822LikeParagraph>deb822_lossless::ToDeb822Paragraph<P>for#name{fnto_paragraph(&self)->P{letmutfields=Vec::<(String,String)>::new();#(#to_fields)*fields.into_iter().collect()}fnupdate_paragraph(&self,para:&mutP){#(#update_fields)*}}',
]
MACRO_IS_OPTION = 'ifletType::Path(TypePath{path,..})=ty{ifletSome(segment)=path.segments.last(){returnsegment.ident=="Option";}}false'
# how the templates are chosen (key, default codec, is_option dispatch): the lines of the two derive
# functions outside the quote! blocks, pinned as well
MACRO_GLUE = [
    'letkey=attrs.field.unwrap_or_else(||ident.as_ref().unwrap().to_string());',
    'letdeserialize_with=ifletSome(deserialize_with)=attrs.deserialize_with{quote!{}}else{quote!{}};',
    'letis_option=is_option(ty);',
    'ifis_option{quote!{}}else{quote!{}}',
    'letserialize_with=ifletSome(serialize_with)=attrs.serialize_with{quote!{}}else{quote!{}};',
    'to_fields.push(ifis_option{quote!{}}else{quote!{}});',
    'update_fields.push(ifis_option{quote!{}}else{quote!{}});',
    'forfins.fields.iter(){',
    'letfrom_fields=s.fields.iter().map(|f|{',
]

def macro_pinned(repo):
    """-> (bool, notes)"""
    path = os.path.join(repo, "deb822-derive", "src", "lib.rs")
    try:
        src = strip_comments(open(path, encoding="utf-8").read())
    except OSError:
        return False, ["deb822-derive/src/lib.rs not found"]
    notes = []
    quotes, i = [], 0
    blanked = []
    last = 0
    while True:
        m = re.search(r"quote!\s*\{", src[i:])
        if not m: break
        k = i + m.end() - 1
        e = match_close(src, k, "{", "}")
        quotes.append(norm(src[k + 1:e]))
        blanked.append(src[last:k + 1]); last = e
        i = e
    blanked.append(src[last:])
    if quotes != MACRO_QUOTES:
        for n, (a, b) in enumerate(zip(quotes + [None] * 20, MACRO_QUOTES + [None] * 20)):
            if a != b:
                notes.append(f"quote! block {n} of deb822-derive/src/lib.rs differs from the pinned text: {str(a)[:160]}")
                break
    if norm(find_fn_body(src, "is_option") or "") != MACRO_IS_OPTION:
        notes.append("fn is_option of deb822-derive/src/lib.rs differs from the pinned text")
    glue = norm("".join(blanked))
    for g in MACRO_GLUE:
        if g not in glue:
            notes.append("deb822-derive/src/lib.rs: pinned line not found (quote! bodies blanked): " + g)
    return (not notes), notes

# ----------------------------------------------------------------------------- output: Coq
def coq_str(s):
    return "[" + "; ".join(str(ord(c)) for c in s) + "]%N"

def coq_ident(s):
    return re.sub(r"[^A-Za-z0-9_]", "_", s)

def emit_coq(structs, flags, notes):
    L = ["(* GENERATED by translate/structs.py from the Rust sources — data only, do not edit. *)",
         "From V.model Require Import Base Derive.", "",
         "(* external codec numbers: " + ", ".join(f"{i}={n}" for n, i in EXT_ID.items()) + " *)", ""]
    for s in structs:
        L.append(f"(* {s['file']}: struct {s['name']}   derives: {', '.join(s['derives'])} *)")
        L.append(f"Definition {coq_ident(s['id'])} : structspec :=")
        L.append(f"  mk_sspec {coq_str(s['id'])} {'true' if s['from'] else 'false'} {'true' if s['to'] else 'false'} {'true' if s['partial_eq'] else 'false'} [")
        rows = []
        for f in s["fields"]:
            key_comment = f["key"].replace("*)", "* )").replace("(*", "( *")
            key_comment = "".join(c if 32 <= ord(c) < 127 else "?" for c in key_comment)
            rows.append(f"    mk_fspec {coq_str(f['key'])} {'true' if f['optional'] else 'false'} ({f['ser']}) ({f['de']})"
                        f"   (* {f['ident']}: {f['type'].replace('(*', '( *').replace('*)', '* )')} -> \"{key_comment}\" *)")
        L.append(";\n".join(rows))
        L.append("  ].")
        L.append("")
    L.append("Definition all_structs : list structspec := [" + "; ".join(coq_ident(s["id"]) for s in structs) + "].")
    L.append("")
    L.append(f"(* src/lossless.rs, impl Paragraph: which variant of remove / set the tree has *)")
    L.append(f"Definition ll_remove_variant : ll_remove_kind := {flags['ll_remove']}.")
    L.append(f"Definition ll_set_variant : ll_set_kind := {flags['ll_set']}.")
    L.append("(* apt-sources/src/signature.rs: does Signature::from_str drop the empty first line Display writes? *)")
    L.append(f"Definition sig_keyblock_strip : bool := {'true' if flags.get('sig_keyblock') == 'strip' else 'false'}.")
    L.append("(* deb822-derive/src/lib.rs: are the quote! templates, is_option and the dispatch around them the pinned text? *)")
    L.append(f"Definition macro_templates_pinned : bool := {'true' if flags.get('macro_pinned') else 'false'}.")
    if notes:
        L.append("")
        L.append("(* notes:")
        for n in notes:
            L.append("   " + n.replace("*)", "* )").replace("(*", "( *"))
        L.append("*)")
    return "\n".join(L) + "\n"

# ----------------------------------------------------------------------------- output: Rust harness glue
def rust_lit(s):
    return '"' + "".join(c if (32 <= ord(c) < 127 and c not in '"\\') else "\\u{%x}" % ord(c) for c in s) + '"'

def clearable(s):
    """list-typed fields of a struct whose value the harness can replace by an empty list"""
    local = s.get("rust_path") is None          # test structs are copied with every field made pub
    return [f for f in s["fields"] if (f["pub"] or local) and re.sub(r"\s+", "", f["inner"]) == "Vec<String>"]

def emit_rust(structs):
    L = ["// GENERATED by translate/structs.py from the Rust sources of the repository — do not edit.",
         "// Per-struct glue of the `derive` stream: one dispatch arm per deriving struct of the workspace;",
         "// the test structs of src/convert.rs (local to test functions) are copied here verbatim and",
         "// derived with the real macro.",
         "#![allow(dead_code, unused_imports, unused_variables, non_camel_case_types, non_snake_case, clippy::all)]",
         "use crate::s_derive::{run_full, run_to_only, Spec};",
         "use deb822_lossless::{FromDeb822, FromDeb822Paragraph, ToDeb822, ToDeb822Paragraph};", ""]
    arms = []
    for s in structs:
        keys = ", ".join(rust_lit(f["key"]) for f in s["fields"])
        unordered = ", ".join(rust_lit(f["key"]) for f in s["fields"]
                              if any(f[k] in (f"SExt {EXT_ID[u]}", f"DExt {EXT_ID[u]}") for u in UNORDERED for k in ("ser", "de")))
        spec = f"Spec {{ keys: &[{keys}], unordered: &[{unordered}] }}"
        if s["rust_path"] is None:
            modname = "m_" + coq_ident(s["id"])
            L.append(f"mod {modname} {{")
            L.append("    use deb822_lossless::{FromDeb822, FromDeb822Paragraph, ToDeb822, ToDeb822Paragraph};")
            for fn, txt in s["local_fns"].items():
                L.append("    " + re.sub(r"\n\s*", "\n    ", txt.strip()))
            derive = ", ".join(d for d in s["derives"] if d in ("FromDeb822", "ToDeb822"))
            L.append(f"    #[derive({derive})]")
            body = s["text"]
            body = re.sub(r"^struct", "pub struct", body)
            # make the fields reachable from the constructor below
            body = re.sub(r"(\{|,)(\s*(?:#\[[^\]]*\]\s*)*)(" + ID + r"\s*:)", r"\1\2pub \3", body)
            L.append("    " + re.sub(r"\n\s*", "\n    ", body))
            if not s["from"]:
                # no FromDeb822: build the value field by field with FromStr (test structs only)
                L.append(f"    pub fn build(get: &dyn Fn(&str) -> Option<String>) -> Result<{s['name']}, String> {{")
                L.append(f"        Ok({s['name']} {{")
                for i, f in enumerate(s["fields"]):
                    k = rust_lit(f['key'])
                    perr = f'.map_err(|_| format!("parsing field {{}}: ", {k}))?'
                    if f["optional"]:
                        L.append(f"            {f['ident']}: match get({k}) {{ Some(x) => Some(x.parse::<{f['inner']}>(){perr}), None => None }},")
                    else:
                        L.append(f"            {f['ident']}: get({k}).ok_or_else(|| format!(\"missing field: {{}}\", {k}))?.parse::<{f['inner']}>(){perr},")
                L.append("        })")
                L.append("    }")
            L.append("}")
            ty = f"{modname}::{s['name']}"
        else:
            ty = s["rust_path"]
        if s["from"] and s["to"]:
            eq = f"Some(|a: &{ty}, b: &{ty}| a == b)" if s["partial_eq"] else "None"
            # Vec<String> fields the harness can reach: a value with an EMPTY list cannot be obtained through
            # from_paragraph for every codec (split('\\n') never yields one), so the stream can empty them directly
            cl = clearable(s)
            fname = "clear_" + coq_ident(s["id"])
            L.append(f"fn {fname}(v: &mut {ty}, key: &str) -> bool {{")
            L.append("    match key {")
            for f in cl:
                if f["optional"]:
                    L.append(f"        {rust_lit(f['key'])} => {{ v.{f['ident']} = Some(vec![]); true }}")
                else:
                    L.append(f"        {rust_lit(f['key'])} => {{ v.{f['ident']}.clear(); true }}")
            L.append("        _ => false,")
            L.append("    }")
            L.append("}")
            arms.append(f"        {rust_lit(s['id'])} => run_full::<{ty}>(fs, &{spec}, {eq}, {fname}),")
        elif s["to"]:
            arms.append(f"        {rust_lit(s['id'])} => run_to_only(fs, &{spec}, {ty.rsplit('::', 1)[0]}::build),")
        else:
            arms.append(f"        {rust_lit(s['id'])} => \"UNSUPPORTED:from-only\".to_string(),")
    L.append("")
    L.append("pub fn dispatch(id: &str, fs: &[&str]) -> String {")
    L.append("    match id {")
    L += arms
    L.append("        _ => format!(\"UNKNOWN-STRUCT:{}\", id),")
    L.append("    }")
    L.append("}")
    L.append("")
    L.append("pub const STRUCT_IDS: &[&str] = &[" + ", ".join(rust_lit(s["id"]) for s in structs) + "];")
    L.append("")
    L.append("pub fn streams() -> Vec<(&'static str, crate::StreamFn)> {")
    L.append("    vec![]   // the streams themselves are registered by s_derive.rs")
    L.append("}")
    return "\n".join(L) + "\n"

def emit_json(structs, flags):
    return json.dumps({"ext": EXT_ID, "unordered": sorted(UNORDERED), "flags": flags, "structs": [
        {"id": s["id"], "name": s["name"], "file": s["file"], "from": s["from"], "to": s["to"], "partial_eq": s["partial_eq"],
         "clearable": [f["key"] for f in clearable(s)] if (s["from"] and s["to"]) else [],
         "fields": [{k: f[k] for k in ("ident", "key", "optional", "pub", "type", "inner", "ser", "de", "ser_fn", "de_fn", "notes")} for f in s["fields"]]}
        for s in structs]}, indent=1, ensure_ascii=False) + "\n"

def write_if_changed(path, txt):
    try:
        if open(path, encoding="utf-8").read() == txt:
            return False
    except OSError:
        pass
    os.makedirs(os.path.dirname(path), exist_ok=True)
    with open(path, "w", encoding="utf-8") as f:
        f.write(txt)
    return True

# ----------------------------------------------------------------------------- fixtures
FIXTURE = r'''
use x::{FromDeb822, ToDeb822};
fn ser_a(b: &bool) -> String { if *b { "yes".to_owned() } else { "no".to_owned() } }
fn de_a(s: &str) -> Result<bool, String> { match s { "yes" => Ok(true), "no" => Ok(false), _ => Err(format!("bad {}", s)), } }
fn de_ws(v: &str) -> Result<Vec<String>, String> { Ok(v.split_whitespace().map(|s| s.to_string()).collect()) }
fn ser_ws(c: &[String]) -> String { c.join(" ") }
fn de_nl(t: &str) -> Result<Vec<String>, String> { Ok(t.split('\n').map(ToString::to_string).collect()) }
fn ser_nl(c: &[String]) -> String { c.join("\n") }
fn de_lines(t: &str) -> Result<Vec<String>, String> { Ok(t.lines().map(|s| s.to_string()).collect()) }
fn odd(t: &str) -> Result<Vec<String>, String> { Ok(t.split(',').map(|s| s.to_string()).collect()) }
/// doc // not a comment end "
#[derive(Debug, FromDeb822, ToDeb822, PartialEq)]
pub struct T {
    /// plain
    pub a: String,
    #[deb822(field = "B-Key")]
    b: Option<u32>,
    #[deb822(field = "C", serialize_with = ser_a, deserialize_with = de_a)]
    pub(crate) c: std::option::Option<bool>,
    #[deb822(
        field = "D",
        deserialize_with = de_ws,
        serialize_with = ser_ws
    )]
    d: Vec<String>,
    #[deb822(field = "E", deserialize_with = de_a)]
    e: Option<bool>,
    #[deb822(deserialize_with = odd, serialize_with = ser_nl)]
    f: Vec<String>,
    g: (Option<u8>, u8),
    h: Opt<String>,
    #[deb822(field = "I", deserialize_with = de_lines, serialize_with = ser_nl)]
    i: Option<Vec<String>>,
    #[deb822(field = "J", deserialize_with = de_nl, serialize_with = ser_nl)]
    j: Vec<String>,
    k: Option<HashMap<String, (u8, u8)>>,
}
struct NotDerived { a: String }
'''
def selftest():
    found, _ = extract_structs(FIXTURE, "fixture.rs")
    assert [s["name"] for s in found] == ["T"], found
    t = found[0]
    assert t["from"] and t["to"] and t["partial_eq"]
    got = [(f["key"], f["optional"], f["ser"], f["de"]) for f in t["fields"]]
    want = [("a", False, "SStr", "DStr"), ("B-Key", True, "SNum", "DNum 32"), ("C", True, "SYesNo", "DYesNo"),
            ("D", False, "SJoinWs", "DSplitWs"), ("E", True, "SBool", "DYesNo"), ("f", False, "SJoinNl", "DUnrecognised"),
            ("g", False, "SUnrecognised", "DUnrecognised"), ("h", False, "SUnrecognised", "DUnrecognised"),
            ("I", True, "SJoinNl", "DLines"), ("J", False, "SJoinNl", "DSplitNl"), ("k", True, "SUnrecognised", "DUnrecognised")]
    assert got == want, "\n".join(map(str, got))
    assert is_option("Option<String>") == (True, "String")
    assert is_option("core::option::Option<Vec<u8>>") == (True, "Vec<u8>")
    assert is_option("Vec<Option<String>>")[0] is False
    assert is_option("(Option<A>, B)")[0] is False
    assert is_option("&Option<A>")[0] is False
    assert is_option("my::Option")[0] is True
    for bad in ['#[derive(ToDeb822)] struct U { #[deb822(rename = "x")] a: String }',
                '#[derive(ToDeb822)] struct U { #[deb822(field = x)] a: String }']:
        try:
            extract_structs(bad, "bad.rs"); raise AssertionError("accepted: " + bad)
        except TranslateError:
            pass
    print("selftest ok")

# ----------------------------------------------------------------------------- main
def main():
    if len(sys.argv) == 2 and sys.argv[1] == "--selftest":
        selftest(); return 0
    if len(sys.argv) != 3:
        print(__doc__); return 2
    repo, gen = sys.argv[1], sys.argv[2]
    try:
        selftest()
        structs = collect(repo)
        flags, notes = lossless_flags(repo)
        jflags = dict(flags); jflags["sig_keyblock"] = signature_flag(repo)
        pinned, mnotes = macro_pinned(repo)
        jflags["macro_pinned"] = pinned
        notes += mnotes
    except (TranslateError, ValueError, AssertionError) as e:
        print("translate/structs.py: " + str(e))
        return 1
    for s in structs:
        for f in s["fields"]:
            for n in f["notes"]:
                if "Unrecognised" in f["ser"] + f["de"]:
                    notes.append(f"{s['id']}.{f['ident']}: {n}")
    verif = os.path.dirname(os.path.dirname(os.path.abspath(gen.rstrip("/"))))
    ch = [write_if_changed(os.path.join(gen, "Structs_gen.v"), emit_coq(structs, jflags, notes)),
          write_if_changed(os.path.join(gen, "structs.json"), emit_json(structs, jflags)),
          write_if_changed(os.path.join(verif, "harness", "src", "s_derive_gen.rs"), emit_rust(structs))]
    print(f"structs.py: {len(structs)} deriving structs, {sum(len(s['fields']) for s in structs)} fields; "
          f"flags {jflags}; files rewritten: {sum(ch)}")
    for n in notes:
        print("  note: " + n)
    return 0

if __name__ == "__main__":
    sys.exit(main())
