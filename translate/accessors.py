#!/usr/bin/env python3
"""translate/accessors.py <repo> <coq/gen dir>

Re-reads the `impl` blocks of the lossless typed views of /repo and regenerates

  coq/gen/Accessors_gen.v          one `row` per `pub fn` (type, method, role, field literals,
                                    paragraph operation, codec | Unrecognised body), the keyword
                                    enum tables of debian-control/src/fields.rs, and a copy of
                                    spec/field_names.tsv — DATA ONLY
  harness/src/s_accessor_gen.rs    the Rust dispatch over the same functions (match on method name)

Function bodies are whitespace-normalised and matched against a CLOSED catalogue of templates
(regular expressions over the normalised text, see GETTERS / SETTERS / HAND below).  Anything
else becomes `Unrecognised "<body>"`, which makes `ok_accessors` false in coq/props/C15.v.
The translator is part of the trusted base; the `accessor` correspondence stream re-validates
its output against the real code on every run (model row semantics vs. the generated dispatch).
"""
import os, re, sys
sys.path.insert(0, os.path.dirname(os.path.abspath(__file__)))
import _rustscan as rs

VERIF = os.path.dirname(os.path.dirname(os.path.abspath(__file__)))

# file -> {impl type name: (row type tag, rust path, constructor kind)}
SOURCES = [
    ("debian-control/src/lossless/control.rs", [
        ("Control", "control::Control", "debian_control::lossless::control::Control", "doc"),
        ("Source", "control::Source", "debian_control::lossless::control::Source", "from_para"),
        ("Binary", "control::Binary", "debian_control::lossless::control::Binary", "from_para")]),
    ("debian-control/src/lossless/apt.rs", [
        ("Source", "apt::Source", "debian_control::lossless::apt::Source", "from_para"),
        ("Package", "apt::Package", "debian_control::lossless::apt::Package", "new_para"),
        ("Release", "apt::Release", "debian_control::lossless::apt::Release", "new_para")]),
    ("debian-control/src/lossless/changes.rs", [
        ("Changes", "changes::Changes", "debian_control::lossless::changes::Changes", "changes")]),
    ("debian-control/src/lossless/buildinfo.rs", [
        ("Buildinfo", "buildinfo::Buildinfo", "debian_control::lossless::buildinfo::Buildinfo", "from_para")]),
    ("debian-copyright/src/lossless.rs", [
        ("Copyright", "copyright::Copyright", "debian_copyright::lossless::Copyright", "doc"),
        ("Header", "copyright::Header", "debian_copyright::lossless::Header", "cr_header"),
        ("FilesParagraph", "copyright::FilesParagraph", "debian_copyright::lossless::FilesParagraph", "cr_files"),
        ("LicenseParagraph", "copyright::LicenseParagraph", "debian_copyright::lossless::LicenseParagraph", "cr_license")]),
    ("dep3/src/lossless.rs", [
        ("PatchHeader", "dep3::PatchHeader", "dep3::lossless::PatchHeader", "dep3")]),
]

# functions that are not accessors of a field: by name (constructors without a self receiver are
# recognised by their signature)
OTHER_NAMES = {"as_deb822", "as_mut_deb822", "as_deb822_mut", "wrap_and_sort", "write", "matches"}

def unescape(lit):
    """contents of a Rust string literal (between the quotes) -> text"""
    out = []; i = 0
    while i < len(lit):
        c = lit[i]
        if c == "\\":
            n = lit[i + 1]
            out.append({"n": "\n", "t": "\t", "r": "\r", "\\": "\\", '"': '"', "'": "'", "0": "\0"}[n]); i += 2
        else:
            out.append(c); i += 1
    return "".join(out)

# ------------------------------------------------------------------ Coq printing
def cq(s):
    """Coq string literal"""
    return '"' + s.replace('"', '""') + '"'
def S(s):
    return "(s2l %s)" % cq(s)
def SL(l):
    return "[" + "; ".join(S(x) for x in l) + "]"

# ------------------------------------------------------------------ types
XTY = {"debversion::Version": "XVersion", "url::Url": "XUrl",
       "chrono::DateTime<chrono::FixedOffset>": "XDateTime", "chrono::NaiveDate": "XNaiveDate"}
ENUMS = ["Priority", "MultiArch", "Urgency"]
TRIPLES = ["Md5Checksum", "Sha1Checksum", "Sha256Checksum", "Sha512Checksum"]

def base_type(t):
    t = t.strip()
    while t.startswith("&"): t = t[1:]
    if t.startswith("mut "): t = t[4:]
    for p in ("crate::fields::", "crate::", "super::"):
        if t.startswith(p): t = t[len(p):]
    return t

def vty_of(t, broken):
    """Rust type text -> Coq vty term, or None"""
    t = base_type(t)
    if t in broken: return None
    if t == "Relations": return "TRelations"
    if t == "usize": return "TUsize"
    if t in ENUMS: return "(TEnum %s)" % S(t)
    if t in XTY: return "(TExt %s)" % XTY[t]
    if t == "Forwarded": return "TForwarded"
    if t == "AppliedUpstream": return "TAppliedUpstream"
    return None

def recty_of(t, broken):
    t = base_type(t)
    if t in broken: return None
    if t in TRIPLES: return "RTriple"
    if t == "File": return "RFile"
    return None

def strip_option(t):
    m = re.fullmatch(r"Option<(.*)>", t)
    return m.group(1) if m else None
def strip_vec(t):
    m = re.fullmatch(r"Vec<(.*)>", t)
    return m.group(1) if m else None

# ------------------------------------------------------------------ templates
LIT = r'"((?:[^"\\]|\\.)*)"'
G = r"self\.0\.get\(" + LIT + r"\)"
ID = r"[A-Za-z_][A-Za-z0-9_]*"
SPLITS = {r"split\(','\)": "SpComma", r"split\(' '\)": "SpSpace", r"split\('\\n'\)": "SpLf", r"split_whitespace\(\)": "SpWs"}
SPLIT_RE = "(" + "|".join(SPLITS) + ")"
def split_kind(txt):
    for k, v in SPLITS.items():
        if re.fullmatch(k, txt): return v
    raise KeyError(txt)
PIECE = r"\.map\(\|(" + ID + r")\|\{?\1\.(trim\(\)\.)?(?:to_string|to_owned)\(\)\}?\)\.collect(?:::<Vec<(?:String|_)>>)?\(\)"

class Row:
    def __init__(self, ty, fn):
        self.ty = ty; self.fn = fn; self.method = fn.name
        self.role = "ROther"; self.fields = []; self.op = "ONone"; self.codec = '(CHand (s2l "other"))'
        self.note = ""
    def unrec(self, why=""):
        body = self.fn.body if not why else why + ": " + self.fn.body
        self.codec = "(Unrecognised %s)" % S(body)

def match_getter(r, body, ret, params, broken):
    """fills r from a getter body; returns True when recognised"""
    fn = r.fn
    m = re.fullmatch(G, body) or re.fullmatch(G + r"\.map\(\|(" + ID + r")\|\2\.to_string\(\)\)", body)
    if m and ret == "Option<String>":
        r.fields = [unescape(m.group(1))]; r.op = "OGet"; r.codec = "CStr"; return True
    # parse().unwrap() / parse().ok()
    m = re.fullmatch(G + r"(?:\.as_deref\(\))?\.map\(\|(" + ID + r")\|\2\.parse\(\)\.unwrap\(\)\)", body)
    if m and strip_option(ret) and vty_of(strip_option(ret), broken):
        r.fields = [unescape(m.group(1))]; r.op = "OGet"; r.codec = "(CParse %s true)" % vty_of(strip_option(ret), broken); return True
    m = re.fullmatch(G + r"\.map\(\|(" + ID + r")\|Relations::parse_relaxed\(&\2,true\)\.0\)", body)
    if m and ret == "Option<Relations>":
        r.fields = [unescape(m.group(1))]; r.op = "OGet"; r.codec = "CRelaxed"; return True
    m = re.fullmatch(G + r"(?:\.as_deref\(\))?\.and_then\(\|(" + ID + r")\|\2\.parse\(\)\.ok\(\)\)", body)
    if m and strip_option(ret) and vty_of(strip_option(ret), broken):
        r.fields = [unescape(m.group(1))]; r.op = "OGet"; r.codec = "(CParse %s false)" % vty_of(strip_option(ret), broken); return True
    m = re.fullmatch(G + r"\.as_ref\(\)\.map\(\|(" + ID + r")\|chrono::DateTime::parse_from_rfc2822\(\2\)\.unwrap\(\)\)", body)
    if m and ret == "Option<chrono::DateTime<chrono::FixedOffset>>":
        r.fields = [unescape(m.group(1))]; r.op = "OGet"; r.codec = "(CParse (TExt XDateTime) true)"; return True
    m = re.fullmatch(G + r"\.as_deref\(\)\.and_then\(\|(" + ID + r')\|chrono::NaiveDate::parse_from_str\(\2,"%Y-%m-%d"\)\.ok\(\)\)', body)
    if m and ret == "Option<chrono::NaiveDate>":
        r.fields = [unescape(m.group(1))]; r.op = "OGet"; r.codec = "(CParse (TExt XNaiveDate) false)"; return True
    m = re.fullmatch(G + r"\.as_deref\(\)\.map\(crate::fields::parse_origin\)", body)
    if m and ret == "Option<(Option<OriginCategory>,Origin)>" and "parse_origin" not in broken:
        r.fields = [unescape(m.group(1))]; r.op = "OGet"; r.codec = "COrigin"; return True
    # split lists
    m = re.fullmatch(G + r"\.map\(\|(" + ID + r")\|\{?\2\." + SPLIT_RE + PIECE.replace(r"\1", r"\4") + r"\}?\)", body)
    if m and ret == "Option<Vec<String>>":
        r.fields = [unescape(m.group(1))]; r.op = "OGet"
        r.codec = "(CSplit %s %s ANone)" % (split_kind(m.group(3)), "true" if m.group(5) else "false"); return True
    m = re.fullmatch(G + r"\.(unwrap_or_default|unwrap)\(\)\." + SPLIT_RE + PIECE.replace(r"\1", r"\4"), body)
    if m and ret == "Vec<String>":
        r.fields = [unescape(m.group(1))]; r.op = "OGet"
        r.codec = "(CSplit %s %s %s)" % (split_kind(m.group(3)), "true" if m.group(5) else "false",
                                          "ADefault" if m.group(2) == "unwrap_or_default" else "APanic"); return True
    # the same with the field name as a parameter
    pnames = [p[0] for p in params if p[0] != "self" and p[1] == "&str"]
    m = re.fullmatch(r"self\.0\.get\((" + ID + r")\)\.map\(\|(" + ID + r")\|\{?\2\." + SPLIT_RE + PIECE.replace(r"\1", r"\4") + r"\}?\)", body)
    if m and ret == "Option<Vec<String>>" and pnames == [m.group(1)]:
        r.fields = []; r.op = "OGetParam"
        r.codec = "(CSplit %s %s ANone)" % (split_kind(m.group(3)), "true" if m.group(5) else "false"); return True
    # record lines
    m = re.fullmatch(G + r"\.map\(\|(" + ID + r")\|\{?\2\.lines\(\)\.map\(\|(" + ID + r")\|\3\.parse\(\)\.unwrap\(\)\)\.collect(?:::<Vec<(" + ID + r")>>)?\(\)\}?\)(\.unwrap_or_default\(\))?", body)
    if m:
        dflt = bool(m.group(5))
        elt = strip_vec(ret) if dflt else (strip_vec(strip_option(ret) or "") if strip_option(ret) else None)
        if elt and recty_of(elt, broken) and (not m.group(4) or m.group(4) == base_type(elt)):
            r.fields = [unescape(m.group(1))]; r.op = "OGet"
            r.codec = "(CLines %s %s)" % (recty_of(elt, broken), "true" if dflt else "false"); return True
    m = re.fullmatch(G + r"\.map\(\|(" + ID + r')\|\2=="yes"\)\.unwrap_or\(false\)', body)
    if m and ret == "bool":
        r.fields = [unescape(m.group(1))]; r.op = "OGet"; r.codec = "CFlagYes"; return True
    m = re.fullmatch(G + r'\.map\(\|s\|match s\.to_lowercase\(\)\.as_str\(\)\{"yes"=>true,"no"=>false,_=>panic!\("[^"]*"\),\}\)', body)
    if m and ret == "Option<bool>":
        r.fields = [unescape(m.group(1))]; r.op = "OGet"; r.codec = "CYesNoLower"; return True
    m = re.fullmatch(G + r'\.and_then\(\|s\|match s\.to_lowercase\(\)\.as_str\(\)\{"yes"\|"binary-targets"=>Some\(true\),"no"=>Some\(false\),_=>None,\}\)', body)
    if m and ret == "Option<bool>":
        r.fields = [unescape(m.group(1))]; r.op = "OGet"; r.codec = "CRootFlag"; return True
    m = re.fullmatch(G + r"\.map\(\|s\|\{s\.lines\(\)\.map\(\|line\|\{let\(key,value\)=line\.split_once\('='\)\.unwrap\(\);\(key\.to_string\(\),value\.to_string\(\)\)\}\)\.collect\(\)\}\)", body)
    if m and ret == "Option<std::collections::HashMap<String,String>>":
        r.fields = [unescape(m.group(1))]; r.op = "OGet"; r.codec = "CEnv"; return True
    # two names
    OR = G + r"\.or_else\(\|\|self\.0\.get\(" + LIT + r"\)\)"
    m = re.fullmatch(OR, body)
    if m and ret == "Option<String>":
        r.fields = [unescape(m.group(1)), unescape(m.group(2))]; r.op = "OGetOr"; r.codec = "CStr"; return True
    m = re.fullmatch(OR + r"\.as_deref\(\)\.map\(\|s\|s\.split\('\\n'\)\.next\(\)\.unwrap_or\(s\)\.to_string\(\)\)", body)
    if m and ret == "Option<String>":
        r.fields = [unescape(m.group(1)), unescape(m.group(2))]; r.op = "OGetOr"; r.codec = "CFirstLine"; return True
    m = re.fullmatch(OR + r"\.as_deref\(\)\.map\(\|s\|s\.split_once\('\\n'\)\.map\(\|x\|x\.1\)\.unwrap_or\(\"\"\)\.to_string\(\)\)", body)
    if m and ret == "Option<String>":
        r.fields = [unescape(m.group(1)), unescape(m.group(2))]; r.op = "OGetOr"; r.codec = "CRestLines"; return True
    m = re.fullmatch(r"self\.0\.get_all\(" + LIT + r"\)\.collect\(\)", body)
    if m and ret == "Vec<String>":
        r.fields = [unescape(m.group(1))]; r.op = "OGetAll"; r.codec = "CStr"; return True
    # DEP-5 licence readings (exact bodies)
    LIC = r"\.map\(\|x\|\{x\.split_once\('\\n'\)\.map_or_else\(\|\|License::Name\(x\.to_string\(\)\),\|\(name,text\)\|\{if name\.is_empty\(\)\{License::Text\(text\.to_string\(\)\)\}else\{License::Named\(name\.to_string\(\),text\.to_string\(\)\)\}\},\)\}\)"
    m = re.fullmatch(G + LIC, body)
    if m and ret == "Option<License>":
        r.fields = [unescape(m.group(1))]; r.op = "OGet"; r.codec = "CLicense"; return True
    m = re.fullmatch(G + r"\.and_then\(\|x\|match x\.split_once\('\\n'\)\{Some\(\(name,_\)\)if name\.is_empty\(\)=>None,Some\(\(name,_\)\)=>Some\(name\.to_string\(\)\),None=>Some\(x\.to_string\(\)\),\}\)", body)
    if m and ret == "Option<String>":
        r.fields = [unescape(m.group(1))]; r.op = "OGet"; r.codec = "CLicName"; return True
    m = re.fullmatch(G + r"\.and_then\(\|x\|x\.split_once\('\\n'\)\.map\(\|\(_,text\)\|text\.to_string\(\)\)\)", body)
    if m and ret == "Option<String>":
        r.fields = [unescape(m.group(1))]; r.op = "OGet"; r.codec = "CLicText"; return True
    return False

def setter_expr(expr, params, broken):
    """the written expression of a set/insert call -> codec, or None.  params: {name: type}"""
    m = re.fullmatch("(" + ID + ")", expr)
    if m and params.get(m.group(1)) in ("&str", "Option<&str>"):
        return "CStr"
    m = re.fullmatch(r"&?(" + ID + r")\.to_string\(\)(?:\.as_str\(\))?", expr)
    if m and m.group(1) in params:
        t = params[m.group(1)]
        t = strip_option(t) or t
        v = vty_of(t, broken)
        if v: return "(CDisplay %s)" % v
    m = re.fullmatch("(" + ID + r")\.(?:as_str|as_ref)\(\)", expr)
    if m and base_type(strip_option(params.get(m.group(1), "")) or params.get(m.group(1), "")) == "url::Url":
        return "(CDisplay (TExt XUrl))"
    m = re.fullmatch("(" + ID + r")\.to_rfc2822\(\)\.as_str\(\)", expr)
    if m and params.get(m.group(1)) == "chrono::DateTime<chrono::FixedOffset>":
        return "(CDisplay (TExt XDateTime))"
    m = re.fullmatch("(" + ID + r')\.format\("%Y-%m-%d"\)\.to_string\(\)\.as_str\(\)', expr)
    if m and params.get(m.group(1)) == "chrono::NaiveDate":
        return "(CDisplay (TExt XNaiveDate))"
    m = re.fullmatch("&(" + ID + r")\.join\(" + LIT + r"\)", expr)
    if m and params.get(m.group(1)) in ("Vec<String>", "&[&str]"):
        return "(CJoin %s)" % S(unescape(m.group(2)))
    m = re.fullmatch("(" + ID + r")\.iter\(\)\.map\(\|s\|s\.to_string\(\)\)\.collect::<Vec<_>>\(\)\.join\(" + LIT + r"\)\.as_str\(\)", expr)
    if m and params.get(m.group(1)) in ("Vec<String>", "&[&str]"):
        return "(CJoin %s)" % S(unescape(m.group(2)))
    m = re.fullmatch("&(" + ID + r")\.iter\(\)\.map\(\|(" + ID + r")\|\2\.to_string\(\)\)\.collect::<Vec<String>>\(\)\.join\(\"\\n\"\)", expr)
    if m and strip_vec(params.get(m.group(1), "")) and recty_of(strip_vec(params[m.group(1)]), broken):
        return "(CLinesDisplay %s)" % recty_of(strip_vec(params[m.group(1)]), broken)
    m = re.fullmatch("if (" + ID + r')\{"yes"\}else\{"no"\}', expr)
    if m and params.get(m.group(1)) == "bool":
        return "CYesNo"
    m = re.fullmatch(r"crate::fields::format_origin\(&category,&origin\)\.as_str\(\)", expr)
    if m and params.get("category") == "Option<OriginCategory>" and params.get("origin") == "Origin" and "format_origin" not in broken:
        return "COriginSet"
    return None

def match_setter(r, body, params, broken):
    pd = {p[0]: p[1] for p in params if p[0] != "self"}
    m = re.fullmatch(r"self\.0\.(set|insert)\(" + LIT + r",(.*?),?\);", body)
    if m and ";" not in m.group(3):
        c = setter_expr(m.group(3), pd, broken)
        if c and len(pd) == (2 if c == "COriginSet" else 1) and not any(t.startswith("Option<") for t in pd.values() if c != "COriginSet"):
            r.fields = [unescape(m.group(2))]; r.op = "OSet" if m.group(1) == "set" else "OInsert"; r.codec = c; return True
    m = re.fullmatch(r"if let Some\((" + ID + r")\)=\1\{self\.0\.set\(" + LIT + r",(.*?),?\);\}else\{self\.0\.remove\(" + LIT + r"\);\}", body)
    if m and m.group(2) == m.group(4) and len(pd) == 1 and pd.get(m.group(1), "").startswith("Option<"):
        c = setter_expr(m.group(3), pd, broken)
        if c:
            r.fields = [unescape(m.group(2))]; r.op = "OSetOrRemove"; r.codec = c; return True
    m = re.fullmatch("if (" + ID + r")\{self\.0\.set\(" + LIT + r',"yes"\);\}else\{self\.0\.remove\(' + LIT + r"\);\}", body)
    if m and m.group(2) == m.group(3) and pd == {m.group(1): "bool"}:
        r.fields = [unescape(m.group(2))]; r.op = "OSetOrRemove"; r.codec = "CYesRemove"; return True
    m = re.fullmatch(r"self\.0\.set\((" + ID + r"),(.*?)\);", body)
    if m and list(pd.items())[:1] == [(m.group(1), "&str")] and len(pd) == 2:
        c = setter_expr(m.group(2), pd, broken)
        if c:
            r.fields = []; r.op = "OSetParam"; r.codec = c; return True
    m = re.fullmatch(r'let mut s=String::new\(\);for\(key,value\)in env\{s\.push_str\(&format!\("\{\}=\{\}\\n",key,value\)\);\}self\.0\.set\(' + LIT + r",&s\);", body)
    if m and pd == {"env": "std::collections::HashMap<String,String>"}:
        r.fields = [unescape(m.group(1))]; r.op = "OSet"; r.codec = "CEnvSet"; return True
    m = re.fullmatch(r'let text=match license\{License::Name\(name\)=>name\.to_string\(\),License::Named\(name,text\)=>format!\("\{\}\\n\{\}",name,text\),License::Text\(text\)=>text\.to_string\(\),\};self\.0\.set\(' + LIT + r",&text\);", body)
    if m and pd == {"license": "&License"}:
        r.fields = [unescape(m.group(1))]; r.op = "OSet"; r.codec = "CLicenseSetShipped"; return True
    m = re.fullmatch(r"let text=license\.to_string\(\);self\.0\.set\(" + LIT + r",&text\);", body)
    if m and pd == {"license": "&License"} and "License" not in broken:
        r.fields = [unescape(m.group(1))]; r.op = "OSet"; r.codec = "CLicenseSet"; return True
    return False

# hand-modelled functions: (type tag, method) -> [(exact normalised body, hand id, field literals)]
# The first body of each list is the code with proposed_fixes/C15-*.patch applied, the bodies marked
# ".shipped" are the defective ones as shipped; their ids are not in Accessors.hand_setters/getters.
HAND = {
    ("dep3::PatchHeader", "set_author"): [
        ('if self.0.contains_key("From"){self.0.set("From",author);}else{self.0.set("Author",author);}', "dep3.set_author"),
        ('if self.0.contains_key("From"){self.0.insert("From",author);}else{self.0.insert("Author",author);}', "dep3.set_author.shipped")],
    ("dep3::PatchHeader", "set_description"): [
        ('let(field,old)=if let Some(subject)=self.0.get("Subject"){("Subject",Some(subject))}else{("Description",self.0.get("Description"))};'
         'let new=match old.as_deref().and_then(|s|s.split_once(\'\\n\')){Some((_,rest))=>format!("{}\\n{}",description,rest),None=>description.to_string(),};'
         'self.0.set(field,new.as_str());', "dep3.set_description"),
        ('if let Some(subject)=self.0.get("Subject"){let new=format!("{}\\n{}",description,subject.split_once(\'\\n\').map(|x|x.1).unwrap_or(""));self.0.insert("Subject",new.as_str());}'
         'else if let Some(description)=self.0.get("Description"){let new=format!("{}\\n{}",description.split_once(\'\\n\').map(|x|x.1).unwrap_or(""),description);self.0.insert("Description",new.as_str());}'
         'else{self.0.insert("Description",description);}', "dep3.set_description.shipped")],
    ("dep3::PatchHeader", "set_long_description"): [
        ('if let Some(subject)=self.0.get("Subject"){let first_line=subject.split_once(\'\\n\').map(|x|x.0).unwrap_or(subject.as_str());let new=format!("{}\\n{}",first_line,long_description);self.0.set("Subject",new.as_str());}'
         'else if let Some(description)=self.0.get("Description"){let first_line=description.split_once(\'\\n\').map(|x|x.0).unwrap_or(description.as_str());let new=format!("{}\\n{}",first_line,long_description);self.0.set("Description",new.as_str());}'
         'else{self.0.set("Description",long_description);}', "dep3.set_long_description"),
        ('if let Some(subject)=self.0.get("Subject"){let first_line=subject.split_once(\'\\n\').map(|x|x.0).unwrap_or(subject.as_str());let new=format!("{}\\n{}",first_line,long_description);self.0.insert("Subject",new.as_str());}'
         'else if let Some(description)=self.0.get("Description"){let first_line=description.split_once(\'\\n\').map(|x|x.0).unwrap_or(description.as_str());let new=format!("{}\\n{}",first_line,long_description);self.0.insert("Description",new.as_str());}'
         'else{self.0.insert("Description",long_description);}', "dep3.set_long_description.shipped")],
    ("dep3::PatchHeader", "bugs"): [
        ('self.0.items().filter_map(|(k,v)|{if k.starts_with("Bug-"){Some((Some(k.strip_prefix("Bug-").unwrap().to_string()),v))}else if k=="Bug"{Some((None,v))}else{None}})', "dep3.bugs")],
    ("dep3::PatchHeader", "vendor_bugs"): [
        ('self.bugs().filter_map(|(k,v)|{if k==Some(vendor.to_string()){Some(v)}else{None}})', "dep3.vendor_bugs")],
    ("dep3::PatchHeader", "set_vendor_bug"): [
        ('self.0.set(format!("Bug-{}",vendor).as_str(),bug);', "dep3.set_vendor_bug"),
        ('self.0.insert(format!("Bug-{}",vendor).as_str(),bug);', "dep3.set_vendor_bug.shipped")],
    ("copyright::Header", "fix"): [
        ('if self.0.contains_key("Format-Specification"){self.0.rename("Format-Specification","Format");}'
         'if let Some(mut format)=self.0.get("Format"){if!format.ends_with(\'/\'){format.push(\'/\');}'
         'if let Some(rest)=format.strip_prefix("http:"){format=format!("https:{}",rest);}'
         'if KNOWN_FORMATS.contains(&format.as_str()){format=CURRENT_FORMAT.to_string();}'
         'self.0.set("Format",format.as_str());}', "copyright.fix")],
    ("control::Source", "vcs"): [
        ('for(name,value)in self.0.items(){if let Some(kind)=name.strip_prefix("Vcs-"){if kind!="Browser"{return crate::vcs::Vcs::from_field(kind,&value).ok();}}}None', "control.vcs"),
        ('for(name,value)in self.0.items(){if name.starts_with("Vcs-")&&name!="Vcs-Browser"{return crate::vcs::Vcs::from_field(&name,&value).ok();}}None', "control.vcs.shipped")],
    ("changes::Changes", "get_pool_path"): [
        ('let files=self.files()?;let section=&files.first().unwrap().section;let section=if let Some((section,_subsection))=section.split_once(\'/\'){section}else{"main"};'
         'let source=self.source()?;let subdir=if source.starts_with("lib"){"lib".to_string()}else{source[..1].to_lowercase()};Some(format!("pool/{}/{}/{}",section,subdir,source))', "changes.get_pool_path")],
    # document-level selection functions (props/C15.v: C15_source_binary)
    ("control::Control", "source"): [
        ('self.0.paragraphs().find(|p|p.get("Source").is_some()).map(Source)', "control.source")],
    ("control::Control", "binaries"): [
        ('self.0.paragraphs().filter(|p|p.get("Package").is_some()).map(Binary)', "control.binaries")],
}
HAND_GETTERS = {"dep3.bugs", "dep3.vendor_bugs", "control.vcs", "control.vcs.shipped", "changes.get_pool_path"}
DOC_LEVEL = {"control.source", "control.binaries"}

def inline_private(body, privs):
    """self.<private fn>() -> its body, when that body is a single expression"""
    def rep(m):
        b = privs.get(m.group(1))
        return b if b is not None and ";" not in b else m.group(0)
    return re.sub(r"self\.(" + ID + r")\(\)", rep, body)

# ------------------------------------------------------------------ fields.rs: enums and record types
def scan_fields(repo):
    """keyword enum tables and the check that the checksum record types are still the known shapes"""
    enums = {}; broken = set(); notes = []
    def impls(path):
        toks = rs.tokenize(open(os.path.join(repo, path)).read())
        out = {}
        i = 0; depth = 0
        while i < len(toks):
            k, t, _ = toks[i]
            if k == "p1" and t == "{": depth += 1
            elif k == "p1" and t == "}": depth -= 1
            elif k == "id" and t == "impl" and depth == 0:
                j = i + 1; head = []
                while not (toks[j][0] == "p1" and toks[j][1] == "{"):
                    head.append(toks[j][1]); j += 1
                e = rs.match_close(toks, j)
                if "for" in head:
                    trait = "".join(head[:head.index("for")]); ty = "".join(head[head.index("for") + 1:])
                    out[(trait.split("::")[-1], ty)] = rs.join_tokens(toks[j + 1:e])
                i = e
            i += 1
        return out, toks
    ctl, ctoks = impls("debian-control/src/fields.rs")
    for en in ENUMS:
        d = ctl.get(("Display", en), ""); f = ctl.get(("FromStr", en), "")
        disp = re.findall(en + r"::(\w+)=>(?:f\.write_str\()?\"([^\"]*)\"", d)
        frm = re.findall(r"\"([^\"]*)\"=>Ok\(" + en + r"::(\w+)\)", f)
        lower = "match s.to_lowercase().as_str(){" in f
        plain = "match s{" in f
        # the whole bodies must be nothing but the arms we read
        d_ok = re.fullmatch(r"fn fmt\(&self,f:&mut std::fmt::Formatter\)->std::fmt::Result\{(?:f\.write_str\()?match self\{(?:" + en + r"::\w+=>(?:f\.write_str\()?\"[^\"]*\"\)?,)+\}\)?\}", d)
        f_ok = re.fullmatch(r"type Err=String;fn from_str\(s:&str\)->Result<Self,Self::Err>\{match s(?:\.to_lowercase\(\)\.as_str\(\))?\{(?:\"[^\"]*\"=>Ok\(" + en + r"::\w+\),)+_=>Err\(format!\(\"[^\"]*\",s\)\),\}\}", f)
        if disp and frm and d_ok and f_ok and (lower or plain):
            enums[en] = (lower, frm, disp)
        else:
            broken.add(en); notes.append(f"enum {en}: Display/FromStr no longer match the keyword-table template")
    TRI_FROM = r"type Err=(?:String|\(\));fn from_str\(s:&str\)->Result<Self,Self::Err>\{let mut parts=s\.split_whitespace\(\);let (\w+)=parts\.next\(\)\.ok_or(?:_else)?\((?:\|\|\"[^\"]*\"\.to_string\(\)|\(\))\)\?;let size=parts\.next\(\)\.ok_or(?:_else)?\((?:\|\|\"[^\"]*\"\.to_string\(\)|\(\))\)\?\.parse\(\)\.map_err\((?:\|e:std::num::ParseIntError\|e\.to_string\(\)|\|_\|\(\))\)\?;let filename=parts\.next\(\)\.ok_or(?:_else)?\((?:\|\|\"[^\"]*\"\.to_string\(\)|\(\))\)\?\.to_string\(\);Ok\(Self\{\1:\1\.to_string\(\),size,filename,\}\)\}"
    TRI_DISP = r"fn fmt\(&self,f:&mut std::fmt::Formatter\)->std::fmt::Result\{write!\(f,\"\{\} \{\} \{\}\",self\.(\w+),self\.size,self\.filename\)\}"
    for t in TRIPLES:
        if not (re.fullmatch(TRI_FROM, ctl.get(("FromStr", t), "")) and re.fullmatch(TRI_DISP, ctl.get(("Display", t), ""))):
            broken.add(t); notes.append(f"record type {t}: Display/FromStr no longer match the checksum-triple template")
    chg, _ = impls("debian-control/src/lossless/changes.rs")
    FILE_FROM = 'type Err=();fn from_str(s:&str)->Result<Self,Self::Err>{let mut parts=s.split_whitespace();let md5sum=parts.next().ok_or(())?;let size=parts.next().ok_or(())?.parse().map_err(|_|())?;let section=parts.next().ok_or(())?.to_string();let priority=parts.next().ok_or(())?.parse().map_err(|_|())?;let filename=parts.next().ok_or(())?.to_string();Ok(Self{md5sum:md5sum.to_string(),size,section,priority,filename,})}'
    FILE_DISP = 'fn fmt(&self,f:&mut std::fmt::Formatter)->std::fmt::Result{write!(f,"{} {} {} {} {}",self.md5sum,self.size,self.section,self.priority,self.filename)}'
    if chg.get(("FromStr", "File")) != FILE_FROM or chg.get(("Display", "File")) != FILE_DISP:
        broken.add("File"); notes.append("record type changes::File: Display/FromStr changed")
    d3, d3toks = impls("dep3/src/fields.rs")
    FW_FROM = 'type Err=&\'static str;fn from_str(s:&str)->Result<Self,Self::Err>{match s{"no"=>Ok(Forwarded::No),"not-needed"=>Ok(Forwarded::NotNeeded),s=>Ok(Forwarded::Yes(s.to_string())),}}'
    FW_DISP = 'fn fmt(&self,f:&mut std::fmt::Formatter<\'_>)->std::fmt::Result{match self{Forwarded::No=>f.write_str("no"),Forwarded::NotNeeded=>f.write_str("not-needed"),Forwarded::Yes(s)=>f.write_str(s),}}'
    if d3.get(("FromStr", "Forwarded")) != FW_FROM or d3.get(("Display", "Forwarded")) != FW_DISP:
        broken.add("Forwarded"); notes.append("dep3 Forwarded: Display/FromStr changed")
    AU_FROM = 'type Err=&\'static str;fn from_str(s:&str)->Result<Self,Self::Err>{if let Some(rest)=s.strip_prefix("commit:"){Ok(AppliedUpstream::Commit(rest.to_string()))}else{Ok(AppliedUpstream::Other(s.to_string()))}}'
    AU_DISP = 'fn fmt(&self,f:&mut std::fmt::Formatter<\'_>)->std::fmt::Result{match self{AppliedUpstream::Commit(s)=>write!(f,"commit:{}",s),AppliedUpstream::Other(s)=>f.write_str(&s.to_string()),}}'
    if d3.get(("FromStr", "AppliedUpstream")) != AU_FROM or d3.get(("Display", "AppliedUpstream")) != AU_DISP:
        broken.add("AppliedUpstream"); notes.append("dep3 AppliedUpstream: Display/FromStr changed")
    OC_DISP = 'fn fmt(&self,f:&mut std::fmt::Formatter<\'_>)->std::fmt::Result{match self{OriginCategory::Backport=>f.write_str("backport"),OriginCategory::Vendor=>f.write_str("vendor"),OriginCategory::Upstream=>f.write_str("upstream"),OriginCategory::Other=>f.write_str("other"),}}'
    O_DISP = 'fn fmt(&self,f:&mut std::fmt::Formatter<\'_>)->std::fmt::Result{match self{Origin::Commit(s)=>write!(f,"commit:{}",s),Origin::Other(s)=>f.write_str(&s.to_string()),}}'
    if d3.get(("Display", "OriginCategory")) != OC_DISP or d3.get(("Display", "Origin")) != O_DISP:
        broken.add("format_origin"); notes.append("dep3 Display for OriginCategory / Origin changed (format_origin prints through them)")
    # debian-copyright License: Display is what set_license writes
    lic, _ = impls("debian-copyright/src/lib.rs")
    L_DISP = 'fn fmt(&self,f:&mut std::fmt::Formatter<\'_>)->std::fmt::Result{match self{License::Name(name)=>f.write_str(name),License::Text(text)=>write!(f,"\\n{}",text),License::Named(name,text)=>write!(f,"{}\\n{}",name,text),}}'
    if lic.get(("Display", "License")) != L_DISP:
        broken.add("License"); notes.append("debian-copyright Display for License changed")
    src = rs.join_tokens(d3toks)
    PO = 'pub(crate)fn parse_origin(s:&str)->(Option<OriginCategory>,Origin){let mut parts=s.splitn(2,", ");let(category,s)=match parts.next(){Some("backport")=>(Some(OriginCategory::Backport),parts.next().unwrap_or("")),Some("vendor")=>(Some(OriginCategory::Vendor),parts.next().unwrap_or("")),Some("upstream")=>(Some(OriginCategory::Upstream),parts.next().unwrap_or("")),Some("other")=>(Some(OriginCategory::Other),parts.next().unwrap_or("")),None|Some(_)=>(None,s),};if let Some(rest)=s.strip_prefix("commit:"){(category,Origin::Commit(rest.to_string()))}else{(category,Origin::Other(s.to_string()))}}'
    FO = 'pub(crate)fn format_origin(category:&Option<OriginCategory>,origin:&Origin)->String{format!("{}{}",category.map(|c|c.to_string()+", ").unwrap_or_default(),origin)}'
    if PO not in src: broken.add("parse_origin"); notes.append("dep3 parse_origin changed")
    if FO not in src: broken.add("format_origin"); notes.append("dep3 format_origin changed")
    return enums, broken, notes

# ------------------------------------------------------------------ harness generation
# argument conversions: Rust parameter type -> (statements declaring `a{i}` from the value text `val`, expression passed)
def arg_conv(t, i, src):
    a = f"a{i}"
    T = {
        "&str": (f"let {a} = v_str({src});", f"&{a}"),
        "Option<&str>": (f"let {a} = v_opt({src}).map(v_str);", f"{a}.as_deref()"),
        "bool": (f"let {a} = v_bool({src});", a),
        "usize": (f"let {a} = v_num({src});", a),
        "Vec<String>": (f"let {a} = v_list({src});", a),
        "&[&str]": (f"let {a}v = v_list({src}); let {a}: Vec<&str> = {a}v.iter().map(|s| s.as_str()).collect();", f"&{a}"),
        "Priority": (f"let {a}: debian_control::fields::Priority = v_str({src}).parse().unwrap();", a),
        "Option<Priority>": (f"let {a}: Option<debian_control::fields::Priority> = v_opt({src}).map(|x| v_str(x).parse().unwrap());", a),
        "MultiArch": (f"let {a}: debian_control::fields::MultiArch = v_str({src}).parse().unwrap();", a),
        "Option<MultiArch>": (f"let {a}: Option<debian_control::fields::MultiArch> = v_opt({src}).map(|x| v_str(x).parse().unwrap());", a),
        "&Relations": (f"let {a}: Relations = Relations::parse_relaxed(&v_str({src}), true).0;", f"&{a}"),
        "Relations": (f"let {a}: Relations = Relations::parse_relaxed(&v_str({src}), true).0;", a),
        "Option<&Relations>": (f"let {a}: Option<Relations> = v_opt({src}).map(|x| Relations::parse_relaxed(&v_str(x), true).0);", f"{a}.as_ref()"),
        "debversion::Version": (f"let {a}: debversion::Version = v_str({src}).parse().unwrap();", a),
        "&url::Url": (f"let {a} = url::Url::parse(&v_str({src})).unwrap();", f"&{a}"),
        "chrono::DateTime<chrono::FixedOffset>": (f"let {a} = chrono::DateTime::parse_from_rfc2822(&v_str({src})).unwrap();", a),
        "chrono::NaiveDate": (f'let {a} = chrono::NaiveDate::parse_from_str(&v_str({src}), "%Y-%m-%d").unwrap();', a),
        "Vec<Md5Checksum>": (f"let {a}: Vec<debian_control::fields::Md5Checksum> = v_recs({src});", a),
        "Vec<Sha1Checksum>": (f"let {a}: Vec<debian_control::fields::Sha1Checksum> = v_recs({src});", a),
        "Vec<Sha256Checksum>": (f"let {a}: Vec<debian_control::fields::Sha256Checksum> = v_recs({src});", a),
        "Vec<Sha512Checksum>": (f"let {a}: Vec<debian_control::fields::Sha512Checksum> = v_recs({src});", a),
        "std::collections::HashMap<String,String>": (f"let {a} = v_map({src});", a),
        "Forwarded": (f"let {a} = v_forwarded({src});", a),
        "AppliedUpstream": (f"let {a} = v_applied({src});", a),
        "&License": (f"let {a} = v_license({src});", f"&{a}"),
    }
    return T.get(t)

RET_OK = {
    "Option<String>", "Option<Vec<String>>", "Vec<String>", "bool", "Option<bool>", "Option<usize>",
    "Option<Priority>", "Option<MultiArch>", "Option<crate::fields::Urgency>", "Option<Relations>",
    "Option<debversion::Version>", "Option<url::Url>", "Option<chrono::DateTime<chrono::FixedOffset>>",
    "Option<chrono::NaiveDate>", "Vec<Md5Checksum>", "Vec<Sha1Checksum>", "Vec<Sha256Checksum>", "Vec<Sha512Checksum>",
    "Option<Vec<crate::fields::Sha1Checksum>>", "Option<Vec<crate::fields::Sha256Checksum>>", "Option<Vec<File>>",
    "Option<std::collections::HashMap<String,String>>", "Option<(Option<OriginCategory>,Origin)>",
    "Option<Forwarded>", "Option<AppliedUpstream>", "Option<License>", "Option<crate::vcs::Vcs>",
}
ITER_RET = {"impl Iterator<Item=(Option<String>,String)>+'_": "bugs", "impl Iterator<Item=String>+'a": "strings"}

def harness_arm(r):
    """Rust match arm for one row, or None when the signature is outside the catalogue"""
    fn = r.fn
    params = [p for p in fn.params if p[0] != "self"]
    if r.role == "RGetter":
        call_args = []
        decl = []
        for i, (n, t) in enumerate(params):
            if t == "&str":
                decl.append(f"let a{i} = arg.to_string();"); call_args.append(f"&a{i}")
            else:
                return None
        call = f"o.{fn.name}({', '.join(call_args)})"
        if fn.ret in RET_OK:
            return f'"{fn.name}" => {{ {" ".join(decl)} Some(ToV::to_v(&{call})) }}'
        if fn.ret in ITER_RET:
            return f'"{fn.name}" => {{ {" ".join(decl)} Some(ToV::to_v(&{call}.collect::<Vec<_>>())) }}'
        return None
    if r.role == "RSetter":
        if [t for _, t in params] == ["Option<OriginCategory>", "Origin"]:
            return f'"{fn.name}" => {{ let (a0, a1) = v_origin(val); o.{fn.name}(a0, a1); Some(String::new()) }}'
        decl = []; args = []
        # with two parameters the first &str is the field-name argument
        for i, (n, t) in enumerate(params):
            if len(params) == 2 and i == 0 and t == "&str":
                decl.append(f"let a{i} = arg.to_string();"); args.append(f"&a{i}")
                continue
            c = arg_conv(t, i, "val")
            if c is None:
                return None
            decl.append(c[0]); args.append(c[1])
        if len(params) > 2:
            return None
        return f'"{fn.name}" => {{ {" ".join(decl)} o.{fn.name}({", ".join(args)}); Some(String::new()) }}'
    return None

def classify(tag, fn, privs, broken, ctor):
    """one `pub fn` -> Row (role, fields, op, codec)"""
    r = Row(tag, fn)
    recv = [p[1] for p in fn.params if p[0] == "self"]
    body_n = inline_private(fn.body, privs)
    hand = HAND.get((tag, fn.name))
    if hand is not None:
        hit = [h for h in hand if h[0] == fn.body]
        if hit:
            hid = hit[0][1]
            r.codec = "(CHand %s)" % S(hid)
            if hid in DOC_LEVEL:
                r.role = "ROther"; r.op = "ONone"
            else:
                r.role = "RGetter" if (hid in HAND_GETTERS) else "RSetter"; r.op = "OHand"
        else:
            r.role = "RGetter" if recv == ["&self"] else "RSetter"
            r.unrec("hand-modelled function changed")
    elif not recv or fn.name in OTHER_NAMES or ctor == "doc":
        r.role = "ROther"; r.note = "no self receiver" if not recv else ("document-level" if ctor == "doc" else "not a field accessor")
    elif recv == ["&self"]:
        r.role = "RGetter"
        if not match_getter(r, body_n, fn.ret, fn.params, broken): r.unrec()
    elif recv == ["&mut self"]:
        r.role = "RSetter"
        if not match_setter(r, body_n, fn.params, broken): r.unrec()
    else:
        # `self` by value (or any other receiver): not silently skipped
        r.role = "RGetter"; r.unrec("receiver %s is outside the catalogue" % ",".join(recv)); r.bad_recv = True
    return r

def selftest():
    """translate/fixtures/accessors.rs: one function per template of the catalogue plus near misses;
    translate/fixtures/accessors.expected: `method role op codec fields` per line.  A template that starts to
    accept something else (or stops accepting its fixture) fails the translator run."""
    fdir = os.path.join(os.path.dirname(os.path.abspath(__file__)), "fixtures")
    src = os.path.join(fdir, "accessors.rs"); exp = os.path.join(fdir, "accessors.expected")
    if not os.path.exists(src): return []
    toks = rs.tokenize(open(src).read())
    got = []
    for ty, body in rs.impl_blocks(toks):
        fns = rs.fns_of(body)
        privs = {f.name: f.body for f in fns if not f.vis}
        for fn in fns:
            if fn.vis != "pub": continue
            r = classify("fixture::" + ty, fn, privs, set(), "from_para")
            codec = "Unrecognised" if "Unrecognised" in r.codec else r.codec
            got.append("%s %s %s %s %s" % (fn.name, r.role, r.op, codec.replace(" ", "_"), ",".join(r.fields) or "-"))
    if os.environ.get("ACCESSORS_FIXTURE_WRITE"):
        open(exp, "w").write("\n".join(got) + "\n")
    want = [l.rstrip("\n") for l in open(exp)] if os.path.exists(exp) else []
    return [f"fixture mismatch: got {g!r}, expected {w!r}" for g, w in zip(got + [None] * len(want), want + [None] * len(got)) if g != w and (g or w)]

def main():
    repo, gendir = sys.argv[1], sys.argv[2]
    enums, broken, notes = scan_fields(repo)
    rows = []
    per_type = {}   # type tag -> (rust path, ctor kind, [rows])
    for path, tys in SOURCES:
        toks = rs.tokenize(open(os.path.join(repo, path)).read())
        want = {t[0]: t for t in tys}
        for ty, body in rs.impl_blocks(toks):
            if ty not in want: continue
            _, tag, rpath, ctor = want[ty]
            fns = rs.fns_of(body)
            privs = {f.name: f.body for f in fns if not f.vis}
            for fn in fns:
                if not fn.vis.startswith("pub") or fn.vis != "pub":
                    continue
                r = classify(tag, fn, privs, broken, ctor)
                r.arm = harness_arm(r) if r.role != "ROther" and not getattr(r, "bad_recv", False) else None
                if r.role != "ROther" and r.arm is None and "Unrecognised" not in r.codec:
                    r.unrec("signature outside the harness catalogue (%s)->%s" % (",".join(t for _, t in fn.params), fn.ret))
                rows.append(r)
                per_type.setdefault(tag, (rpath, ctor, []))[2].append(r)

    # ---------------- spec table
    spec = []
    for l in open(os.path.join(VERIF, "spec", "field_names.tsv")):
        if l.startswith("#") or not l.strip(): continue
        f = l.rstrip("\n").split("\t")
        spec.append(f)
    RD = {"text": "RdText", "typed": "RdTyped", "comma": "RdComma", "ws": "RdWs", "lines": "RdLines", "flag": "RdFlag",
          "triples": "RdTriples", "files": "RdFiles", "env": "RdEnv", "origin": "RdOrigin", "license": "RdLicense",
          "firstline": "RdFirstLine", "restlines": "RdRestLines", "all": "RdAll"}

    # ---------------- Coq
    out = []
    out.append("(* GENERATED by translate/accessors.py from the Rust sources — data only; do not edit. *)")
    out.append("From Coq Require Import String.")
    out.append("From V.model Require Import Base Accessors.")
    out.append("Local Open Scope string_scope.")
    out.append("")
    out.append("Definition enums : list enum_def := Eval vm_compute in [")
    es = []
    for en in ENUMS:
        if en in enums:
            lower, frm, disp = enums[en]
            es.append("  mk_enum %s %s\n    [%s]\n    [%s]" % (S(en), "true" if lower else "false",
                      "; ".join("(%s, %s)" % (S(k), S(v)) for k, v in frm), "; ".join("(%s, %s)" % (S(v), S(t)) for v, t in disp)))
    out.append(";\n".join(es) + "].")
    out.append("")
    out.append("Definition spec : list spec_entry := Eval vm_compute in [")
    out.append(";\n".join("  mk_spec %s %s %s %s %s %s" % (S(f[0]), S(f[1]), S(f[2]), RD[f[3]],
               "[]" if f[4] == "-" else SL(f[4].split(",")), "true" if f[5] == "1" else "false") for f in spec) + "].")
    out.append("")
    out.append("Definition table : list row := Eval vm_compute in [")
    rs_ = []
    for r in rows:
        cm = f"(* {r.ty}::{r.method}{' — ' + r.note if r.note else ''} *)"
        rs_.append("  %s\n  mk_row %s %s %s %s %s %s" % (cm, S(r.ty), S(r.method), r.role, SL(r.fields), r.op, r.codec))
    out.append(";\n".join(rs_) + "].")
    out.append("")
    unrec = [r for r in rows if "Unrecognised" in r.codec]
    out.append("(* %d functions; %d unrecognised%s *)" % (len(rows), len(unrec), "".join("\n   " + n for n in notes)))
    os.makedirs(gendir, exist_ok=True)
    write_if_changed(os.path.join(gendir, "Accessors_gen.v"), "\n".join(out) + "\n")

    # ---------------- Rust
    ro = []
    ro.append("//! GENERATED by translate/accessors.py — the dispatch over the accessor functions of the")
    ro.append("//! lossless typed views (one match arm per `pub fn`, same rows as coq/gen/Accessors_gen.v).")
    ro.append("#![allow(unused_variables, unused_imports, unreachable_patterns, clippy::all)]")
    ro.append("use crate::s_accessor::*;")
    ro.append("use debian_control::lossless::relations::Relations;")
    ro.append("")
    for tag, (rpath, ctor, rws) in per_type.items():
        if ctor == "doc": continue
        fnname = "call_" + tag.replace("::", "_").lower()
        ro.append(f"pub fn {fnname}(o: &mut {rpath}, m: &str, arg: &str, val: &str) -> Option<String> {{")
        ro.append("    match m {")
        for r in rws:
            if r.role == "ROther": continue
            if r.arm: ro.append("        " + r.arm)
            else: ro.append(f'        "{r.method}" => Some("UNSUPPORTED".to_string()),')
        ro.append("        _ => None,")
        ro.append("    }")
        ro.append("}")
        ro.append("")
    ro.append("/// (type tag, constructor kind) of every typed view, in table order")
    ro.append("pub const TYPES: &[(&str, &str)] = &[")
    for tag, (rpath, ctor, rws) in per_type.items():
        if ctor != "doc": ro.append(f'    ("{tag}", "{ctor}"),')
    ro.append("];")
    ro.append("")
    ro.append("pub fn call(obj: &mut View, m: &str, arg: &str, val: &str) -> Option<String> {")
    ro.append("    match obj {")
    for tag, (rpath, ctor, rws) in per_type.items():
        if ctor == "doc": continue
        ro.append(f"        View::{view_variant(tag)}(o) => call_{tag.replace('::', '_').lower()}(o, m, arg, val),")
    ro.append("    }")
    ro.append("}")
    ro.append("")
    ro.append("pub enum View {")
    for tag, (rpath, ctor, rws) in per_type.items():
        if ctor == "doc": continue
        ro.append(f"    {view_variant(tag)}({rpath}),")
    ro.append("}")
    ro.append("")
    ro.append("/// every (type, method, role) of the table: the `accessor-table` stream prints it so that a row")
    ro.append("/// missing on either side is a correspondence difference")
    ro.append("pub const METHODS: &[(&str, &str, &str)] = &[")
    for r in rows:
        ro.append(f'    ("{r.ty}", "{r.method}", "{r.role}"),')
    ro.append("];")
    ro.append("")
    ro.append("pub fn streams() -> Vec<(&'static str, crate::StreamFn)> { vec![] }")
    write_if_changed(os.path.join(VERIF, "harness", "src", "s_accessor_gen.rs"), "\n".join(ro) + "\n")

    print(f"accessors: {len(rows)} functions, {sum(1 for r in rows if r.role == 'RGetter')} getters, "
          f"{sum(1 for r in rows if r.role == 'RSetter')} setters, {len(unrec)} unrecognised")
    for r in unrec:
        print(f"  UNRECOGNISED {r.ty}::{r.method}")
    for n in notes:
        print("  NOTE " + n)
    bad = selftest()
    for b in bad:
        print("  SELFTEST " + b)
    if bad:
        sys.exit(3)

def view_variant(tag):
    return "".join(w.capitalize() for w in re.split(r"::|_", tag))

def write_if_changed(path, text):
    try:
        if open(path).read() == text: return
    except OSError:
        pass
    with open(path, "w") as f:
        f.write(text)

if __name__ == "__main__":
    main()
