// Fixture for translate/accessors.py (never compiled): one function per template of the closed
// catalogue, then near misses that must stay Unrecognised.
impl T {
    pub fn g_plain(&self) -> Option<String> {
        self.0.get("A-B")
    }
    pub fn g_to_string(&self) -> Option<String> {
        self.0.get("A").map(|s| s.to_string())
    }
    pub fn g_parse_unwrap(&self) -> Option<Relations> {
        self.0.get("Depends").map(|s| s.parse().unwrap())
    }
    pub fn g_parse_unwrap_usize(&self) -> Option<usize> {
        self.0.get("Size").map(|s| s.parse().unwrap())
    }
    pub fn g_parse_ok(&self) -> Option<Priority> {
        self.0.get("Priority").and_then(|v| v.parse().ok())
    }
    pub fn g_parse_deref(&self) -> Option<Forwarded> {
        self.0
            .get("Forwarded")
            .as_deref()
            .map(|s| s.parse().unwrap())
    }
    pub fn g_date(&self) -> Option<chrono::DateTime<chrono::FixedOffset>> {
        self.0
            .get("Date")
            .as_ref()
            .map(|s| chrono::DateTime::parse_from_rfc2822(s).unwrap())
    }
    pub fn g_naive_date(&self) -> Option<chrono::NaiveDate> {
        self.0
            .get("Last-Update")
            .as_deref()
            .and_then(|s| chrono::NaiveDate::parse_from_str(s, "%Y-%m-%d").ok())
    }
    pub fn g_comma(&self) -> Option<Vec<String>> {
        self.0
            .get("Uploaders")
            .map(|s| s.split(',').map(|s| s.trim().to_owned()).collect())
    }
    pub fn g_comma_braces(&self) -> Option<Vec<String>> {
        self.0.get("Uploaders").map(|s| {
            s.split(',')
                .map(|s| s.trim().to_string())
                .collect::<Vec<String>>()
        })
    }
    pub fn g_ws(&self) -> Option<Vec<String>> {
        self.0
            .get("Binary")
            .map(|s| s.split_whitespace().map(|s| s.to_string()).collect())
    }
    pub fn g_space(&self) -> Option<Vec<String>> {
        self.0
            .get("Binary")
            .map(|s| s.split(' ').map(|s| s.to_string()).collect())
    }
    pub fn g_lf(&self) -> Option<Vec<String>> {
        self.0
            .get("Files-Excluded")
            .map(|x| x.split('\n').map(|x| x.to_string()).collect::<Vec<_>>())
    }
    pub fn g_lf_default(&self) -> Vec<String> {
        self.0
            .get("Copyright")
            .unwrap_or_default()
            .split('\n')
            .map(|x| x.to_string())
            .collect::<Vec<_>>()
    }
    pub fn g_ws_unwrap(&self) -> Vec<String> {
        self.0
            .get("Files")
            .unwrap()
            .split_whitespace()
            .map(|v| v.to_string())
            .collect::<Vec<_>>()
    }
    pub fn g_param(&self, tag: &str) -> Option<Vec<String>> {
        self.0
            .get(tag)
            .map(|s| s.split(',').map(|s| s.trim().to_string()).collect())
    }
    pub fn g_lines_default(&self) -> Vec<Md5Checksum> {
        self.0
            .get("Files")
            .map(|s| {
                s.lines()
                    .map(|line| line.parse().unwrap())
                    .collect::<Vec<Md5Checksum>>()
            })
            .unwrap_or_default()
    }
    pub fn g_lines_option(&self) -> Option<Vec<crate::fields::Sha1Checksum>> {
        self.0
            .get("Checksums-Sha1")
            .map(|s| s.lines().map(|line| line.parse().unwrap()).collect())
    }
    pub fn g_flag(&self) -> bool {
        self.0.get("Essential").map(|s| s == "yes").unwrap_or(false)
    }
    pub fn g_or(&self) -> Option<String> {
        self.0.get("Author").or_else(|| self.0.get("From"))
    }
    pub fn g_get_all(&self) -> Vec<String> {
        self.0.get_all("Reviewed-By").collect()
    }
    pub fn g_origin(&self) -> Option<(Option<OriginCategory>, Origin)> {
        self.0
            .get("Origin")
            .as_deref()
            .map(crate::fields::parse_origin)
    }
    pub fn set_str(&mut self, name: &str) {
        self.0.set("A", name);
    }
    pub fn set_opt_str(&mut self, section: Option<&str>) {
        if let Some(section) = section {
            self.0.set("Section", section);
        } else {
            self.0.remove("Section");
        }
    }
    pub fn set_display(&mut self, relations: &Relations) {
        self.0.set("Depends", relations.to_string().as_str());
    }
    pub fn set_display_amp(&mut self, size: usize) {
        self.0.set("Size", &size.to_string());
    }
    pub fn set_opt_display(&mut self, priority: Option<Priority>) {
        if let Some(priority) = priority {
            self.0.set("Priority", priority.to_string().as_str());
        } else {
            self.0.remove("Priority");
        }
    }
    pub fn set_url(&mut self, url: &url::Url) {
        self.0.set("Homepage", url.as_str());
    }
    pub fn set_join(&mut self, uploaders: Vec<String>) {
        self.0.set("Uploaders", &uploaders.join(", "));
    }
    pub fn set_join_slice(&mut self, uploaders: &[&str]) {
        self.0.set(
            "Uploaders",
            uploaders
                .iter()
                .map(|s| s.to_string())
                .collect::<Vec<_>>()
                .join(", ")
                .as_str(),
        );
    }
    pub fn set_lines(&mut self, files: Vec<Md5Checksum>) {
        self.0.set(
            "Files",
            &files
                .iter()
                .map(|f| f.to_string())
                .collect::<Vec<String>>()
                .join("\n"),
        );
    }
    pub fn set_yes_no(&mut self, requires_root: bool) {
        self.0.set(
            "Rules-Requires-Root",
            if requires_root { "yes" } else { "no" },
        );
    }
    pub fn set_yes_remove(&mut self, essential: bool) {
        if essential {
            self.0.set("Essential", "yes");
        } else {
            self.0.remove("Essential");
        }
    }
    pub fn set_insert(&mut self, bug: &str) {
        self.0.insert("Bug", bug);
    }
    pub fn set_param(&mut self, tag: &str, tags: Vec<String>) {
        self.0.set(tag, &tags.join(", "));
    }
    pub fn set_date(&mut self, date: chrono::DateTime<chrono::FixedOffset>) {
        self.0.set("Date", date.to_rfc2822().as_str());
    }
    pub fn g_relaxed(&self) -> Option<Relations> {
        self.0
            .get("Depends")
            .map(|s| Relations::parse_relaxed(&s, true).0)
    }
    pub fn g_root_flag(&self) -> Option<bool> {
        self.0
            .get("Rules-Requires-Root")
            .and_then(|s| match s.to_lowercase().as_str() {
                "yes" | "binary-targets" => Some(true),
                "no" => Some(false),
                // a list of keywords (<namespace>/<case>): not a yes/no answer
                _ => None,
            })
    }
    pub fn set_license_display(&mut self, license: &License) {
        let text = license.to_string();
        self.0.set("License", &text);
    }
    // ---- near misses: must be Unrecognised ----
    pub fn n_by_value(self) -> Option<String> {
        self.0.get("A")
    }
    pub fn n_relaxed_no_substvars(&self) -> Option<Relations> {
        self.0
            .get("Depends")
            .map(|s| Relations::parse_relaxed(&s, false).0)
    }
    pub fn n_root_flag_panics(&self) -> Option<bool> {
        self.0
            .get("Rules-Requires-Root")
            .and_then(|s| match s.to_lowercase().as_str() {
                "yes" | "binary-targets" => Some(true),
                "no" => Some(false),
                _ => panic!("x"),
            })
    }
    pub fn n_other_receiver(&self) -> Option<String> {
        self.1.get("A")
    }
    pub fn n_upper(&self) -> Option<String> {
        self.0.get("A").map(|s| s.to_uppercase())
    }
    pub fn n_wrong_closure_var(&self) -> Option<String> {
        self.0.get("A").map(|s| t.to_string())
    }
    pub fn n_parse_unknown_type(&self) -> Option<Frob> {
        self.0.get("A").map(|s| s.parse().unwrap())
    }
    pub fn n_flag_other_word(&self) -> bool {
        self.0.get("Essential").map(|s| s == "Yes").unwrap_or(false)
    }
    pub fn n_flag_default_true(&self) -> bool {
        self.0.get("Essential").map(|s| s == "yes").unwrap_or(true)
    }
    pub fn n_split_semicolon(&self) -> Option<Vec<String>> {
        self.0
            .get("Uploaders")
            .map(|s| s.split(';').map(|s| s.trim().to_owned()).collect())
    }
    pub fn n_set_two_fields(&mut self, section: Option<&str>) {
        if let Some(section) = section {
            self.0.set("Section", section);
        } else {
            self.0.remove("Priority");
        }
    }
    pub fn n_set_then_more(&mut self, name: &str) {
        self.0.set("A", name);
        self.0.remove("B");
    }
    pub fn n_set_wrong_type(&mut self, name: usize) {
        self.0.set("A", name);
    }
    pub fn n_set_literal(&mut self, name: &str) {
        self.0.set("A", "fixed");
    }
    pub fn n_set_trimmed(&mut self, name: &str) {
        self.0.set("A", name.trim());
    }
    pub fn n_yes_no_swapped(&mut self, b: bool) {
        self.0.set("X", if b { "no" } else { "yes" });
    }
}
