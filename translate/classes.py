#!/usr/bin/env python3
"""translate/classes.py <repo> <coq/gen dir>

Regenerates coq/gen/Classes_gen.v from the character-class predicates of the two lexers:
  src/common.rs                    is_indent, is_newline, is_valid_key_char, is_valid_initial_key_char
  debian-control/src/relations.rs  Lexer::is_whitespace, Lexer::is_valid_ident_char, and the
                                   single-character arms of Lexer::next_token (char -> SyntaxKind)
                                   together with the numeric values of SyntaxKind (both crates).
Data and boolean formulas only.  A body outside the tiny expression language below is emitted as
`false` with `classes_recognised := false`, which breaks the obligation in proofs/SourceTablesP.v.
The file is only rewritten when its content changes."""
import os, re, sys

CHAR_ESC = {"n": 10, "t": 9, "r": 13, "0": 0, "\\": 92, "'": 39, '"': 34}

def char_code(lit):
    body = lit[1:-1]
    if body.startswith("\\"):
        if body[1] in CHAR_ESC: return CHAR_ESC[body[1]]
        raise ValueError(lit)
    if len(body) != 1: raise ValueError(lit)
    return ord(body)

TOKEN = re.compile(r"\s*(\|\||&&|==|!=|!|\(|\)|'(?:\\.|[^'\\])'|[A-Za-z_][A-Za-z0-9_:]*(?:\.[a-z_]+\(\))?|\.)")

def tokenize(s):
    out = []; i = 0; s = s.strip()
    while i < len(s):
        m = TOKEN.match(s, i)
        if not m: raise ValueError("cannot tokenize: " + s[i:i+30])
        out.append(m.group(1)); i = m.end()
    return out

class P:
    """or := and ('||' and)* ; and := not ('&&' not)* ; not := '!' not | atom
       atom := '(' or ')' | c == 'x' | c != 'x' | c.is_ascii_graphic() | c.is_ascii_alphanumeric() | f(c) | Self::f(c)"""
    def __init__(self, toks, known): self.t = toks; self.i = 0; self.known = known
    def peek(self): return self.t[self.i] if self.i < len(self.t) else None
    def eat(self, x=None):
        v = self.peek()
        if x is not None and v != x: raise ValueError(f"expected {x}, got {v}")
        self.i += 1; return v
    def or_(self):
        l = self.and_()
        while self.peek() == "||": self.eat(); l = f"({l} || {self.and_()})"
        return l
    def and_(self):
        l = self.not_()
        while self.peek() == "&&": self.eat(); l = f"({l} && {self.not_()})"
        return l
    def not_(self):
        if self.peek() == "!": self.eat(); return f"negb {self.not_()}"
        return self.atom()
    def atom(self):
        v = self.eat()
        if v == "(":
            e = self.or_(); self.eat(")"); return e
        if v == "c":
            op = self.eat()
            if op in ("==", "!="):
                n = char_code(self.eat())
                e = f"(c =? {n})%N"
                return e if op == "==" else f"negb {e}"
            raise ValueError("after c: " + str(op))
        if v == "c.is_ascii_graphic()": return "((33 <=? c)%N && (c <=? 126)%N)"
        if v == "c.is_ascii_alphanumeric()":
            return "(((48 <=? c) && (c <=? 57) || (65 <=? c) && (c <=? 90) || (97 <=? c) && (c <=? 122))%N)"
        name = v.split("::")[-1]
        if name in self.known and self.peek() == "(":
            self.eat("("); self.eat("c"); self.eat(")"); return f"({name}_src c)"
        raise ValueError("unknown atom " + v)

def fn_body(src, name):
    m = re.search(r"fn\s+" + name + r"\s*\(\s*c\s*:\s*char\s*\)\s*->\s*bool\s*\{(.*?)\n\s*\}", src, re.S)
    if not m: return None
    body = re.sub(r"//[^\n]*", "", m.group(1))
    return " ".join(body.split())

def enum_values(src, name="SyntaxKind"):
    m = re.search(r"pub enum " + name + r"\s*\{(.*?)\n\}", src, re.S)
    if not m: return None
    body = re.sub(r"//[^\n]*", "", m.group(1))
    out = []; n = 0
    for item in body.split(","):
        item = item.strip()
        if not item: continue
        item = re.sub(r"#\[[^\]]*\]", "", item).strip()
        mm = re.match(r"([A-Za-z_]+)\s*(?:=\s*(\d+))?$", item)
        if not mm: return None
        if mm.group(2) is not None: n = int(mm.group(2))
        out.append((mm.group(1), n)); n += 1
    return out

def main(repo, gen):
    ok = True; notes = []; defs = []
    common = open(os.path.join(repo, "src/common.rs")).read()
    rel = open(os.path.join(repo, "debian-control/src/relations.rs")).read()
    lexrs = open(os.path.join(repo, "src/lex.rs")).read()
    known = []
    for src, names in ((common, ["is_indent", "is_newline", "is_valid_key_char", "is_valid_initial_key_char"]),
                       (rel, ["is_whitespace", "is_valid_ident_char"])):
        for name in names:
            body = fn_body(src, name)
            try:
                if body is None: raise ValueError("function not found")
                p = P(tokenize(body), known); e = p.or_()
                if p.peek() is not None: raise ValueError("trailing tokens")
            except Exception as ex:
                ok = False; e = "false"; notes.append(f"{name}: {ex}: {body!r}")
            defs.append(f"Definition {name}_src (c : N) : bool := {e}.")
            known.append(name)
    # single-character arms of next_token
    arms = []
    m = re.search(r"fn next_token.*?match c \{(.*?)_ if Self::is_whitespace", rel, re.S)
    if not m:
        ok = False; notes.append("next_token: single-character arms not found")
    else:
        ARM = r"('(?:\\.|[^'\\])')\s*=>\s*\{\s*self\.input\.next\(\);\s*Some\(\(SyntaxKind::([A-Z_]+),\s*\"((?:\\.|[^\"\\])*)\"\.to_owned\(\)\)\)\s*\}"
        for am in re.finditer(ARM, m.group(1)):
            c = char_code(am.group(1)); txt = am.group(3)
            txtc = CHAR_ESC.get(txt[1]) if txt.startswith("\\") else (ord(txt) if len(txt) == 1 else None)
            if txtc != c: ok = False; notes.append(f"arm {am.group(1)}: token text {txt!r} is not the character")
            arms.append((c, am.group(2)))
        rest = re.sub(ARM, "", m.group(1)).strip()
        if rest: ok = False; notes.append("next_token: unrecognised arm text: " + rest[:80])
    rk = enum_values(rel); dk = enum_values(lexrs)
    if rk is None or dk is None: ok = False; notes.append("SyntaxKind enum not understood")
    rkd = dict(rk or [])
    lines = ["(* generated by translate/classes.py from src/common.rs, src/lex.rs and debian-control/src/relations.rs — do not edit *)",
             "From Coq Require Import List NArith Bool.", "Import ListNotations.", ""]
    lines += defs + [""]
    lines.append("(* single-character arms of relations Lexer::next_token: (character, numeric SyntaxKind) in source order *)")
    lines.append("Definition single_char_arms_src : list (N * N) :=\n  [" + "; ".join(f"({c}, {rkd.get(k, 999)})" for c, k in arms) + "]%N.")
    lines.append("(* numeric values of the SyntaxKind enums, in declaration order *)")
    lines.append("Definition rel_kind_values_src : list N := [" + "; ".join(str(v) for _, v in (rk or [])) + "]%N.")
    lines.append("Definition deb822_kind_values_src : list N := [" + "; ".join(str(v) for _, v in (dk or [])) + "]%N.")
    lines.append(f"Definition classes_recognised : bool := {'true' if ok else 'false'}.")
    for n in notes: lines.append("(* NOT RECOGNISED: " + n.replace("*)", "* )") + " *)")
    text = "\n".join(lines) + "\n"
    path = os.path.join(gen, "Classes_gen.v")
    if not os.path.exists(path) or open(path).read() != text:
        open(path, "w").write(text)
    print("classes.py:", "ok" if ok else "NOT RECOGNISED: " + "; ".join(notes))
    return 0

if __name__ == "__main__":
    sys.exit(main(sys.argv[1], sys.argv[2]))
