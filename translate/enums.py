#!/usr/bin/env python3
"""translate/enums.py <repo> <coq/gen dir>

Re-reads the Rust sources of the typed-field enumerations and regenerates coq/gen/Enums_gen.v:
*data only* — for every enum with only unit variants that has a `FromStr` impl in the files
listed in FILES: the variant list, the Display/ToString table, the FromStr table (literal arms in
source order), the kind of its default arm and the pre-processing applied to the scrutinee
(`to_lowercase`).  Also the keyword arms and separators of dep3's parse_origin/format_origin.

Nothing is ever skipped silently: a function body that does not match one of the templates below
yields a table with `et_recognised := false` (and a comment saying what was not understood), which
makes `enum_ok` false and therefore breaks the proof obligation `enums_ok` of props/C18.v.

The output file is only rewritten when its content changes (so that `make` does not rebuild).
"""
import os, re, sys

FILES = [
    "debian-control/src/fields.rs",
    "debian-control/src/relations.rs",
    "dep3/src/fields.rs",
    "apt-sources/src/lib.rs",
]

# ------------------------------------------------------------------ a small Rust lexer
class Tok:
    __slots__ = ("k", "v")
    def __init__(self, k, v): self.k, self.v = k, v
    def __repr__(self): return f"{self.k}:{self.v!r}"
    def __eq__(self, o): return isinstance(o, Tok) and (self.k, self.v) == (o.k, o.v)

class LexError(Exception): pass

ESC = {"n": "\n", "t": "\t", "r": "\r", "0": "\0", "\\": "\\", '"': '"', "'": "'"}

def unescape(body):
    out = []; i = 0
    while i < len(body):
        c = body[i]
        if c != "\\":
            out.append(c); i += 1; continue
        i += 1
        if i >= len(body): raise LexError("dangling backslash")
        e = body[i]
        if e in ESC: out.append(ESC[e]); i += 1
        elif e == "x":
            out.append(chr(int(body[i+1:i+3], 16))); i += 3
        elif e == "u":
            j = body.index("}", i); out.append(chr(int(body[i+2:j].replace("_", ""), 16))); i = j + 1
        elif e == "\n":
            i += 1
            while i < len(body) and body[i] in " \t\n\r": i += 1
        else:
            raise LexError("unknown escape \\" + e)
    return "".join(out)

def lex(src):
    toks = []; i = 0; n = len(src)
    while i < n:
        c = src[i]
        if c in " \t\r\n": i += 1; continue
        if src.startswith("//", i):
            j = src.find("\n", i); i = n if j < 0 else j; continue
        if src.startswith("/*", i):
            depth = 1; i += 2
            while i < n and depth:
                if src.startswith("/*", i): depth += 1; i += 2
                elif src.startswith("*/", i): depth -= 1; i += 2
                else: i += 1
            continue
        m = re.compile(r'b?r(#*)"').match(src, i)
        if m:
            end = '"' + m.group(1)
            j = src.find(end, m.end())
            if j < 0: raise LexError("unterminated raw string")
            toks.append(Tok("str", src[m.end():j])); i = j + len(end); continue
        if c == '"' or (c == "b" and i + 1 < n and src[i+1] == '"'):
            if c == "b": i += 1
            j = i + 1
            while j < n and src[j] != '"':
                j += 2 if src[j] == "\\" else 1
            if j >= n: raise LexError("unterminated string")
            toks.append(Tok("str", unescape(src[i+1:j]))); i = j + 1; continue
        if c == "'":
            # char literal or lifetime
            m = re.compile(r"'(\\.[^']*|[^\\'])'").match(src, i)
            if m:
                toks.append(Tok("chr", unescape(m.group(1)))); i = m.end(); continue
            m = re.compile(r"'[A-Za-z_][A-Za-z0-9_]*").match(src, i)
            if m:
                toks.append(Tok("life", m.group(0))); i = m.end(); continue
            raise LexError("bad quote")
        m = re.compile(r"[A-Za-z_][A-Za-z0-9_]*").match(src, i)
        if m:
            toks.append(Tok("id", m.group(0))); i = m.end(); continue
        m = re.compile(r"[0-9][A-Za-z0-9_.]*").match(src, i)
        if m:
            toks.append(Tok("num", m.group(0))); i = m.end(); continue
        for p in ("=>", "::", "->"):
            if src.startswith(p, i):
                toks.append(Tok("p", p)); i += len(p); break
        else:
            toks.append(Tok("p", c)); i += 1
    return toks

OPEN = {"(": ")", "[": "]", "{": "}"}

def match_close(toks, i):
    """toks[i] is an opening bracket; returns the index of its closing bracket"""
    depth = 0
    j = i
    while j < len(toks):
        t = toks[j]
        if t.k == "p" and t.v in OPEN: depth += 1
        elif t.k == "p" and t.v in OPEN.values():
            depth -= 1
            if depth == 0: return j
        j += 1
    raise LexError("unbalanced bracket")

def P(v): return Tok("p", v)
def I(v): return Tok("id", v)

# ------------------------------------------------------------------ items
def find_enums(toks):
    """-> {name: [(variant, is_unit)]}"""
    out = {}
    i = 0
    while i < len(toks) - 2:
        if toks[i] == I("enum") and toks[i+1].k == "id" and toks[i+2] == P("{"):
            name = toks[i+1].v
            end = match_close(toks, i + 2)
            body = toks[i+3:end]
            variants = []
            j = 0
            while j < len(body):
                t = body[j]
                if t == P("#") and j + 1 < len(body) and body[j+1] == P("["):
                    j = match_close(body, j + 1) + 1; continue
                if t.k == "id":
                    unit = True
                    k = j + 1
                    if k < len(body) and body[k].k == "p" and body[k].v in ("(", "{"):
                        unit = False
                        k = match_close(body, k) + 1
                    if k < len(body) and body[k] == P("="):
                        while k < len(body) and body[k] != P(","): k += 1
                    variants.append((t.v, unit))
                    if k < len(body) and body[k] == P(","): k += 1
                    j = k; continue
                j += 1
            out[name] = variants
            i = end + 1; continue
        i += 1
    return out

def find_impls(toks):
    """-> [(trait_tokens, type_tokens, body_tokens)] for `impl [<..>] Trait for Type { .. }`"""
    out = []
    i = 0
    while i < len(toks):
        if toks[i] == I("impl"):
            j = i + 1
            if j < len(toks) and toks[j] == P("<"):
                depth = 0
                while j < len(toks):
                    if toks[j] == P("<"): depth += 1
                    elif toks[j] == P(">"):
                        depth -= 1
                        if depth == 0: j += 1; break
                    j += 1
            k = j
            while k < len(toks) and toks[k] != P("{") and toks[k] != P(";"): k += 1
            if k >= len(toks) or toks[k] == P(";"):
                i = k + 1; continue
            head = toks[j:k]
            end = match_close(toks, k)
            if I("for") in head:
                f = head.index(I("for"))
                trait, typ = head[:f], head[f+1:]
                if I("where") in typ: typ = typ[:typ.index(I("where"))]
                out.append((trait, typ, toks[k+1:end]))
            i = end + 1; continue
        i += 1
    return out

def find_fn(body, name):
    """-> (param_names, body_tokens) of `fn name(..) [-> ..] { .. }` inside an impl body, or None"""
    for i in range(len(body) - 1):
        if body[i] == I("fn") and body[i+1] == I(name):
            j = i + 2
            while body[j] != P("("): j += 1
            pe = match_close(body, j)
            params = []
            cur = body[j+1:pe]
            # split on top-level commas
            depth = 0; start = 0; pieces = []
            for k, t in enumerate(cur):
                if t.k == "p" and t.v in "([{<": depth += 1
                elif t.k == "p" and t.v in ")]}>": depth -= 1
                elif t == P(",") and depth == 0:
                    pieces.append(cur[start:k]); start = k + 1
            if cur[start:]: pieces.append(cur[start:])
            for pc in pieces:
                ids = [t.v for t in pc if t.k == "id" and t.v not in ("mut",)]
                if P(":") in pc:
                    before = pc[:pc.index(P(":"))]
                    ids = [t.v for t in before if t.k == "id" and t.v != "mut"]
                    params.append(ids[-1] if ids else "?")
                else:
                    params.append("self")
            k = pe + 1
            while body[k] != P("{"): k += 1
            e = match_close(body, k)
            return params, body[k+1:e]
    return None

def last_id(tokens):
    ids = [t.v for t in tokens if t.k == "id"]
    return ids[-1] if ids else None

def split_arms(toks):
    """split the token list of a match body into arms [(pattern_tokens, expr_tokens)]"""
    arms = []
    i = 0
    while i < len(toks):
        j = i; depth = 0
        while j < len(toks) and not (toks[j] == P("=>") and depth == 0):
            if toks[j].k == "p" and toks[j].v in OPEN: depth += 1
            elif toks[j].k == "p" and toks[j].v in OPEN.values(): depth -= 1
            j += 1
        if j >= len(toks): raise LexError("match arm without =>")
        pat = toks[i:j]
        k = j + 1
        if k < len(toks) and toks[k] == P("{"):
            e = match_close(toks, k)
            expr = toks[k:e+1]
            k = e + 1
            if k < len(toks) and toks[k] == P(","): k += 1
        else:
            depth = 0; s = k
            while k < len(toks) and not (toks[k] == P(",") and depth == 0):
                if toks[k].k == "p" and toks[k].v in OPEN: depth += 1
                elif toks[k].k == "p" and toks[k].v in OPEN.values(): depth -= 1
                k += 1
            expr = toks[s:k]
            if k < len(toks): k += 1
        arms.append((pat, expr))
        i = k
    return arms

class Unrec(Exception): pass

def variant_path(toks, enum):
    """`Enum::V` or `Self::V` -> V"""
    if len(toks) == 3 and toks[0].k == "id" and toks[0].v in (enum, "Self") and toks[1] == P("::") and toks[2].k == "id":
        return toks[2].v
    raise Unrec("not a variant path of %s: %s" % (enum, toks))

def str_expr(toks):
    """a string-valued expression that is just a literal: "x", "x".to_owned(), "x".to_string(), "x".into(), String::from("x")"""
    if len(toks) == 1 and toks[0].k == "str": return toks[0].v
    if len(toks) == 5 and toks[0].k == "str" and toks[1] == P(".") and toks[2].k == "id" and \
       toks[2].v in ("to_owned", "to_string", "into") and toks[3] == P("(") and toks[4] == P(")"):
        return toks[0].v
    if len(toks) == 6 and toks[0] == I("String") and toks[1] == P("::") and toks[2] == I("from") and toks[3] == P("(") \
       and toks[4].k == "str" and toks[5] == P(")"):
        return toks[4].v
    raise Unrec("not a string literal expression: %s" % toks)

def write_expr(toks, f):
    """f.write_str("x") or write!(f, "x") with no format directive -> x"""
    if len(toks) == 6 and toks[0] == I(f) and toks[1] == P(".") and toks[2] == I("write_str") and toks[3] == P("(") \
       and toks[4].k == "str" and toks[5] == P(")"):
        return toks[4].v
    if len(toks) == 7 and toks[0] == I("write") and toks[1] == P("!") and toks[2] == P("(") and toks[3] == I(f) \
       and toks[4] == P(",") and toks[5].k == "str" and toks[6] == P(")") and "{" not in toks[5].v and "}" not in toks[5].v:
        return toks[5].v
    raise Unrec("not a plain write of a literal: %s" % toks)

def strip_semicolon(toks):
    return toks[:-1] if toks and toks[-1] == P(";") else toks

def parse_display_match(body, enum, f, scrut, mode):
    """body = `match <scrut> { arms }` ; mode 'lit' (arms are string literals) or 'write' (arms write a literal)"""
    if not (len(body) >= 4 and body[0] == I("match")):
        raise Unrec("display body is not a match")
    # scrutinee: self | *self | value
    i = 1
    st = []
    while i < len(body) and body[i] != P("{"):
        st.append(body[i]); i += 1
    st = [t for t in st if t != P("*") and t != P("&")]
    if st != [I(scrut)]:
        raise Unrec("display scrutinee is not %s" % scrut)
    e = match_close(body, i)
    if e != len(body) - 1:
        raise Unrec("tokens after the display match")
    table = []
    for pat, expr in split_arms(body[i+1:e]):
        v = variant_path(pat, enum)
        if expr and expr[0] == P("{"): expr = strip_semicolon(expr[1:-1])
        lit = str_expr(expr) if mode == "lit" else write_expr(expr, f)
        table.append((v, lit))
    return table

def parse_display(body, params, enum):
    """Display::fmt body -> [(variant, literal)]"""
    f = params[1] if len(params) > 1 else "f"
    body = strip_semicolon(body)
    # template A: f.write_str(match self { V => "lit", .. })
    if len(body) > 5 and body[0] == I(f) and body[1] == P(".") and body[2] == I("write_str") and body[3] == P("(") \
       and match_close(body, 3) == len(body) - 1:
        return parse_display_match(body[4:-1], enum, f, "self", "lit")
    # template B: match self { V => f.write_str("lit"), .. }
    return parse_display_match(body, enum, f, "self", "write")

def parse_from_ref(body, params, enum):
    """impl From<&T> for String: fn from(value: &T) -> String { match value { T::V => "x".to_owned(), .. } }"""
    return parse_display_match(strip_semicolon(body), enum, None, params[0], "lit")

def parse_tostring_body(body):
    """ToString::to_string body must be `self.into()` or `self.to_owned().into()` / `(*self).into()`"""
    b = strip_semicolon(body)
    ok = [
        [I("self"), P("."), I("into"), P("("), P(")")],
        [I("self"), P("."), I("to_owned"), P("("), P(")"), P("."), I("into"), P("("), P(")")],
        [I("self"), P("."), I("clone"), P("("), P(")"), P("."), I("into"), P("("), P(")")],
        [P("("), P("*"), I("self"), P(")"), P("."), I("into"), P("("), P(")")],
    ]
    if b not in ok:
        raise Unrec("to_string body is not a plain conversion through From<&T> for String")

def parse_fromstr(body, params, enum):
    """FromStr::from_str body -> (pre, [(literal, variant)], default)
       default: ('err',) | ('value', variant)"""
    s = params[0]
    body = strip_semicolon(body)
    if not (body and body[0] == I("match")):
        raise Unrec("from_str body is not a single match")
    i = 1; st = []
    while i < len(body) and body[i] != P("{"):
        st.append(body[i]); i += 1
    if st == [I(s)]:
        pre = "PreNone"
    elif st == [I(s), P("."), I("to_lowercase"), P("("), P(")"), P("."), I("as_str"), P("("), P(")")]:
        pre = "PreLower"
    elif st == [I(s), P("."), I("to_ascii_lowercase"), P("("), P(")"), P("."), I("as_str"), P("("), P(")")]:
        pre = "PreAsciiLower"
    else:
        raise Unrec("unrecognised scrutinee of from_str: %s" % st)
    e = match_close(body, i)
    if e != len(body) - 1:
        raise Unrec("tokens after the from_str match")
    arms = split_arms(body[i+1:e])
    table = []; default = None
    for n, (pat, expr) in enumerate(arms):
        if expr and expr[0] == P("{"): expr = strip_semicolon(expr[1:-1])
        is_default = len(pat) == 1 and (pat[0] == I("_") or pat[0].k == "id")
        if is_default:
            if n != len(arms) - 1:
                raise Unrec("catch-all arm is not last")
            if len(expr) >= 3 and expr[0] == I("Err") and expr[1] == P("(") and match_close(expr, 1) == len(expr) - 1:
                default = ("err",)
            elif len(expr) >= 3 and expr[0] == I("Ok") and expr[1] == P("(") and match_close(expr, 1) == len(expr) - 1:
                default = ("value", variant_path(expr[2:-1], enum))
            else:
                raise Unrec("catch-all arm is neither Err(..) nor Ok(variant)")
            continue
        # literal alternatives "a" | "b"
        lits = []
        exp_lit = True
        for t in pat:
            if exp_lit and t.k == "str": lits.append(t.v); exp_lit = False
            elif not exp_lit and t == P("|"): exp_lit = True
            else: raise Unrec("from_str arm pattern is not a string literal: %s" % pat)
        if exp_lit: raise Unrec("dangling | in pattern")
        if not (len(expr) >= 3 and expr[0] == I("Ok") and expr[1] == P("(") and match_close(expr, 1) == len(expr) - 1):
            raise Unrec("from_str arm does not return Ok(variant): %s" % expr)
        v = variant_path(expr[2:-1], enum)
        for l in lits: table.append((l, v))
    if default is None:
        raise Unrec("from_str match has no catch-all arm")
    return pre, table, default

def type_name(typ):
    """impl target tokens -> (name, by_ref)"""
    t = [x for x in typ if x.k != "life"]
    if len(t) == 1 and t[0].k == "id": return t[0].v, False
    if len(t) == 2 and t[0] == P("&") and t[1].k == "id": return t[1].v, True
    return None, False

# ------------------------------------------------------------------ Coq output
def coq_str(s):
    cps = [str(ord(c)) for c in s]
    cm = s.replace("*)", "* )").replace("(*", "( *").replace("\n", "\\n")
    return "[" + "; ".join(cps) + "]%N (* \"" + cm + "\" *)"

def translate_enum(name, variants, impls, notes):
    """-> Coq record text"""
    vnames = [v for v, _ in variants]
    idx = {v: i for i, v in enumerate(vnames)}
    recognised = True
    why = []
    display = []; pre = "PreNone"; fromstr = []; default = "DefUnrecognised"
    # --- Display
    disp_impl = None; from_ref = None; tostring = None; fs = None
    for trait, typ, body in impls:
        tn, _ = type_name(typ)
        lt = last_id(trait)
        if tn == name and lt == "Display": disp_impl = body
        if tn == name and lt == "ToString": tostring = body
        if tn == name and lt == "FromStr": fs = body
        if tn == "String" and lt == name and I("From") in trait: from_ref = body
    try:
        if disp_impl is not None:
            fn = find_fn(disp_impl, "fmt")
            if fn is None: raise Unrec("Display impl without fn fmt")
            tab = parse_display(fn[1], fn[0], name)
        elif tostring is not None:
            fn = find_fn(tostring, "to_string")
            if fn is None: raise Unrec("ToString impl without fn to_string")
            parse_tostring_body(fn[1])
            if from_ref is None: raise Unrec("ToString goes through From<&T> for String, which was not found")
            fn2 = find_fn(from_ref, "from")
            if fn2 is None: raise Unrec("From impl without fn from")
            tab = parse_from_ref(fn2[1], fn2[0], name)
        else:
            raise Unrec("no Display or ToString impl found")
        for v, lit in tab:
            if v not in idx: raise Unrec("Display arm names unknown variant " + v)
            display.append((idx[v], lit))
    except (Unrec, LexError, IndexError) as e:
        recognised = False; why.append("Display: %s" % e)
    # --- FromStr
    try:
        if fs is None: raise Unrec("no FromStr impl found")
        fn = find_fn(fs, "from_str")
        if fn is None: raise Unrec("FromStr impl without fn from_str")
        pre, tab, dflt = parse_fromstr(fn[1], fn[0], name)
        if pre == "PreAsciiLower":
            raise Unrec("to_ascii_lowercase pre-processing is not modelled")
        for lit, v in tab:
            if v not in idx: raise Unrec("FromStr arm names unknown variant " + v)
            fromstr.append((lit, idx[v]))
        if dflt[0] == "err": default = "DefErr"
        else:
            if dflt[1] not in idx: raise Unrec("default arm names unknown variant")
            default = "(DefValue %d)" % idx[dflt[1]]
    except (Unrec, LexError, IndexError) as e:
        recognised = False; why.append("FromStr: %s" % e); pre = "PreUnrecognised"
    if not all(u for _, u in variants):
        recognised = False; why.append("enum has non-unit variants")
    out = []
    for w in why:
        out.append("(* UNRECOGNISED %s: %s *)" % (name, w.replace("*)", "* )").replace("(*", "( *")))
        notes.append("%s: %s" % (name, w))
    out.append("Definition %s_tab : enum_tab := {|" % name)
    out.append("  et_name := %s;" % coq_str(name))
    out.append("  et_variants := [" + ";\n                  ".join(coq_str(v) for v in vnames) + "];")
    out.append("  et_display := [" + ";\n                 ".join("(%d%%N, %s)" % (i, coq_str(l)) for i, l in display) + "];")
    out.append("  et_pre := %s;" % pre)
    out.append("  et_fromstr := [" + ";\n                 ".join("(%s, %d%%N)" % (coq_str(l), i) for l, i in fromstr) + "];")
    out.append("  et_default := %s;" % default)
    out.append("  et_recognised := %s |}." % ("true" if recognised else "false"))
    return "\n".join(out)

def translate_parse_origin(toks, enums, notes):
    """dep3 parse_origin / format_origin: keyword arms, separators."""
    out = []
    recognised = True; why = []
    arms = []; sep_parse = ""; sep_print = ""
    cat = enums.get("OriginCategory")
    idx = {v: i for i, (v, _) in enumerate(cat)} if cat else {}
    try:
        if not cat: raise Unrec("enum OriginCategory not found")
        # free functions: search the whole token stream
        fn = find_fn(toks, "parse_origin")
        if fn is None: raise Unrec("fn parse_origin not found")
        params, body = fn
        s = params[0]
        # let mut parts = s.splitn(2, "<sep>");
        pat = [I("let"), I("mut"), I("parts"), P("="), I(s), P("."), I("splitn"), P("("), Tok("num", "2"), P(",")]
        if body[:len(pat)] != pat or body[len(pat)].k != "str" or body[len(pat)+1:len(pat)+3] != [P(")"), P(";")]:
            raise Unrec("parse_origin does not start with `let mut parts = s.splitn(2, \"..\");`")
        sep_parse = body[len(pat)].v
        rest = body[len(pat)+3:]
        # let (category, s) = match parts.next() { arms };
        pat2 = [I("let"), P("("), I("category"), P(","), I(s), P(")"), P("="), I("match"), I("parts"), P("."), I("next"), P("("), P(")")]
        if rest[:len(pat2)] != pat2 or rest[len(pat2)] != P("{"):
            raise Unrec("parse_origin: second statement is not `let (category, s) = match parts.next() {`")
        e = match_close(rest, len(pat2))
        seen_default = False
        for p, x in split_arms(rest[len(pat2)+1:e]):
            if len(p) == 4 and p[0] == I("Some") and p[1] == P("(") and p[2].k == "str" and p[3] == P(")"):
                if seen_default: raise Unrec("parse_origin: keyword arm after the catch-all")
                want_tail = [P(","), I("parts"), P("."), I("next"), P("("), P(")"), P("."), I("unwrap_or"), P("("), Tok("str", ""), P(")"), P(")")]
                if not (x[:3] == [P("("), I("Some"), P("(")] and x[3] == I("OriginCategory") and x[4] == P("::") and x[5].k == "id"
                        and x[6] == P(")") and x[7:] == want_tail):
                    raise Unrec("parse_origin arm has an unexpected right-hand side: %s" % x)
                if x[5].v not in idx: raise Unrec("parse_origin arm names unknown variant")
                arms.append((p[2].v, idx[x[5].v]))
            elif p in ([I("None"), P("|"), I("Some"), P("("), I("_"), P(")")], [I("_")], [I("Some"), P("("), I("_"), P(")"), P("|"), I("None")]):
                if x != [P("("), I("None"), P(","), I(s), P(")")]:
                    raise Unrec("parse_origin catch-all arm is not (None, s)")
                seen_default = True
            else:
                raise Unrec("parse_origin: unexpected arm pattern %s" % p)
        if not seen_default: raise Unrec("parse_origin: no catch-all arm")
        tail = rest[e+1:]
        want = lex('; if let Some(rest) = %s.strip_prefix("commit:") { (category, Origin::Commit(rest.to_string())) } else { (category, Origin::Other(%s.to_string())) }' % (s, s))
        if tail != want:
            raise Unrec("parse_origin: tail differs from the modelled `strip_prefix(\"commit:\")` dispatch")
        fn2 = find_fn(toks, "format_origin")
        if fn2 is None: raise Unrec("fn format_origin not found")
        p2, b2 = fn2
        m = None
        for i, t in enumerate(b2):
            if t == I("to_string") and b2[i+1:i+4] == [P("("), P(")"), P("+")] and b2[i+4].k == "str":
                m = b2[i+4].v
        want2 = lex('format!("{}{}", %s.map(|c| c.to_string() + "SEP").unwrap_or_default(), %s)' % (p2[0], p2[1]))
        got2 = [Tok("str", "SEP") if (t.k == "str" and t.v == m) else t for t in strip_semicolon(b2)]
        if m is None or got2 != want2:
            raise Unrec("format_origin body differs from the modelled template")
        sep_print = m
    except (Unrec, LexError, IndexError) as e:
        recognised = False; why.append(str(e))
    for w in why:
        out.append("(* UNRECOGNISED parse_origin: %s *)" % w.replace("*)", "* )").replace("(*", "( *"))
        notes.append("parse_origin: " + w)
    out.append("Definition parse_origin_tab : origin_tab := {|")
    out.append("  ot_arms := [" + ";\n              ".join("(%s, %d%%N)" % (coq_str(l), i) for l, i in arms) + "];")
    out.append("  ot_sep_parse := %s;" % coq_str(sep_parse))
    out.append("  ot_sep_print := %s;" % coq_str(sep_print))
    out.append("  ot_recognised := %s |}." % ("true" if recognised else "false"))
    return "\n".join(out)

def generate(repo):
    notes = []
    chunks = []
    all_enums = {}
    tabs = []
    dep3_toks = None
    for rel in FILES:
        path = os.path.join(repo, rel)
        try:
            src = open(path, encoding="utf-8").read()
            toks = lex(src)
        except (OSError, LexError) as e:
            notes.append("%s: cannot read/lex: %s" % (rel, e))
            chunks.append("(* UNRECOGNISED file %s: %s *)" % (rel, str(e).replace("*)", "* )")))
            continue
        enums = find_enums(toks)
        impls = find_impls(toks)
        if rel == "dep3/src/fields.rs": dep3_toks = (toks, enums)
        for name in sorted(enums):
            variants = enums[name]
            has_fs = any(type_name(typ)[0] == name and last_id(trait) == "FromStr" for trait, typ, _ in impls)
            if not has_fs: continue
            if not all(u for _, u in variants): continue      # open types are modelled by hand (model/Codecs.v)
            chunks.append("(* %s: enum %s *)" % (rel, name))
            chunks.append(translate_enum(name, variants, impls, notes))
            tabs.append(name)
    if dep3_toks:
        chunks.append("(* dep3/src/fields.rs: parse_origin / format_origin *)")
        chunks.append(translate_parse_origin(dep3_toks[0], dep3_toks[1], notes))
    else:
        chunks.append("(* UNRECOGNISED parse_origin: dep3/src/fields.rs unreadable *)")
        chunks.append("Definition parse_origin_tab : origin_tab := {| ot_arms := []; ot_sep_parse := []; ot_sep_print := []; ot_recognised := false |}.")
    head = ["(* GENERATED by translate/enums.py from the Rust sources — data only, do not edit.",
            "   Files read: " + ", ".join(FILES) + " *)",
            "From V.model Require Import Base EnumTab.", ""]
    tail = ["", "Definition all_enums : list enum_tab :=\n  [" + "; ".join(t + "_tab" for t in tabs) + "]."]
    return "\n".join(head + chunks + tail) + "\n", notes, tabs

def main():
    if len(sys.argv) < 3:
        print(__doc__); sys.exit(2)
    repo, gendir = sys.argv[1], sys.argv[2]
    text, notes, tabs = generate(repo)
    os.makedirs(gendir, exist_ok=True)
    out = os.path.join(gendir, "Enums_gen.v")
    cur = open(out).read() if os.path.exists(out) else None
    if cur != text:
        open(out, "w").write(text)
        print("Enums_gen.v rewritten (%d tables: %s)" % (len(tabs), ", ".join(tabs)))
    else:
        print("Enums_gen.v unchanged (%d tables)" % len(tabs))
    for n in notes:
        print("UNRECOGNISED:", n)

if __name__ == "__main__":
    main()
