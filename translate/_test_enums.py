#!/usr/bin/env python3
"""Fixtures pinning what translate/enums.py recognises (run by hand: python3 translate/_test_enums.py).
Files starting with '_' are not run by the framework."""
import importlib.util, os, sys
here = os.path.dirname(os.path.abspath(__file__))
spec = importlib.util.spec_from_file_location("enums", os.path.join(here, "enums.py"))
E = importlib.util.module_from_spec(spec); spec.loader.exec_module(E)

def table(src, name):
    toks = E.lex(src)
    notes = []
    text = E.translate_enum(name, E.find_enums(toks)[name], E.find_impls(toks), notes)
    return text, notes

ENUM = "pub enum T { /// doc\n A, #[default] B }\n"
FROMSTR = 'impl std::str::FromStr for T { type Err = String; fn from_str(s: &str) -> Result<Self, Self::Err> { match s { "a" => Ok(T::A), "b" => Ok(Self::B), _ => Err(format!("bad {}", s)), } } }\n'
DISPLAY_A = 'impl std::fmt::Display for T { fn fmt(&self, f: &mut std::fmt::Formatter) -> std::fmt::Result { f.write_str(match self { T::A => "a", T::B => "b", }) } }\n'
DISPLAY_B = 'impl std::fmt::Display for T { fn fmt(&self, f: &mut std::fmt::Formatter<\'_>) -> std::fmt::Result { match self { T::A => f.write_str("a"), T::B => write!(f, "b"), } } }\n'
DISPLAY_C = 'impl From<&T> for String { fn from(value: &T) -> Self { match value { T::A => "a".to_owned(), T::B => "b".to_owned() } } }\nimpl ToString for &T { fn to_string(&self) -> String { self.to_owned().into() } }\n'

def check(name, cond):
    print(("ok   " if cond else "FAIL ") + name)
    if not cond: sys.exit(1)

for nm, disp in (("template A", DISPLAY_A), ("template B", DISPLAY_B), ("template C", DISPLAY_C)):
    t, notes = table(ENUM + FROMSTR + disp, "T")
    check(nm + " recognised", "et_recognised := true" in t and not notes)
    check(nm + " tables", t.count('(* "a" *)') == 2 and t.count('(* "b" *)') == 2 and "et_default := DefErr" in t and "et_pre := PreNone" in t)

t, notes = table(ENUM + FROMSTR.replace("match s {", "match s.to_lowercase().as_str() {") + DISPLAY_A, "T")
check("to_lowercase recognised", "et_pre := PreLower" in t and "et_recognised := true" in t)
t, notes = table(ENUM + FROMSTR.replace('_ => Err(format!("bad {}", s)),', "_ => Ok(T::B),") + DISPLAY_A, "T")
check("default arm mapping to a variant is reported as DefValue", "et_default := (DefValue 1)" in t)
t, notes = table(ENUM + FROMSTR.replace('"a" => Ok(T::A),', '"a" | "aa" => Ok(T::A),') + DISPLAY_A, "T")
check("alternative literals", t.count("(* \"aa\" *)") == 1 and "et_recognised := true" in t)

BAD = [
    ("if/else body", FROMSTR.replace('match s { "a" => Ok(T::A), "b" => Ok(Self::B), _ => Err(format!("bad {}", s)), }', 'if s == "a" { Ok(T::A) } else { Err(String::new()) }'), DISPLAY_A),
    ("trimmed scrutinee", FROMSTR.replace("match s {", "match s.trim() {"), DISPLAY_A),
    ("guarded arm", FROMSTR.replace('"b" => Ok(Self::B),', 'x if x.starts_with("b") => Ok(Self::B),'), DISPLAY_A),
    ("arm with side computation", FROMSTR.replace('"b" => Ok(Self::B),', '"b" => { log(); Ok(Self::B) }'), DISPLAY_A),
    ("no catch-all", FROMSTR.replace('_ => Err(format!("bad {}", s)),', ""), DISPLAY_A),
    ("display with format directive", FROMSTR, DISPLAY_B.replace('write!(f, "b")', 'write!(f, "b{}", 1)')),
    ("display missing", FROMSTR, ""),
    ("display through a helper", FROMSTR, DISPLAY_A.replace('f.write_str(match self { T::A => "a", T::B => "b", })', "f.write_str(self.as_str())")),
    ("ascii lowercase", FROMSTR.replace("match s {", "match s.to_ascii_lowercase().as_str() {"), DISPLAY_A),
]
for nm, fs, disp in BAD:
    t, notes = table(ENUM + fs + disp, "T")
    check("unrecognised: " + nm, "et_recognised := false" in t and notes)

# the real sources: every table recognised
if len(sys.argv) > 1:
    text, notes, tabs = E.generate(sys.argv[1])
    check("real sources: no unrecognised body", not notes and "et_recognised := false" not in text and "ot_recognised := false" not in text)
    check("real sources: 7 enumerations", len(tabs) == 7)
print("all fixtures pass")
